"""Working toy calibration (≈4 s): a closed-form probe model, 2 islands, sade.
Notes learnt the hard way:
* pass NO readout (default Readout(): one time, time_domain_simulation False) for 2-D targets;
  a Readout(times=[...]) makes pyxel expect 3-D target datacubes (readout_time, y, x);
* explicit result_fit_range / target_fit_range are required (None crashes);
* sade needs population_size >= 7; sga/nlopt have their own constraints (see pyxel/calibration/algorithm.py);
* pygmo prints its evolution log to the C++ stdout;
* result nodes: /champion/{fitness,decision,parameters}(island, evolution[, param_id]),
  /best/* when num_best_decisions is given, /simulated/<bucket> and /full_size/simulated_<bucket> (dask, compute them);
* the problem object: pyxel.calibration.fitting_datatree.ModelFittingDataTree (see Calibration.run_calibration for
  how it is built) has get_bounds(), fitness(decision_vector), convert_to_parameters(...), update_processor(...).
"""
import numpy as np
import pyxel
from pyxel.calibration import Algorithm, Calibration
from pyxel.observation import ParameterValues
from pyxel.pipelines import FitnessFunction

from vf import build

LOG = []


def calmodel(detector, a=1.0, v=(1.0, 1.0)):
    LOG.append((a, tuple(v)))
    shape = detector.geometry.shape
    base = np.arange(shape[0] * shape[1], dtype=float).reshape(shape)
    detector.pixel.array = a * base + v[0] + 0.1 * v[1]


def main(tmp="/tmp"):
    np.save(f"{tmp}/target.npy", np.arange(12, dtype=float).reshape(3, 4))
    pspec = {"charge_collection": [{"name": "m", "func": "docs.calibration_example.calmodel",
                                    "arguments": {"a": 1.0, "v": [1.0, 1.0]}}]}
    cal = Calibration(
        target_data_path=[f"{tmp}/target.npy"],
        fitness_function=FitnessFunction(func="pyxel.calibration.fitness.sum_of_abs_residuals"),
        algorithm=Algorithm(type="sade", generations=3, population_size=8),
        parameters=[
            ParameterValues(key="pipeline.charge_collection.m.arguments.a", values="_", boundaries=(0.0, 10.0)),
            ParameterValues(key="pipeline.charge_collection.m.arguments.v", values=["_", "_"], logarithmic=True,
                            boundaries=[(1e-2, 1e2), (1.0, 10.0)]),
        ],
        result_type="pixel", result_fit_range=(0, 3, 0, 4), target_fit_range=(0, 3, 0, 4),
        pygmo_seed=5, pipeline_seed=7, num_islands=2, num_evolutions=2,
    )
    det = build.make_detector(build.default_detector_spec("ccd", 3, 4))
    tree = pyxel.run_mode(mode=cal, detector=det, pipeline=build.make_pipeline(pspec), with_inherited_coords=True)
    return tree

"""Scratch helper (design phase): applies the candidate repairs of DESIGN.md section 5 to a
copy of the repository given as argv[1].  Not part of the framework; kept so that the
feasibility study can be repeated.  Each block is one candidate 'fix:' commit."""
import pathlib, sys
root = pathlib.Path(sys.argv[1])
only = set(sys.argv[2:])  # optional list of fix ids

def sub(fid, path, old, new, count=1):
    if only and fid not in only:
        return
    p = root / path
    s = p.read_text()
    assert s.count(old) == count, (fid, path, old[:50], s.count(old))
    p.write_text(s.replace(old, new))

# F1 (C04) calibration drops pipeline_seed
sub("F1", "pyxel/calibration/calibration.py", """            weights_from_file=self.weights_from_file,
            with_inherited_coords=with_inherited_coords,
        )""", """            weights_from_file=self.weights_from_file,
            pipeline_seed=self.pipeline_seed,
            with_inherited_coords=with_inherited_coords,
        )""")

# F2 (C04) pulse_processing reseeds the global generator
sub("F2", "pyxel/models/phasing/pulse_processing.py", """    np.random.seed(42)

    _gaussian_samples = np.random.normal(
        mu, sigma, detector.phase.array[0][0]
    )  # To be continued...""", """    with set_random_seed(42):
        _gaussian_samples = np.random.normal(
            mu, sigma, detector.phase.array[0][0]
        )  # To be continued...""")
sub("F2", "pyxel/models/phasing/pulse_processing.py", "from pyxel.detectors import MKID\n",
    "from pyxel.detectors import MKID\nfrom pyxel.util import set_random_seed\n")

# F3 (C04/C07) seeded sections race on the process-wide generator
sub("F3", "pyxel/util/randomize.py", '''from contextlib import contextmanager

import numpy as np
''', '''import threading
from contextlib import contextmanager

import numpy as np

# The legacy random generator of numpy is shared by all threads.
# This lock ensures that only one thread at a time uses a temporary seed.
_SEED_LOCK = threading.RLock()
''')
sub("F3", "pyxel/util/randomize.py", '''    if seed is not None:
        previous_state = np.random.get_state()
        try:
            np.random.seed(seed)
            yield
        finally:
            np.random.set_state(previous_state)''', '''    if seed is not None:
        with _SEED_LOCK:
            previous_state = np.random.get_state()
            try:
                np.random.seed(seed)
                yield
            finally:
                np.random.set_state(previous_state)''')

# F5 (C08) Processor.set silently creates attributes for unknown keys
sub("F5", "pyxel/pipelines/processor.py", '''        if isinstance(obj, dict) and att in obj:
            obj[att] = new_value
        else:
            setattr(obj, att, new_value)''', '''        if isinstance(obj, dict) and att in obj:
            obj[att] = new_value
        elif not self.has(key):
            raise AttributeError(f"Attribute {key!r} does not exist !")
        else:
            setattr(obj, att, new_value)''')

# F6 (C11) fit ranges compared by end point instead of extent
sub("F6", "pyxel/calibration/util.py", '''def _check_out_fit_ranges(
    target_fit_range: FitRange2D | FitRange3D,
    out_fit_range: FitRange2D | FitRange3D,
):
    if (
        isinstance(target_fit_range, FitRange3D)
        and isinstance(out_fit_range, FitRange3D)
        and target_fit_range.time.stop != out_fit_range.time.stop
    ):
        raise ValueError(
            "Fitting ranges have different lengths in dimension 'readout time'"
        )

    if target_fit_range.row.stop != out_fit_range.row.stop:
        raise ValueError("Fitting ranges have different lengths in dimension 'y'")

    if target_fit_range.col.stop != out_fit_range.col.stop:
        raise ValueError("Fitting ranges have different lengths in dimension 'x'")
''', '''def _slice_length(data: slice) -> int | None:
    """Get the number of elements selected by a slice or None if it is open-ended."""
    if data.stop is None:
        return None

    return data.stop - (data.start or 0)


def _check_out_fit_ranges(
    target_fit_range: FitRange2D | FitRange3D,
    out_fit_range: FitRange2D | FitRange3D,
):
    if (
        isinstance(target_fit_range, FitRange3D)
        and isinstance(out_fit_range, FitRange3D)
        and _slice_length(target_fit_range.time) != _slice_length(out_fit_range.time)
    ):
        raise ValueError(
            "Fitting ranges have different lengths in dimension 'readout time'"
        )

    if _slice_length(target_fit_range.row) != _slice_length(out_fit_range.row):
        raise ValueError("Fitting ranges have different lengths in dimension 'y'")

    if _slice_length(target_fit_range.col) != _slice_length(out_fit_range.col):
        raise ValueError("Fitting ranges have different lengths in dimension 'x'")
''')

# F7 (C11) single calibration parameter: squeeze() drops the parameter axis
sub("F7", "pyxel/calibration/fitting_datatree.py",
    "params: np.ndarray = params_array.squeeze().to_numpy()",
    'params: np.ndarray = params_array.squeeze("island").to_numpy()')

# F16 (C11) '/simulated/*' nodes cannot be computed (wrong path, DataArray chunks)
for b in ("photon", "charge", "pixel", "signal", "image"):
    sub("F16", "pyxel/calibration/archipelago_datatree.py",
        f'data_tree["{b}"]  # type: ignore',
        f'data_tree["/bucket/{b}"].to_numpy()  # type: ignore')

# F8 (C12) setters / constructor without the documented range check
sub("F8", "pyxel/detectors/characteristics.py", '''        """Set bit resolution of the Analog-Digital Converter."""
        self._adc_bit_resolution = value''', '''        """Set bit resolution of the Analog-Digital Converter."""
        if not (4 <= value <= 64):
            raise ValueError("'adc_bit_resolution' must be between 4 and 64.")

        self._adc_bit_resolution = value''')
sub("F8", "pyxel/detectors/geometry.py", '''        self._row = row
        self._col = col
        self._total_thickness = total_thickness''', '''        if pixel_scale and not (0.0 <= pixel_scale <= 1000.0):
            raise ValueError("'pixel_scale' must be between 0.0 and 1000.0.")

        self._row = row
        self._col = col
        self._total_thickness = total_thickness''')

# F9 (C13) ArrayBase.__eq__ asymmetric / raising
sub("F9", "pyxel/data_structure/array.py", '''        is_true = type(self) is type(other) and self.shape == other.shape
        if is_true and self._array is not None:
            is_true = np.array_equal(self.array, other.array)
        return is_true''', '''        if type(self) is not type(other) or self.shape != other.shape:
            return False

        if self._array is None or other._array is None:
            return self._array is None and other._array is None

        return bool(np.array_equal(self._array, other._array))''')

# F10 (C13) Photon += on an empty container bypasses validation
sub("F10", "pyxel/data_structure/photon.py", '''        if self._array is not None:
            self._array += other
        else:
            self._array = other
        return self''', '''        if self._array is not None:
            self._array += other
        elif isinstance(other, xr.DataArray):
            self.array_3d = other
        else:
            self.array = other
        return self''', count=2)

# F11 (C14) clusters outside the sensitive area: unchecked numba indexing
sub("F11", "pyxel/data_structure/charge.py", '''        # Changing = to += since charge dataframe is reset, the pixel array need to be
        # incremented, we can't do the whole operation on each iteration
        return df_to_array(
            array=array,
            charge_per_pixel=charge_per_pixel,
            pixel_index_ver=pixel_index_ver,
            pixel_index_hor=pixel_index_hor,
        )''', '''        # Charges located outside the sensitive area are not collected by any pixel
        inside = (
            (pixel_index_ver >= 0)
            & (pixel_index_ver < self._geo.row)
            & (pixel_index_hor >= 0)
            & (pixel_index_hor < self._geo.col)
        )

        # Changing = to += since charge dataframe is reset, the pixel array need to be
        # incremented, we can't do the whole operation on each iteration
        return df_to_array(
            array=array,
            charge_per_pixel=charge_per_pixel[inside],
            pixel_index_ver=pixel_index_ver[inside],
            pixel_index_hor=pixel_index_hor[inside],
        )''')

# F12 (C15) persistence keeps only the last species' clipping
sub("F12", "pyxel/models/charge_collection/persistence.py", '''        trapped_charge_clipped, output_pixel = clip_trapped_charge(
            trapped_charge=trapped_charge,
            pixel=pixel_array,
            available_traps=available_traps,
            pixel_diff=pixel_diff,
            trap_capacities=fwc,
        )
        all_trapped_charge[i] = trapped_charge_clipped

    return output_pixel, all_trapped_charge''', '''        trapped_charge_clipped, _ = clip_trapped_charge(
            trapped_charge=trapped_charge,
            pixel=pixel_array,
            available_traps=available_traps,
            pixel_diff=pixel_diff,
            trap_capacities=fwc,
        )
        # Charge released by the clipping of each trap species goes back to the pixel
        output_pixel += trapped_charge - trapped_charge_clipped
        all_trapped_charge[i] = trapped_charge_clipped

    return output_pixel, all_trapped_charge''', count=2)
sub("F12", "pyxel/models/charge_collection/persistence.py", '''    pixel_diff = pixel_array - pixel_start

    for i, trapped_charge in enumerate(all_trapped_charge):''', '''    pixel_diff = pixel_array - pixel_start
    output_pixel = pixel_array.copy()

    for i, trapped_charge in enumerate(all_trapped_charge):''', count=2)

# F13 (C16) simple ADC: range maximum not mapped to full scale, wrap above 53 bits
sub("F13", "pyxel/models/readout_electronics/simple_adc.py", '''    output = (
        (np.clip(signal, a_min=voltage_min, a_max=voltage_max) - voltage_min)
        * (2**bit_resolution - 1)
        / (voltage_max - voltage_min)
    )

    return np.trunc(output).astype(dtype)''', '''    max_code: int = 2**bit_resolution - 1

    # Normalize first (full range gives exactly 1.0), then scale to the codes
    normalized = (
        np.clip(signal, a_min=voltage_min, a_max=voltage_max) - voltage_min
    ) / (voltage_max - voltage_min)

    # Largest floating point value which does not exceed 'max_code'
    max_float = float(max_code)
    if max_float > max_code:
        max_float = float(np.nextafter(max_float, 0.0))

    output = np.trunc(np.minimum(normalized * max_code, max_float)).astype(dtype)

    # The upper end of the range is always converted to the full scale
    output[normalized >= 1.0] = max_code

    return output''')

# F14 (C18) MKID phase not restored; load_detector is a no-op
sub("F14", "pyxel/detectors/mkid/mkid.py", '''        detector.image.update(data.get("image"))
''', '''        detector.image.update(data.get("image"))
        detector.phase.update(data.get("phase"))
''')
sub("F14", "pyxel/models/util.py", '''    detector = new_detector
''', '''    # Replace the data containers of the running detector by the loaded ones
    for name in (
        "_scene",
        "_photon",
        "_charge",
        "_pixel",
        "_signal",
        "_image",
        "_data",
        "_phase",
    ):
        if hasattr(new_detector, name):
            setattr(detector, name, getattr(new_detector, name))
''')

# F15 (C20) memoised image loader ignores file changes
sub("F15", "pyxel/util/image.py", '''@lru_cache(maxsize=128)  # One must add parameter 'maxsize' for Python 3.7
def load_cropped_and_aligned_image(
    shape: tuple[int, ...],
    filename: str | Path,
    position_x: int = 0,
    position_y: int = 0,
    align: (
        Literal["center", "top_left", "top_right", "bottom_left", "bottom_right"] | None
    ) = None,
    allow_smaller_array: bool = True,
) -> np.ndarray:''', '''def _get_file_signature(filename: str | Path) -> tuple[int, int] | None:
    """Get a signature (modification time and size) of a local file."""
    from pyxel.util import resolve_with_working_directory

    try:
        stat = Path(resolve_with_working_directory(filename)).stat()
    except (OSError, ValueError):
        # Not a local file (e.g. an URL)
        return None

    return stat.st_mtime_ns, stat.st_size


def load_cropped_and_aligned_image(
    shape: tuple[int, ...],
    filename: str | Path,
    position_x: int = 0,
    position_y: int = 0,
    align: (
        Literal["center", "top_left", "top_right", "bottom_left", "bottom_right"] | None
    ) = None,
    allow_smaller_array: bool = True,
) -> np.ndarray:
    """Load image from file and fit to detector shape.

    The result is cached as long as the file is not modified.
    """
    return _load_cropped_and_aligned_image(
        shape=shape,
        filename=filename,
        position_x=position_x,
        position_y=position_y,
        align=align,
        allow_smaller_array=allow_smaller_array,
        file_signature=_get_file_signature(filename),
    )


@lru_cache(maxsize=128)  # One must add parameter 'maxsize' for Python 3.7
def _load_cropped_and_aligned_image(
    shape: tuple[int, ...],
    filename: str | Path,
    position_x: int = 0,
    position_y: int = 0,
    align: (
        Literal["center", "top_left", "top_right", "bottom_left", "bottom_right"] | None
    ) = None,
    allow_smaller_array: bool = True,
    file_signature: tuple[int, int] | None = None,
) -> np.ndarray:''')
print("applied", sorted(only) if only else "all")

# F17 (C16) SAR converters accumulate the code in float64 (out of range above 53 bits)
for mod in ("sar_adc", "sar_adc_with_noise"):
    sub("F17", f"pyxel/models/readout_electronics/{mod}.py",
        "    data_digitized_2d = np.zeros((num_rows, num_cols))\n",
        "    # Use integers to avoid rounding errors for resolutions above 53 bits\n"
        "    data_digitized_2d = np.zeros((num_rows, num_cols), dtype=np.uint64)\n")
sub("F17", "pyxel/models/readout_electronics/sar_adc.py",
    "        data_digitized_2d[signal_normalized_2d >= ref] += digital_value\n",
    "        data_digitized_2d[signal_normalized_2d >= ref] += np.uint64(digital_value)\n")
sub("F17", "pyxel/models/readout_electronics/sar_adc_with_noise.py",
    "        data_digitized_2d += digital_value * mask_2d\n",
    "        data_digitized_2d += np.uint64(digital_value) * mask_2d.astype(np.uint64)\n")

# F18 (C20) text tables parsed with pandas' fast (not round-trip) float parser
sub("F18", "pyxel/inputs/loader.py", '''                        header=0 if header else None,
                        dtype=dtype,
                    )''', '''                        header=0 if header else None,
                        dtype=dtype,
                        float_precision="round_trip",
                    )''', count=2)

#!/bin/sh
# Offline set-up after a fresh restore: icontract + deal into the git-ignored .deps
cd "$(dirname "$0")" || exit 1
exec /venv/bin/python -c "import sys; sys.path.insert(0, '.'); from vf.core import ensure_deps; ensure_deps(); print('deps ok')"

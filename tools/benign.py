#!/venv/bin/python
"""False-alarm self-test: apply each behaviour-preserving change of mutants/benign.py to a scratch
copy and run the registered quick checks; every check must exit 0 without a VIOLATION line.

usage: tools/benign.py [ids ...] [--checks C01,C02] [--jobs N] [--par N]
"""
from __future__ import annotations

import argparse
import concurrent.futures as cf
import pathlib
import shutil
import sys

VERIF = pathlib.Path(__file__).resolve().parent.parent
sys.path.insert(0, str(VERIF))
sys.path.insert(0, str(VERIF / "tools"))
import mut  # noqa: E402


def main() -> int:
    ap = argparse.ArgumentParser()
    ap.add_argument("ids", nargs="*")
    ap.add_argument("--checks")
    ap.add_argument("--jobs", type=int, default=8)
    ap.add_argument("--par", type=int, default=2)
    ap.add_argument("--seed", default="0")
    args = ap.parse_args()
    from mutants.benign import BENIGN
    checks = args.checks.split(",") if args.checks else (VERIF / "tools" / "registered.txt").read_text().split()
    todo = [b for b in BENIGN if not args.ids or b["id"] in args.ids]

    def one(b):
        scratch = mut.make_scratch()
        try:
            mut.apply_mutant(scratch, b)
            return b["id"], mut.run_checks(scratch, checks, "quick", args.jobs, args.seed)
        except Exception as exc:  # noqa: BLE001
            return b["id"], {"error": repr(exc)}
        finally:
            shutil.rmtree(scratch, ignore_errors=True)

    bad = 0
    with cf.ThreadPoolExecutor(max_workers=args.par) as pool:
        for bid, res in pool.map(one, todo):
            if "error" in res:
                print(f"{bid}: ERROR {res['error']}")
                bad += 1
                continue
            alarms = {c: r for c, r in res.items() if r["rc"] != 0}
            bad += 1 if alarms else 0
            print(f"{bid}: {'FALSE ALARM' if alarms else 'silent'} " + " ".join(f"{c}:rc={r['rc']}" for c, r in res.items()))
            for c, r in alarms.items():
                print(f"     {c}: {r['first'][:300]} {r['tail']}")
    return 1 if bad else 0


if __name__ == "__main__":
    sys.exit(main())

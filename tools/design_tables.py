#!/venv/bin/python
"""Regenerates the generated tables of DESIGN.md (between <!-- BEGIN:x --> / <!-- END:x --> markers)."""
import json
import pathlib
import re
import sys

VERIF = pathlib.Path(__file__).resolve().parent.parent
sys.path.insert(0, str(VERIF))


def findings():
    d = json.loads((VERIF / "KNOWN_FINDINGS.json").read_text())
    rows = sorted(d["findings"], key=lambda f: (f["property"], f["status"] != "fixed", f["mechanism"]))
    out = ["| Prop | Mechanism key | Status | What failed on the pinned tree |", "|------|---------------|--------|--------------------------------|"]
    for f in rows:
        st = f"fixed `{f['commit']}`" if f["status"] == "fixed" else "**known**"
        out.append(f"| {f['property']} | `{f['mechanism']}` | {st} | {f['what_fails'].replace('|', '/')} |")
    n_fixed = sum(1 for f in rows if f["status"] == "fixed")
    out.append("")
    out.append(f"({n_fixed} fixed entries from {len({f['commit'] for f in rows if f['status'] == 'fixed'})} fix commits, "
               f"{len(rows) - n_fixed} known entries.)")
    return "\n".join(out)


def mutants():
    from mutants.catalog import MUTANTS
    by = {}
    for m in MUTANTS:
        by.setdefault(m["prop"], []).append(m["id"])
    out = ["| Prop | # | Catalogue changes (all CAUGHT at the quick tier) |", "|------|---|------|"]
    for p in sorted(by):
        out.append(f"| {p} | {len(by[p])} | {', '.join('`' + i + '`' for i in by[p])} |")
    out.append("")
    out.append(f"({sum(len(v) for v in by.values())} catalogue changes in total.)")
    return "\n".join(out)


def seeded():
    out = ["| Seeded change | What it needs to manifest | First run | After widening |", "|---|---|---|---|"]
    for d in sorted((VERIF / "seeded").glob("*/meta.json")):
        m = json.loads(d.read_text())
        c = m.get("confirmation", {})
        first = m.get("first_run", "CAUGHT" if c.get("caught") else "MISSED")
        now = "CAUGHT" if c.get("caught") else "MISSED"
        note = m.get("widening", "")
        need = str(m.get("needs_to_manifest", ""))[:260].replace("|", "/").replace("\n", " ")
        out.append(f"| `{d.parent.name}` | {need} | {first} | {now}{(' — ' + note) if note else ''} |")
    return "\n".join(out)


def main():
    p = VERIF / "DESIGN.md"
    s = p.read_text()
    for name, fn in (("FINDINGS", findings), ("MUTANTS", mutants), ("SEEDED", seeded)):
        block = f"<!-- BEGIN:{name} -->\n{fn()}\n<!-- END:{name} -->"
        if f"<!-- BEGIN:{name} -->" in s:
            s = re.sub(rf"<!-- BEGIN:{name} -->.*?<!-- END:{name} -->", lambda _m: block, s, flags=re.S)
        else:
            s = s.replace({"FINDINGS": "@@FINDINGS_TABLE@@", "MUTANTS": "@@MUTANT_TABLE@@", "SEEDED": "@@SEEDED_TABLE@@"}[name], block)
    p.write_text(s)
    print("DESIGN.md tables regenerated")


if __name__ == "__main__":
    main()

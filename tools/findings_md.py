#!/venv/bin/python
"""Renders KNOWN_FINDINGS.json and the mutant catalogues as markdown tables (pasted into DESIGN.md)."""
import json
import pathlib
import sys

VERIF = pathlib.Path(__file__).resolve().parent.parent
sys.path.insert(0, str(VERIF))
d = json.loads((VERIF / "KNOWN_FINDINGS.json").read_text())
rows = sorted(d["findings"], key=lambda f: (f["property"], f["status"] != "fixed", f["mechanism"]))
print("| Prop | Mechanism key | Status | What failed on the pinned tree |")
print("|------|---------------|--------|--------------------------------|")
for f in rows:
    st = f"fixed `{f['commit']}`" if f["status"] == "fixed" else "**known**"
    print(f"| {f['property']} | `{f['mechanism']}` | {st} | {f['what_fails'].replace('|', '/')} |")
print()
from mutants.catalog import MUTANTS
by = {}
for m in MUTANTS:
    by.setdefault(m["prop"], []).append(m["id"])
print("| Prop | # | Catalogue changes (tools/mut.py, all CAUGHT at the quick tier) |")
print("|------|---|------|")
for p in sorted(by):
    print(f"| {p} | {len(by[p])} | {', '.join('`' + i + '`' for i in by[p])} |")

#!/venv/bin/python
"""Regenerates MANIFEST.json from the check modules (vf/checks/cXX.py with REGISTER = True)."""
import importlib
import json
import pathlib
import subprocess
import sys

VERIF = pathlib.Path(__file__).resolve().parent.parent
sys.path.insert(0, str(VERIF))
props = [json.loads(l) for l in open(VERIF / "properties.jsonl")]
checks, na = [], []
ALLOW = set((VERIF / "tools" / "registered.txt").read_text().split())
for p in props:
    pid = p["id"]
    try:
        mod = importlib.import_module(f"vf.checks.{pid.lower()}")
    except ModuleNotFoundError:
        mod = None
    if mod is None or not getattr(mod, "REGISTER", False) or pid not in ALLOW:
        na.append({"property_id": pid, "reason": getattr(mod, "NA_REASON", None) or
                   "check under construction (runtime monitor designed in DESIGN.md section 4, not yet registered)"})
        continue
    checks.append({
        "property_id": pid,
        "quick_cmd": f"./check {pid} --tier quick",
        "thorough_cmd": f"./check {pid} --tier thorough",
        "evidence_file": f"/verif/evidence/{pid}.json",
        "replay_cmd_template": f"./check {pid} --replay {{path}}",
        "engine": "vf",
        "level_claimed": {"category": mod.LEVEL, "text": mod.LEVEL_TEXT, "design_ref": f"DESIGN.md section 4, {pid}"},
        "level_note": mod.LEVEL_NOTE,
        "technique": mod.TECHNIQUE,
    })
fix_commits = []
manifest = {
    "version": 1,
    "setup_cmd": "./setup.sh",
    "hooks": {
        "guard": "PYXEL_VERIF",
        "enable": "no source hooks: every monitor is attached from the harness (probe models referenced by generated "
                  "pipelines, sys.monitoring on code objects, sys.addaudithook, wrappers on numpy.random attributes, "
                  "icontract invariants applied to the classes); the checks import pyxel from /repo's working tree in "
                  "fresh interpreters",
        "baseline_off_cmd": "cd /repo && /venv/bin/python -m pytest -ra -q -p no:cacheprovider --timeout=900 "
                            "--continue-on-collection-errors",
        "source_commits": [],
        "add_only": True,
    },
    "engines": [{"name": "vf", "path": "/verif/vf", "serves_properties": [c["property_id"] for c in checks],
                 "kind_free_text": "runtime monitoring harness: sharded worker subprocesses run the real pyxel code "
                                   "under generated workloads; probe models, sys.monitoring, audit hooks, RNG-state "
                                   "monitors and icontract invariants observe; small reference oracles decide"}],
    "checks": checks,
    "not_applicable": na,
    "notes": "Runtime monitoring of esa-pyxel; see DESIGN.md. Exit 0 held / 1 VIOLATION / 2 INCONCLUSIVE. "
             "Known findings: KNOWN_FINDINGS.json (matched by mechanism key).",
}
(VERIF / "MANIFEST.json").write_text(json.dumps(manifest, indent=1))
import jsonschema
jsonschema.validate(manifest, json.load(open("/root/.vp/MANIFEST.schema.json")))
print("MANIFEST ok:", [c["property_id"] for c in checks], "n/a:", len(na))

#!/venv/bin/python
"""Mutation self-test: apply one realistic property-breaking change to a scratch copy of the
repository's package (outside /repo and /verif), run the named checks against it through
VERIF_REPO, expect exit 1 + VIOLATION, remove the copy.

usage: tools/mut.py [--tier quick] [--keep] [--jobs N] [ids or property ids ...]
The catalogue is mutants/catalog.py (MUTANTS: list of dicts id, prop, file, old, new, why).
Patch files under seeded/<id>/patch.diff are run with: tools/mut.py --patch FILE --checks C01,C02
"""
from __future__ import annotations

import argparse
import concurrent.futures as cf
import os
import pathlib
import shutil
import subprocess
import sys
import tempfile
import time

VERIF = pathlib.Path(__file__).resolve().parent.parent
sys.path.insert(0, str(VERIF))


def make_scratch() -> str:
    d = tempfile.mkdtemp(prefix="vf_mut_", dir="/tmp")
    shutil.copytree("/repo/pyxel", os.path.join(d, "pyxel"), ignore=shutil.ignore_patterns("__pycache__"))
    return d


def run_checks(scratch: str, checks: list[str], tier: str, jobs: int, seed: str = "0") -> dict:
    out = {}
    evdir = os.path.join(scratch, "_evidence")
    os.makedirs(evdir, exist_ok=True)
    for chk in checks:
        env = dict(os.environ, VERIF_REPO=scratch, VERIF_EVIDENCE_DIR=evdir, VERIF_REPLAY_DIR=evdir,
                   VERIF_JOBS=str(jobs), VERIF_SEED=seed)
        t0 = time.time()
        res = subprocess.run([str(VERIF / "check"), chk, "--tier", tier], env=env, capture_output=True, text=True)
        viol = [l for l in res.stdout.splitlines() if l.startswith("VIOLATION")]
        out[chk] = {"rc": res.returncode, "violations": len(viol), "first": viol[0][:400] if viol else "",
                    "tail": res.stdout.strip().splitlines()[-2:] if res.returncode not in (0, 1) else [],
                    "wall": round(time.time() - t0, 1)}
    return out


def apply_mutant(scratch: str, m: dict) -> None:
    edits = m.get("edits") or [m]
    for e in edits:
        path = os.path.join(scratch, e["file"])
        src = open(path).read()
        cnt = src.count(e["old"])
        want = e.get("count", 1)
        if cnt != want:
            raise RuntimeError(f"mutant {m['id']}: pattern occurs {cnt}x (want {want}) in {e['file']}")
        open(path, "w").write(src.replace(e["old"], e["new"]))


def one(m: dict, tier: str, jobs: int, keep: bool, seed: str) -> tuple[str, dict]:
    scratch = make_scratch()
    try:
        if "patch" in m:
            res = subprocess.run(["patch", "-p1", "-d", scratch, "-i", m["patch"]], capture_output=True, text=True)
            if res.returncode != 0:
                return m["id"], {"error": res.stdout + res.stderr}
        else:
            apply_mutant(scratch, m)
        checks = m.get("checks") or [m["prop"]]
        return m["id"], run_checks(scratch, checks, tier, jobs, seed)
    except Exception as exc:  # noqa: BLE001
        return m["id"], {"error": repr(exc)}
    finally:
        if not keep:
            shutil.rmtree(scratch, ignore_errors=True)


def main() -> int:
    ap = argparse.ArgumentParser()
    ap.add_argument("ids", nargs="*")
    ap.add_argument("--tier", default="quick")
    ap.add_argument("--keep", action="store_true")
    ap.add_argument("--jobs", type=int, default=8)
    ap.add_argument("--par", type=int, default=2)
    ap.add_argument("--seed", default="0")
    ap.add_argument("--patch")
    ap.add_argument("--checks")
    args = ap.parse_args()
    if args.patch:
        muts = [{"id": os.path.basename(os.path.dirname(os.path.abspath(args.patch))) or "patch",
                 "patch": os.path.abspath(args.patch), "checks": args.checks.split(",")}]
    else:
        from mutants.catalog import MUTANTS
        muts = [m for m in MUTANTS if not args.ids or m["id"] in args.ids or m["prop"] in args.ids]
    missed = 0
    with cf.ThreadPoolExecutor(max_workers=args.par) as pool:
        for mid, res in pool.map(lambda m: one(m, args.tier, args.jobs, args.keep, args.seed), muts):
            if "error" in res:
                print(f"{mid}: ERROR {res['error']}")
                missed += 1
                continue
            caught = any(r["rc"] == 1 and r["violations"] for r in res.values())
            missed += 0 if caught else 1
            print(f"{mid}: {'CAUGHT' if caught else 'MISSED'} " +
                  " ".join(f"{c}:rc={r['rc']},v={r['violations']},{r['wall']}s" for c, r in res.items()))
            for c, r in res.items():
                if r["first"]:
                    print(f"     {c}: {r['first'][:260]}")
                for t in r["tail"]:
                    print(f"     {c}! {t[:300]}")
    return 1 if missed else 0


if __name__ == "__main__":
    sys.exit(main())

#!/venv/bin/python
"""Confirm and file a change written by an independent sub-agent.

usage: tools/seeded.py <PROP> <workdir> [--tests "tests/a tests/b"] [--checks C01,C02]
Steps: (1) demo.py exits 0 on an unchanged scratch worktree of /repo and 1 with patch.diff applied;
(2) optional: the named test directories give the same pass/fail counts with and without the patch;
(3) the property's quick check (tools/mut.py --patch) is run against the patched scratch copy;
(4) the files are stored under /verif/seeded/<PROP>_<name>/ with the confirmation appended to meta.json.
The scratch worktree lives under /tmp and is removed afterwards.
"""
from __future__ import annotations

import argparse
import json
import os
import pathlib
import re
import shutil
import subprocess
import sys
import tempfile

VERIF = pathlib.Path(__file__).resolve().parent.parent


def sh(cmd, cwd=None, env=None, timeout=3600):
    return subprocess.run(cmd, shell=True, cwd=cwd, env=env, capture_output=True, text=True, timeout=timeout)


def main() -> int:
    ap = argparse.ArgumentParser()
    ap.add_argument("prop")
    ap.add_argument("workdir")
    ap.add_argument("--tests", default="")
    ap.add_argument("--checks", default=None)
    ap.add_argument("--jobs", default="8")
    args = ap.parse_args()
    work = pathlib.Path(args.workdir).resolve()
    name = work.name
    if name.startswith(args.prop + "_"):   # already a filed directory (/verif/seeded/<PROP>_<name>)
        name = name[len(args.prop) + 1:]
    patch = work / "patch.diff"
    wt = tempfile.mkdtemp(prefix="vf_seedchk_", dir="/tmp")
    os.rmdir(wt)
    report = {"confirmed_by": "tools/seeded.py"}
    try:
        r = sh(f"git -C /repo worktree add -q --detach {wt} HEAD")
        assert r.returncode == 0, r.stderr
        env = dict(os.environ, PYTHONPATH=wt, PYTHONWARNINGS="ignore", TQDM_DISABLE="1")
        d0 = sh(f"/venv/bin/python {work / 'demo.py'}", cwd=wt, env=env, timeout=900)
        report["demo_unpatched_rc"] = d0.returncode
        if args.tests:
            t0 = sh(f"/venv/bin/python -m pytest -q -p no:cacheprovider {args.tests} 2>&1 | tail -1", cwd=wt, env=env)
            report["tests_unpatched"] = t0.stdout.strip()
        a = sh(f"git -C {wt} apply {patch}")
        assert a.returncode == 0, a.stderr
        d1 = sh(f"/venv/bin/python {work / 'demo.py'}", cwd=wt, env=env, timeout=900)
        report["demo_patched_rc"] = d1.returncode
        report["demo_patched_tail"] = (d1.stdout + d1.stderr).strip()[-300:]
        if args.tests:
            t1 = sh(f"/venv/bin/python -m pytest -q -p no:cacheprovider {args.tests} 2>&1 | tail -1", cwd=wt, env=env)
            report["tests_patched"] = t1.stdout.strip()
            report["tests_cmd"] = f"pytest -q -p no:cacheprovider {args.tests}"
            counts = lambda s: re.findall(r"(\d+) (failed|passed)", s)
            report["tests_same_counts"] = counts(report["tests_unpatched"]) == counts(report["tests_patched"])
    finally:
        sh(f"git -C /repo worktree remove --force {wt}")
        shutil.rmtree(wt, ignore_errors=True)
    checks = args.checks or args.prop
    m = sh(f"{VERIF}/tools/mut.py --patch {patch} --checks {checks} --jobs {args.jobs}", timeout=7200)
    report["check_run"] = m.stdout.strip().splitlines()
    report["caught"] = "CAUGHT" in m.stdout
    dest = VERIF / "seeded" / f"{args.prop}_{name}"
    dest.mkdir(parents=True, exist_ok=True)
    for f in ("patch.diff", "demo.py"):
        if (work / f).resolve() != (dest / f).resolve():
            shutil.copy(work / f, dest / f)
    meta = json.loads((work / "meta.json").read_text())
    if (dest / "meta.json").exists():  # keep the history of earlier confirmations
        prev = json.loads((dest / "meta.json").read_text())
        for k in ("first_run", "widening"):
            if k in prev:
                meta[k] = prev[k]
        if "first_run" not in meta and "confirmation" in prev:
            meta["first_run"] = "CAUGHT" if prev["confirmation"].get("caught") else "MISSED"
    meta.setdefault("first_run", "CAUGHT" if report["caught"] else "MISSED")
    meta["confirmation"] = report
    (dest / "meta.json").write_text(json.dumps(meta, indent=1))
    ok = report.get("demo_unpatched_rc") == 0 and report.get("demo_patched_rc") not in (0, None)
    print(f"{args.prop}_{name}: demo {'OK' if ok else 'NOT CONFIRMED'} "
          f"(unpatched rc={report.get('demo_unpatched_rc')}, patched rc={report.get('demo_patched_rc')}) "
          f"tests_same={report.get('tests_same_counts')} check={'CAUGHT' if report['caught'] else 'MISSED'}")
    for l in report["check_run"][:3]:
        print("   ", l[:300])
    return 0


if __name__ == "__main__":
    sys.exit(main())

#!/bin/sh
# tools/sweep.sh <tier> <seeds...> : run every registered check for each seed, print one line per run.
# Evidence/replays of these validation runs go to a scratch directory, not to /verif/evidence.
cd "$(dirname "$0")/.." || exit 2
tier=${1:-quick}; shift
seeds=${*:-0}
out=$(mktemp -d /tmp/vf_sweep_XXXX)
fail=0
for s in $seeds; do
  for c in $(cat tools/registered.txt); do
    t0=$(date +%s)
    VERIF_SEED=$s VERIF_EVIDENCE_DIR=$out VERIF_REPLAY_DIR=$out ./check "$c" --tier "$tier" > "$out/$c.$s.log" 2>&1
    rc=$?
    t1=$(date +%s)
    known=$(grep -c '^KNOWN-FINDING' "$out/$c.$s.log")
    echo "$c seed=$s tier=$tier rc=$rc known=$known wall=$((t1 - t0))s $(grep -m1 -E '^(VIOLATION|INCONCLUSIVE)' "$out/$c.$s.log" | cut -c1-200)"
    [ $rc -ne 0 ] && fail=1
  done
done
echo "logs in $out"
exit $fail

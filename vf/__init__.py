"""Runtime-monitoring framework for the esa-pyxel properties (see /verif/DESIGN.md)."""

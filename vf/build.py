"""Builders for real pyxel objects from plain JSON-able specifications."""
from __future__ import annotations

import copy

GROUPS = (  # canonical order, hard-coded from the statement of C01 (NOT read from pyxel)
    "scene_generation", "photon_collection", "phasing", "charge_generation",
    "charge_collection", "charge_transfer", "charge_measurement", "signal_transfer",
    "readout_electronics", "data_processing",
)

DETECTOR_KEYS = {"ccd": "ccd_detector", "cmos": "cmos_detector", "mkid": "mkid_detector",
                 "apd": "apd_detector"}


def default_detector_spec(kind: str = "ccd", rows: int = 3, cols: int = 4) -> dict:
    spec = {
        "kind": kind,
        "geometry": {"row": rows, "col": cols, "total_thickness": 40.0,
                     "pixel_vert_size": 10.0, "pixel_horz_size": 10.0},
        "environment": {"temperature": 300.0},
        "characteristics": {"quantum_efficiency": 0.9, "full_well_capacity": 100000.0,
                            "adc_bit_resolution": 16, "adc_voltage_range": [0.0, 10.0]},
    }
    if kind == "apd":
        spec["characteristics"].update({"roic_gain": 0.8, "avalanche_gain": 2.0,
                                        "pixel_reset_voltage": 5.0})
    else:
        spec["characteristics"].update({"charge_to_volt_conversion": 1.0e-6,
                                        "pre_amplification": 10.0})
    return spec


def make_detector(spec: dict):
    from pyxel.detectors import (APD, CCD, CMOS, MKID, APDCharacteristics, APDGeometry,
                                 CCDGeometry, Characteristics, CMOSGeometry, Environment,
                                 MKIDGeometry)
    kind = spec["kind"]
    geo_cls = {"ccd": CCDGeometry, "cmos": CMOSGeometry, "mkid": MKIDGeometry, "apd": APDGeometry}[kind]
    det_cls = {"ccd": CCD, "cmos": CMOS, "mkid": MKID, "apd": APD}[kind]
    ch = dict(spec["characteristics"])
    if "adc_voltage_range" in ch and ch["adc_voltage_range"] is not None:
        ch["adc_voltage_range"] = tuple(ch["adc_voltage_range"])
    char = APDCharacteristics(**ch) if kind == "apd" else Characteristics(**ch)
    return det_cls(geometry=geo_cls(**spec["geometry"]),
                   environment=Environment(**spec["environment"]),
                   characteristics=char)


def make_pipeline(pspec: dict):
    """pspec: {group: [{'name','func','arguments','enabled'}, ...]}"""
    from pyxel.pipelines import DetectionPipeline, ModelFunction
    kwargs = {}
    for group, models in pspec.items():
        kwargs[group] = [
            ModelFunction(func=m["func"], name=m["name"],
                          arguments=copy.deepcopy(m.get("arguments") or {}),
                          enabled=m.get("enabled", True))
            for m in models
        ]
    return DetectionPipeline(**kwargs)


def pipeline_yaml_dict(pspec: dict, order=None) -> dict:
    out = {}
    for group in (order or list(pspec)):
        out[group] = [
            {"name": m["name"], "func": m["func"], "enabled": m.get("enabled", True),
             **({"arguments": copy.deepcopy(m["arguments"])} if m.get("arguments") else {})}
            for m in pspec[group]
        ]
    return out


def detector_yaml_dict(spec: dict) -> dict:
    return {DETECTOR_KEYS[spec["kind"]]: {
        "geometry": copy.deepcopy(spec["geometry"]),
        "environment": copy.deepcopy(spec["environment"]),
        "characteristics": copy.deepcopy(spec["characteristics"]),
    }}


def make_readout(rspec: dict):
    from pyxel.exposure import Readout
    return Readout(**rspec)


def dump_yaml(doc: dict) -> str:
    import yaml
    return yaml.safe_dump(doc, sort_keys=False, default_flow_style=False)


def expected_calls(pspec: dict, n_steps: int) -> list[tuple]:
    """Reference model of C01: (step, group, name, arguments) in canonical order."""
    out = []
    for step in range(n_steps):
        for group in GROUPS:
            for m in pspec.get(group, []):
                if m.get("enabled", True):
                    out.append((step, group, m["name"], m.get("arguments") or {}))
    return out

"""C01 -- enabled models run once per readout, in the fixed physical group order.

Monitor: probe models (M1) referenced by generated pipelines record every call; a
sys.monitoring call monitor (M2) on ModelFunction.__call__ is the independent second
witness.  Oracle: vf.build.expected_calls (canonical order hard-coded from the statement).
"""
from __future__ import annotations

import copy
import itertools

from vf import build, probes
from vf.mon_calls import CallMonitor

ID = "C01"
LEVEL = "exploration"
TECHNIQUE = "runtime monitoring: probe-model call trace + sys.monitoring call monitor vs. reference order model"
RULE = ("random pipelines (subset of the 10 groups, 1-3 models per group, random enabled flags and "
        "argument dictionaries, 1-4 readouts) built from Python objects and from YAML with shuffled "
        "group keys, run in exposure (debug on/off, flat/hierarchical), sequential and dask "
        "observation and calibration; a case is non-trivial when >=2 groups hold enabled models or a "
        "model is disabled; distinct = distinct (pipeline spec, steps, mode) signatures")
ASSUMPTIONS = ["probe models stand for arbitrary models: ordering does not depend on what a model does",
               "deprecated entry points (exposure_mode etc.) are not driven"]
REQUIRED_COUNTERS = ["probe_events", "m2_model_calls", "runs_exposure", "runs_observation",
                     "runs_observation_dask", "runs_calibration", "runs_history", "runs_exposure_after_observation", "calibration_evaluations_checked", "yaml_loaded",
                     "debug_nodes_checked", "runs_with_override_dct", "falsy_overrides",
                     "swept_model_has_namesake_in_earlier_group", "runs_without_enabled_model"]
TIMEOUT = {"quick": 600, "thorough": 3000}

MODES = ["exp_py", "exp_py_debug", "exp_py_hier", "exp_yaml", "exp_yaml_debug_hier",
         "obs_seq", "obs_dask", "obs_yaml"]


def plan(tier, seed):
    shards = 16
    n = 40 if tier == "quick" else 260
    specs = [{"shard": s, "seed": seed, "kind": "random", "n": n} for s in range(shards)]
    if tier == "thorough":
        specs.append({"shard": 100, "seed": seed, "kind": "pairs", "n": 45})
        specs.append({"shard": 101, "seed": seed, "kind": "allten", "n": 56})
    else:
        specs.append({"shard": 100, "seed": seed, "kind": "pairs", "n": 45, "stride": 5})
    return specs


# ------------------------------------------------------------------ generators
def rand_value(rng, depth=0):
    kind = rng.choice(["int", "float", "str", "bool", "none", "list", "nested"] if depth < 2
                      else ["int", "float", "str", "bool"])
    if kind == "int":
        return rng.randint(-1000, 1000)
    if kind == "float":
        return rng.choice([0.5, 1.25, -3.75, 1e-3, 2.5e6]) * rng.randint(1, 9)
    if kind == "str":
        return rng.choice(["alpha", "beta", "x y", "file.fits", "true-ish", "0x10", "a.b.c"])
    if kind == "bool":
        return rng.random() < 0.5
    if kind == "none":
        return None
    if kind == "list":
        return [rand_value(rng, depth + 1) for _ in range(rng.randint(0, 3))]
    return {"k" + str(i): rand_value(rng, depth + 1) for i in range(rng.randint(1, 2))}


def rand_pipeline(rng, groups=None, force_image=False):
    if groups is None:
        k = rng.randint(1, 10)
        groups = rng.sample(build.GROUPS, k)  # listing order is deliberately NOT canonical
    pspec = {}
    # model names are unique inside a group only: a third of the pipelines reuse the same names in every group
    # (as pyxel's own 'simple_collection' exists in two groups)
    shared_names = rng.random() < 0.33
    for group in groups:
        models = []
        for j in range(rng.randint(1, 3)):
            args = {"a" + str(i): rand_value(rng) for i in range(rng.randint(0, 3))}
            args["n"] = rng.randint(0, 5)
            models.append({"name": f"m{j}" if shared_names else f"{group}_m{j}", "func": "vf.probes.trace",
                           "arguments": args, "enabled": rng.random() < 0.7})
        pspec[group] = models
    if force_image:
        group = rng.choice(list(pspec))
        pos = rng.randint(0, len(pspec[group]))
        pspec[group].insert(pos, {"name": f"{group}_imgw", "func": "vf.probes.writer",
                                  "arguments": {"plan": {"*": ["image"]}, "seed": rng.randint(0, 99)},
                                  "enabled": True})
    return pspec


TRUE_SPELLINGS = ["true", "True", "TRUE", "yes", "Yes", "YES", "on", "On", "ON"]
FALSE_SPELLINGS = ["false", "False", "FALSE", "no", "No", "NO", "off", "Off", "OFF"]


def yaml_text(rng, doc):
    """YAML text of a document; the `enabled` flags use any of the YAML 1.1 boolean spellings."""
    import re
    text = build.dump_yaml(doc)
    text = re.sub(r"enabled: true\b", lambda _m: "enabled: " + rng.choice(TRUE_SPELLINGS), text)
    return re.sub(r"enabled: false\b", lambda _m: "enabled: " + rng.choice(FALSE_SPELLINGS), text)


def pick_enabled(pspec, rng):
    """Any enabled probe model (not the first one: a namesake in an earlier group must not be hit instead)."""
    cands = [(group, m) for group in build.GROUPS for m in pspec.get(group, [])
             if m.get("enabled", True) and m["func"] == "vf.probes.trace"]
    return rng.choice(cands) if cands else None


def namesake_before(pspec, group, model):
    """True when a model with the same name sits in a group that runs earlier."""
    return any(m["name"] == model["name"] for g in build.GROUPS[:build.GROUPS.index(group)] for m in pspec.get(g, []))


def gen_overrides(pspec, rng):
    """override_dct for run_mode: enabled flags toggled both ways and arguments set to falsy and truthy values.
    Returns (overrides, effective pipeline spec)."""
    eff = copy.deepcopy(pspec)
    cands = [(g, m) for g, ms in eff.items() for m in ms if m["func"] == "vf.probes.trace"]
    rng.shuffle(cands)
    out = {}
    for g, m in cands[:rng.randint(1, 3)]:
        if rng.random() < 0.5:
            m["enabled"] = not m.get("enabled", True)
            out[f"pipeline.{g}.{m['name']}.enabled"] = m["enabled"]
        else:
            v = rng.choice([0, 0, 0.0, 7, 2.5, False])
            m["arguments"]["n"] = v
            out[f"pipeline.{g}.{m['name']}.arguments.n"] = v
    return out, eff


# ------------------------------------------------------------------ execution + oracle
class Ctx:
    def __init__(self):
        import pyxel.pipelines.model_function as mf
        self.mon = CallMonitor()
        self.mon.watch("ModelFunction.__call__", mf.ModelFunction.__call__,
                       extract=lambda loc: (loc["self"].name, id(loc["detector"])))
        self.mon.start()


def norm_events(evs):
    return [(e["det"], e["step"], e["model"], e["kwargs"]) for e in evs]


def compare(rec, events, m2calls, expected_runs, allow_extra_first, mech, case, index):
    """events grouped per detector object must match the expected per-run sequences."""
    groups: dict[int, list] = {}
    order = []
    for det, step, model, kwargs in norm_events(events):
        if det not in groups:
            groups[det] = []
            order.append(det)
        groups[det].append((step, model, kwargs))
    # second witness: the M2 monitor must have seen the very same (model, detector) call list
    m2 = [(info[0], info[1]) for label, info, _tid in m2calls if label == "ModelFunction.__call__"]
    m1 = [(e["model"], e["det"]) for e in events]
    rec.count("m2_model_calls", len(m2))
    if sorted(m2) != sorted(m1):
        rec.violation(f"{mech}:monitor-disagreement",
                      f"sys.monitoring saw {len(m2)} model calls, probes saw {len(m1)}: "
                      f"only-M2={sorted(set(m2) - set(m1))[:5]} only-probe={sorted(set(m1) - set(m2))[:5]}",
                      case, index)
        return False
    remaining = [[(s, g_n, a) for (s, _g, g_n, a) in run] for run in expected_runs]
    used = [0] * len(remaining)
    ok = True
    for det in order:
        seq = groups[det]
        matches = [i for i, exp in enumerate(remaining) if exp == seq]
        pick = next((i for i in matches if used[i] == 0), None)
        if pick is None and allow_extra_first and matches:
            # dask: the graph is lazy; the metadata run and every .load() of a node re-execute
            # tasks.  C01 is about what happens *inside* a run, so repeats of a correct run are
            # legitimate here (run multiplicity is C05's business).
            used[matches[0]] += 1
            rec.count("dask_repeated_runs_seen")
            continue
        if pick is None:
            exp = remaining[0] if remaining else []
            diff = first_diff(seq, exp)
            rec.violation(f"{mech}:sequence-mismatch",
                          f"observed run (det {det}) matches no expected run; vs first expected: {diff}; "
                          f"observed={[(s, m) for s, m, _ in seq][:40]} expected={[(s, m) for s, m, _ in exp][:40]}",
                          case, index)
            ok = False
            continue
        used[pick] += 1
    for i, u in enumerate(used):
        if u == 0 and remaining[i]:
            rec.violation(f"{mech}:run-missing", f"expected run #{i} never observed", case, index)
            ok = False
    if not expected_runs or all(not r for r in remaining):
        if events:
            rec.violation(f"{mech}:unexpected-calls", f"{len(events)} calls but none expected", case, index)
            ok = False
    return ok


def first_diff(seq, exp):
    for i, (a, b) in enumerate(itertools.zip_longest(seq, exp)):
        if a != b:
            return f"position {i}: observed {a} expected {b}"
    return "none"


def check_debug_tree(rec, tree, pspec, n_steps, case, index):
    """/intermediate/time_idx_i/<group>/<model> must list exactly the executed models, in order."""
    exp = build.expected_calls(pspec, n_steps)
    for step in range(n_steps):
        want = [(g, n) for (s, g, n, _a) in exp if s == step]
        key = f"/intermediate/time_idx_{step}"
        got = []
        if want or key in tree.groups:
            try:
                node = tree[key]
            except KeyError:
                rec.violation("C01:debug-node-missing", f"{key} missing", case, index)
                return
            for gname, gnode in node.children.items():
                for mname in gnode.children:
                    got.append((gname, mname))
        rec.count("debug_nodes_checked", len(got))
        if got != want:
            rec.violation("C01:debug-nodes-differ",
                          f"step {step}: debug nodes {got} but executed models {want}", case, index)
            return


def run_case(rec, ctx, index, pspec, n_steps, mode, rng, label):
    import numpy as np  # noqa: F401
    import pyxel
    from pyxel.exposure import Exposure, Readout
    from pyxel.observation import Observation, ParameterValues

    dspec = build.default_detector_spec(rng.choice(["ccd", "cmos", "mkid", "apd"]), rng.randint(1, 4), rng.randint(1, 4))
    times = sorted(rng.sample(range(1, 40), n_steps))
    rspec = {"times": [float(t) for t in times], "non_destructive": rng.random() < 0.5}
    case = {"label": label, "mode": mode, "pipeline": pspec, "readout": rspec, "detector": dspec["kind"]}
    sig = (label, mode, n_steps, [(g, [(m["name"], m["enabled"], m["func"]) for m in ms]) for g, ms in pspec.items()])
    enabled_groups = [g for g, ms in pspec.items() if any(m["enabled"] for m in ms)]
    nontrivial = len(enabled_groups) >= 2 or any(not m["enabled"] for ms in pspec.values() for m in ms)

    probes.reset()
    ctx.mon.reset()
    expected_runs = None
    allow_extra = False
    mech = f"C01:{mode.split('_')[0]}"
    try:
        if mode.startswith("exp"):
            debug = "debug" in mode
            hier = "hier" in mode
            if "yaml" in mode:
                order = list(pspec)
                rng.shuffle(order)
                doc = {}
                parts = [("exposure", {"readout": dict(rspec)}),
                         (build.DETECTOR_KEYS[dspec["kind"]], build.detector_yaml_dict(dspec)[build.DETECTOR_KEYS[dspec["kind"]]]),
                         ("pipeline", build.pipeline_yaml_dict(pspec, order))]
                rng.shuffle(parts)
                for k, v in parts:
                    doc[k] = v
                cfg = pyxel.loads(yaml_text(rng, doc))
                rec.count("yaml_loaded")
                detector = getattr(cfg, build.DETECTOR_KEYS[dspec["kind"]])
                tree = pyxel.run_mode(mode=cfg.exposure, detector=detector, pipeline=cfg.pipeline,
                                      debug=debug, with_inherited_coords=hier)
            else:
                detector = build.make_detector(dspec)
                eff = pspec
                kwargs = {}
                if label == "random" and rng.random() < 0.4 and any(m["func"] == "vf.probes.trace" for ms in pspec.values() for m in ms):
                    overrides, eff = gen_overrides(pspec, rng)
                    kwargs["override_dct"] = overrides
                    case["override_dct"] = overrides
                    rec.count("runs_with_override_dct")
                    rec.count("falsy_overrides", sum(1 for v in overrides.values() if not v))
                tree = pyxel.run_mode(mode=Exposure(readout=Readout(**rspec)), detector=detector,
                                      pipeline=build.make_pipeline(pspec), debug=debug,
                                      with_inherited_coords=hier, **kwargs)
                pspec = eff
            rec.count("runs_exposure")
            expected_runs = [build.expected_calls(pspec, n_steps)]
            evs = probes.events()
            if evs and any(e["det"] != id(detector) for e in evs):
                rec.violation("C01:exp:foreign-detector", "a model received a detector that is not the caller's", case, index)
            if debug:
                check_debug_tree(rec, tree, pspec, n_steps, case, index)
        else:
            target = pick_enabled(pspec, rng)
            if target is None:
                rec.count("skipped_obs_no_enabled_probe")
                return
            group, model = target
            rec.count("swept_model_has_namesake_in_earlier_group", int(namesake_before(pspec, group, model)))
            values = rng.sample(range(10, 99), rng.randint(2, 3))
            # the swept setting is the argument `n` or an entry of a dictionary-valued argument
            model["arguments"]["cfg"] = {"k0": 1, "k1": [0.5, {"deep": 2}]}
            entry = rng.random() < 0.5
            key = f"pipeline.{group}.{model['name']}.arguments." + ("cfg.k0" if entry else "n")
            dask = mode == "obs_dask"
            if mode == "obs_yaml":
                order = list(pspec)
                rng.shuffle(order)
                doc = {"pipeline": build.pipeline_yaml_dict(pspec, order),
                       "observation": {"readout": dict(rspec), "parameters": [{"key": key, "values": values}]}}
                doc.update(build.detector_yaml_dict(dspec))
                cfg = pyxel.loads(yaml_text(rng, doc))
                rec.count("yaml_loaded")
                detector = getattr(cfg, build.DETECTOR_KEYS[dspec["kind"]])
                obs, pipe = cfg.observation, cfg.pipeline
            else:
                detector = build.make_detector(dspec)
                pipe = build.make_pipeline(pspec)
                obs = Observation(parameters=[ParameterValues(key=key, values=values)],
                                  readout=Readout(**rspec), with_dask=dask)
            tree = pyxel.run_mode(mode=obs, detector=detector, pipeline=pipe, with_inherited_coords=True)
            if dask:
                tree.load()
                rec.count("runs_observation_dask")
                allow_extra = True
            else:
                rec.count("runs_observation")
            expected_runs = []
            for v in values:
                ps = copy.deepcopy(pspec)
                for m in ps[group]:
                    if m["name"] == model["name"]:
                        if entry:
                            m["arguments"]["cfg"]["k0"] = v
                        else:
                            m["arguments"]["n"] = v
                expected_runs.append(build.expected_calls(ps, n_steps))
            followup = (pipe, detector, rspec) if mode != "obs_yaml" or True else None
            evs = probes.events()
            if any(e["det"] == id(detector) for e in evs):
                rec.violation("C01:obs:callers-detector-used", "an observation run executed on the caller's detector object", case, index)
    except Exception as exc:  # noqa: BLE001
        import traceback
        rec.violation(f"{mech}:unexpected-exception", f"{type(exc).__name__}: {exc} :: {traceback.format_exc()[-800:]}", case, index)
        rec.case(sig, nontrivial)
        return
    evs = probes.events()
    rec.count("probe_events", len(evs))
    compare(rec, evs, list(ctx.mon.calls), expected_runs, allow_extra, mech, case, index)
    if not mode.startswith("exp"):
        # history: the caller's pipeline, run as a plain exposure afterwards, still gets the configured arguments
        probes.reset()
        ctx.mon.reset()
        try:
            pyxel.run_mode(mode=Exposure(readout=Readout(**rspec)), detector=detector, pipeline=pipe, with_inherited_coords=True)
            rec.count("runs_exposure_after_observation")
            compare(rec, probes.events(), list(ctx.mon.calls), [build.expected_calls(pspec, n_steps)], False,
                    "C01:exposure-after-observation", case, index)
        except Exception as exc:  # noqa: BLE001
            rec.violation("C01:exposure-after-observation:unexpected-exception", f"{type(exc).__name__}: {exc}", case, index)
    rec.observe("modes", mode)
    rec.observe("n_groups", len(pspec))
    rec.case(sig, nontrivial, sample=case)


def run_calibration_case(rec, ctx, index, rng):
    """A 1-island toy calibration: every candidate evaluation is one pipeline run."""
    import os

    import numpy as np
    import pyxel
    from pyxel.calibration import Algorithm, Calibration
    from pyxel.observation import ParameterValues
    from pyxel.pipelines import FitnessFunction

    pspec = rand_pipeline(rng)
    target = pick_enabled(pspec, rng)
    if target is None:
        rec.count("skipped_calib_no_enabled_probe")
        return
    group, model = target
    model["arguments"]["n"] = 1.0
    wg = rng.choice(list(pspec))
    pspec[wg].insert(rng.randint(0, len(pspec[wg])), {"name": f"{wg}_pixw", "func": "vf.probes.writer2",
                     "arguments": {"plan": {"*": ["pixel+"]}, "seed": rng.randint(0, 99)}, "enabled": True})
    rows, cols = 2, 3
    path = os.path.join(rec.tmp, f"target_{index}.npy")
    np.save(path, np.random.default_rng(index).random((rows, cols)) * 100)
    key = f"pipeline.{group}.{model['name']}.arguments.n"
    cal = Calibration(target_data_path=[path],
                      fitness_function=FitnessFunction(func="pyxel.calibration.fitness.sum_of_abs_residuals"),
                      algorithm=Algorithm(type="sade", generations=1, population_size=7),
                      parameters=[ParameterValues(key=key, values="_", boundaries=(0.0, 5.0))],
                      result_type="pixel", result_fit_range=(0, rows, 0, cols), target_fit_range=(0, rows, 0, cols),
                      pygmo_seed=rng.randint(1, 9999), num_islands=1, num_evolutions=1)
    case = {"label": "calibration", "mode": "calib", "pipeline": pspec, "key": key}
    probes.reset()
    ctx.mon.reset()
    try:
        detector = build.make_detector(build.default_detector_spec("ccd", rows, cols))
        pyxel.run_mode(mode=cal, detector=detector, pipeline=build.make_pipeline(pspec), with_inherited_coords=True)
    except Exception as exc:  # noqa: BLE001
        import traceback
        rec.violation("C01:calib:unexpected-exception", f"{type(exc).__name__}: {exc} :: {traceback.format_exc()[-600:]}", case, index)
        return
    rec.count("runs_calibration")
    evs = probes.events()
    rec.count("probe_events", len(evs))
    groups: dict = {}
    for e in evs:
        groups.setdefault(e["det"], []).append(e)
    exp = build.expected_calls(pspec, 1)
    for det, seq in groups.items():
        got = [(e["step"], e["model"], {k: v for k, v in e["kwargs"].items() if not (e["model"] == model["name"] and k == "n")}) for e in seq]
        want = [(s, n, {k: v for k, v in a.items() if not (n == model["name"] and k == "n")}) for (s, _g, n, a) in exp]
        rec.count("calibration_evaluations_checked")
        if got != want:
            rec.violation("C01:calib:sequence-mismatch", f"candidate evaluation differs: {first_diff(got, want)}", case, index)
            break
    m2 = [info for label, info, _t in ctx.mon.calls if label == "ModelFunction.__call__"]
    rec.count("m2_model_calls", len(m2))
    if len(m2) != len(evs):
        rec.violation("C01:calib:monitor-disagreement", f"sys.monitoring saw {len(m2)} model calls, probes saw {len(evs)}", case, index)
    sig = ("calib", [(g, [(m["name"], m["enabled"]) for m in ms]) for g, ms in pspec.items()])
    rec.observe("modes", "calib")
    rec.case(sig, True, sample=case)


def run_history_case(rec, ctx, index, rng):
    """One pipeline OBJECT run several times; enabled flags and arguments are changed between the
    runs (attribute, Processor.set) and the object is iterated / printed in between."""
    import pyxel
    from pyxel.exposure import Exposure, Readout
    from pyxel.pipelines import Processor

    n_steps = rng.randint(1, 2)
    pspec = rand_pipeline(rng, force_image=n_steps > 1)
    pipe = build.make_pipeline(pspec)
    detector = build.make_detector(build.default_detector_spec("ccd", 2, 3))
    times = [float(t) for t in range(1, n_steps + 1)]
    case = {"label": "history", "mode": "exp_history", "pipeline": copy.deepcopy(pspec), "edits": []}
    for run_no in range(rng.randint(2, 4)):
        if run_no:
            # mutate the live objects and the specification alike
            for group, models in pspec.items():
                for m in models:
                    if m["func"] != "vf.probes.trace" or rng.random() > 0.4:
                        continue
                    live = getattr(getattr(pipe, group), m["name"])
                    how = rng.choice(["attr", "set", "arg"])
                    if how == "attr":
                        m["enabled"] = not m["enabled"]
                        live.enabled = m["enabled"]
                    elif how == "set":
                        m["enabled"] = not m["enabled"]
                        Processor(detector=detector, pipeline=pipe).set(f"pipeline.{group}.{m['name']}.enabled", m["enabled"])
                    else:
                        m["arguments"]["n"] = rng.randint(100, 999)
                        live.arguments["n"] = m["arguments"]["n"]
                    case["edits"].append((run_no, group, m["name"], how))
            if rng.random() < 0.5:
                repr(pipe), list(pipe), [repr(getattr(pipe, g)) for g in pspec]
        probes.reset()
        ctx.mon.reset()
        try:
            pyxel.run_mode(mode=Exposure(readout=Readout(times=times)), detector=detector, pipeline=pipe,
                           debug=rng.random() < 0.3, with_inherited_coords=True)
        except Exception as exc:  # noqa: BLE001
            import traceback
            rec.violation("C01:history:unexpected-exception", f"{type(exc).__name__}: {exc} :: {traceback.format_exc()[-500:]}", case, index)
            return
        rec.count("runs_history")
        evs = probes.events()
        rec.count("probe_events", len(evs))
        compare(rec, evs, list(ctx.mon.calls), [build.expected_calls(pspec, n_steps)], False, "C01:history", case, index)
    rec.observe("modes", "exp_history")
    rec.case(("history", case["edits"], [(g, [(m["name"], m["enabled"]) for m in ms]) for g, ms in pspec.items()]), True, sample=case)


def run_shard(spec, rec):
    ctx = Ctx()
    kind = spec["kind"]
    if kind == "random":
        for j in range(spec["n"] // 4):
            idx = 20_000 + j
            if rec.wanted(idx):
                run_history_case(rec, ctx, idx, rec.rng(idx))
        for j in range(1 if spec["n"] < 100 else 6):
            idx = 10_000 + j
            if rec.wanted(idx):
                run_calibration_case(rec, ctx, idx, rec.rng(idx))
        # pipelines in which NO model is enabled, with debug capture (nothing may run, nothing may fail)
        for j, mode in enumerate(("exp_py_debug", "exp_yaml_debug_hier", "exp_py")):
            idx = 30_000 + j
            if rec.wanted(idx):
                rng = rec.rng(idx)
                pspec = rand_pipeline(rng)
                for ms in pspec.values():
                    for m in ms:
                        m["enabled"] = False
                rec.count("runs_without_enabled_model")
                run_case(rec, ctx, idx, pspec, 1, mode, rng, "none-enabled")
        for i in range(spec["n"]):
            if not rec.wanted(i):
                continue
            rng = rec.rng(i)
            mode = MODES[(i + spec["shard"]) % len(MODES)]
            n_steps = rng.randint(1, 4)
            pspec = rand_pipeline(rng, force_image=n_steps > 1)
            run_case(rec, ctx, i, pspec, n_steps, mode, rng, "random")
    elif kind == "pairs":
        pairs = list(itertools.combinations(build.GROUPS, 2))
        stride = spec.get("stride", 1)
        for i, (g1, g2) in enumerate(pairs):
            if not rec.wanted(i) or (i + spec["seed"]) % stride:
                continue
            rng = rec.rng(i)
            # listed in the *reverse* of the canonical order, both YAML and Python routes
            pspec = rand_pipeline(rng, groups=[g2, g1])
            for ms in pspec.values():
                ms[0]["enabled"] = True
            for mode in ("exp_py", "exp_yaml"):
                run_case(rec, ctx, i, pspec, 1, mode, rng, "pair")
            rec.observe("pairs_covered", f"{g1}<{g2}")
    elif kind == "allten":
        names = list(build.GROUPS)
        patterns = [()] + [(a,) for a in range(10)] + list(itertools.combinations(range(10), 2))
        for i, pat in enumerate(patterns):
            if not rec.wanted(i):
                continue
            rng = rec.rng(i)
            order = names[:]
            rng.shuffle(order)
            pspec = {g: [{"name": f"{g}_only", "func": "vf.probes.trace", "arguments": {"n": 1},
                          "enabled": names.index(g) not in pat}] for g in order}
            run_case(rec, ctx, i, pspec, 1, "exp_yaml" if i % 2 else "exp_py_debug", rng, "allten")
    ctx.mon.stop()


def finalize(counters, sets, tier):
    out = []
    if tier == "thorough" and len(sets.get("pairs_covered", [])) < 45:
        out.append(f"only {len(sets.get('pairs_covered', []))}/45 group pairs were covered")
    return out


def coverage_extra(counters, sets, tier):
    return {"pairs_covered": len(sets.get("pairs_covered", [])),
            "exhaustive": False}

REGISTER = True
LEVEL_TEXT = ("Exploration by runtime monitoring: hundreds (quick) to thousands (thorough) of generated pipelines are "
              "executed by the real run_mode in exposure/observation(/dask) modes, built from Python and from YAML; "
              "the recorded call trace of every run is compared with a reference order model, and a sys.monitoring "
              "monitor on ModelFunction.__call__ must agree with the probe trace. Thorough enumerates all 45 group "
              "pairs and all <=2-disabled patterns of the ten-group pipeline. Held = on the executions observed.")
LEVEL_NOTE = ("Trusted: CPython sys.monitoring, the 10-entry canonical order copied from the property statement, "
              "the probe models (they never touch the detector except the image writer needed by multi-readout runs).")

"""C02 -- readout clock and per-step bucket lifecycle (destructive / non-destructive).

Monitor: a probe placed first and one placed last in every step record the clock properties
and a snapshot of all buckets (through the public API); a writer probe in between fills the
buckets a generated *write plan* names.  Oracle: readout clock arithmetic done by the harness.
"""
from __future__ import annotations

import math
import os

import numpy as np

from vf import build, probes

ID = "C02"
LEVEL = "exploration"
REGISTER = True
TECHNIQUE = "runtime monitoring: first/last-in-step probe snapshots vs. readout-clock reference model; invalid-schedule fault classes vs. empty probe trace"
RULE = ("random valid schedules (1-8 strictly increasing times, start below the first, given as list / scalar / "
        "numpy expression / file / YAML) x destructive|non-destructive x per-step write plans x prior detector "
        "contents; invalid schedules from unambiguous classes through constructor, setters, replace, YAML and "
        "set_readout; non-trivial = >=2 steps or prior contents or an invalid schedule; distinct = distinct "
        "(schedule, form, mode, plan, prior) signatures")
ASSUMPTIONS = ["a zero inside a schedule that starts negative is not generated (statement and documented rule disagree)",
               "multi-readout runs whose plan does not write the image every step are refused by pyxel and counted as refused",
               "sweeping observation.readout.times is not driven (no listed property covers it; the sequential path ignores it)"]
REQUIRED_COUNTERS = ["valid_runs", "steps_checked", "clock_fields_checked", "lifecycle_checks",
                     "invalid_cases", "invalid_rejected", "prior_contents_runs", "nondestructive_carry_checks",
                     "concurrent_runs", "concurrent_cases_interleaved", "prior_same_schedule_other_mode",
                     "runs_with_first_time_below_1e-8", "steps_ending_with_sources_in_scene"]
TIMEOUT = {"quick": 600, "thorough": 3000}
LEVEL_TEXT = ("Exploration by runtime monitoring: generated valid schedules in every accepted form are executed by the "
              "real exposure loop with probes first and last in each step; every observed clock field and bucket "
              "snapshot is compared with the harness's own clock arithmetic and lifecycle rule; invalid schedules of "
              "each unambiguous class are pushed through every construction route and must raise with an empty probe trace.")
LEVEL_NOTE = "Trusted: numpy for evaluating expression strings, the probe snapshots (public API reads only)."

BUCKETS = ["photon", "charge", "signal", "image"]


def plan(tier, seed):
    n = 80 if tier == "quick" else 1200
    specs = [{"shard": s, "seed": seed, "kind": "valid", "n": n} for s in range(13)]
    specs += [{"shard": 13 + s, "seed": seed, "kind": "invalid", "n": 110 if tier == "quick" else 1100} for s in range(3)]
    return specs


# ------------------------------------------------------------------ generators
def gen_times(rng):
    n = rng.choice([1, 1, 2, 3, 4, 5, 6, 8])
    style = rng.choice(["int", "float", "close", "large", "negative_start", "tiny"])
    if style == "int":
        ts = sorted(rng.sample(range(1, 60), n))
        start = rng.choice([0.0, 0.0, 0.5, -3.0])
        if start >= ts[0]:
            start = ts[0] - 1.0
    elif style == "float":
        ts = sorted({round(rng.uniform(0.01, 50.0), 3) for _ in range(n)})
        start = rng.choice([0.0, ts[0] / 2, -1.25])
    elif style == "close":
        base = rng.uniform(1.0, 5.0)
        ts = [base + i * 1e-9 * rng.randint(1, 5) * (i + 1) for i in range(n)]
        ts = sorted(set(ts))
        start = 0.0
    elif style == "tiny":
        # nanosecond sampling: a first readout time far below any absolute tolerance, but not zero
        unit = rng.choice([1e-9, 1e-10, 1e-12, 1e-15])
        ts = sorted({unit * k for k in rng.sample(range(1, 500), n)})
        if rng.random() < 0.4 and n > 1:
            ts = [ts[0]] + sorted({float(k) for k in rng.sample(range(1, 40), n - 1)})
        start = rng.choice([0.0, 0.0, -1.0, -ts[0]])
    elif style == "large":
        ts = sorted({float(rng.randint(1, 10**9)) for _ in range(n)})
        start = 0.0
    else:
        start = -rng.uniform(5.0, 50.0)
        ts = sorted({round(start + rng.uniform(0.5, 100.0), 2) for _ in range(n)})
        ts = [t for t in ts if t != 0.0] or [start + 1.0]
        # keep zero out of the schedule (see ASSUMPTIONS)
        if any(a < 0 < b for a, b in zip(ts, ts[1:])) and 0.0 in ts:
            ts = [t for t in ts if t != 0.0]
    ts = [float(t) for t in ts]
    return ts, float(start)


def gen_form(rng, ts, start, tmp, idx):
    """Return (readout kwargs, oracle times, form name)."""
    form = rng.choice(["list", "list", "scalar", "expr", "npy", "txt", "intlist"])
    if form == "scalar":
        return {"times": ts[0], "start_time": start}, [ts[0]], form
    if form == "intlist" and all(float(t).is_integer() for t in ts):
        return {"times": [int(t) for t in ts], "start_time": start}, ts, form
    if form == "expr":
        kind = rng.choice(["linspace", "arange", "logspace", "array"])
        if kind == "linspace":
            a, b, n = rng.randint(1, 5), rng.randint(6, 40), rng.randint(2, 6)
            expr = f"numpy.linspace({a}, {b}, {n})"
        elif kind == "arange":
            a, b, s = rng.randint(1, 4), rng.randint(5, 12), rng.choice([1, 2, 0.5, 1.5])
            expr = f"numpy.arange({a}, {b}, {s})"
        elif kind == "logspace":
            expr = f"numpy.logspace(0, {rng.randint(1, 3)}, {rng.randint(2, 5)})"
        else:
            expr = f"numpy.array({ts!r}) * 2.0"
        vals = [float(v) for v in eval(expr, {}, {"numpy": np})]  # oracle: numpy itself
        st = start if start < vals[0] else vals[0] - 1.0
        return {"times": expr, "start_time": st}, vals, "expr:" + kind
    if form in ("npy", "txt"):
        path = os.path.join(tmp, f"times_{idx}.{form}")
        if form == "npy":
            np.save(path, np.array(ts))
        else:
            with open(path, "w") as fh:
                fh.write(",".join(repr(t) for t in ts) + "\n")
        return {"times_from_file": path, "start_time": start}, ts, "file:" + form
    return {"times": list(ts), "start_time": start}, ts, "list"


def gen_plan(rng, n_steps):
    plan = {}
    for step in range(n_steps):
        names = [b for b in ["photon", "charge", "signal"] if rng.random() < 0.5]
        if rng.random() < 0.08:  # rare: every read of clustered charge re-JITs pyxel's binning kernel (~0.1 s)
            names.append("clusters")
        if rng.random() < 0.6:
            how = rng.choice(["pixel", "pixel+", "pixel=charge"])
            if how == "pixel=charge" and ("clusters" in names or "charge" not in names):
                names = [n for n in names if n != "clusters"]
                if "charge" not in names:
                    names.append("charge")
            names.append(how)
        if rng.random() < 0.25:
            names.append("scene")
        if rng.random() < 0.2:
            names.append("data")
        if n_steps > 1 or rng.random() < 0.5:
            names.append("image")
        plan[str(step)] = names
    return plan


def pipeline_spec(plan_, seed, dtypes=None):
    return {
        "scene_generation": [{"name": "first", "func": "vf.probes.trace", "arguments": {"snap": True}}],
        "charge_generation": [{"name": "w", "func": "vf.probes.writer2",
                               "arguments": {"plan": plan_, "seed": seed, "dtypes": dtypes or {}}}],
        "data_processing": [{"name": "last", "func": "vf.probes.trace", "arguments": {"snap": True}}],
    }


def close(a, b, floor=1.0):
    """floor: magnitude of the schedule (1.0 for ordinary schedules, smaller for nanosecond sampling)"""
    if math.isinf(a) or math.isinf(b):
        return a == b
    return abs(a - b) <= 1e-12 * max(floor, abs(a), abs(b))


# ------------------------------------------------------------------ valid schedules
def preload(rng, detector, how):
    """Leave contents of an 'earlier run' in the detector."""
    import pyxel
    from pyxel.exposure import Exposure, Readout
    shape = detector.geometry.shape
    if how == "previous_run":
        n = rng.randint(1, 3)
        pl = {str(s): ["photon", "charge", "pixel", "signal", "image", "scene", "data"] for s in range(n)}
        pyxel.run_mode(mode=Exposure(readout=Readout(times=list(range(1, n + 1)), non_destructive=True)),
                       detector=detector, pipeline=build.make_pipeline(pipeline_spec(pl, 77)),
                       with_inherited_coords=True)
    else:
        detector.photon.array = np.full(shape, 5.0)
        detector.charge.add_charge_array(np.full(shape, 7.0))
        if rng.random() < 0.5:
            detector.charge.add_charge(particle_type="e", particles_per_cluster=np.array([3.0]),
                                       init_energy=np.array([0.0]), init_ver_position=np.array([1.0]),
                                       init_hor_position=np.array([1.0]), init_z_position=np.array([0.0]),
                                       init_ver_velocity=np.array([0.0]), init_hor_velocity=np.array([0.0]),
                                       init_z_velocity=np.array([0.0]))
        detector.pixel.array = np.full(shape, 11.0)
        detector.signal.array = np.full(shape, 13.0)
        detector.image.array = np.full(shape, 17, dtype=np.uint16)
        detector.scene.add_source(probes.make_source(5))


def verify_events(rec, evs, otimes, start, nd, prior, case, i):
    """Clock and bucket-lifecycle oracle applied to the probe events of ONE run."""
    n_steps = len(otimes)
    firsts = [e for e in evs if e["model"] == "first"]
    lasts = [e for e in evs if e["model"] == "last"]
    writes = [e for e in evs if e["model"] == "w"]
    if [e["step"] for e in firsts] != list(range(n_steps)) or [e["step"] for e in lasts] != list(range(n_steps)) \
            or len(writes) != n_steps or [e["model"] for e in evs] != ["first", "w", "last"] * n_steps:
        rec.violation("C02:steps:count-or-order",
                      f"expected {n_steps} steps in order, saw {[(e['model'], e['step']) for e in evs][:30]}", case, i)
        return False
    prev_t = start
    prev_pixel = None
    floor = min(1.0, max(abs(x) for x in [*otimes, start]))
    if otimes[0] <= 1e-8:
        rec.count("runs_with_first_time_below_1e-8")
    for step in range(n_steps):
        t = otimes[step]
        exp = {"time": t, "time_step": t - prev_t, "absolute_time": start + t, "start_time": start}
        for ev in (firsts[step], lasts[step]):
            for field, want in exp.items():
                rec.count("clock_fields_checked")
                if not close(ev[field], want, floor):
                    rec.violation(f"C02:clock:{field}", f"step {step}: model saw {field}={ev[field]!r}, oracle {want!r} "
                                  f"(times={otimes}, start={start})", case, i)
            for field, want in (("is_first", step == 0), ("is_last", step == n_steps - 1), ("num_steps", n_steps),
                                ("non_destructive", nd)):
                rec.count("clock_fields_checked")
                if ev[field] != want:
                    rec.violation(f"C02:clock:{field}", f"step {step}: model saw {field}={ev[field]!r}, oracle {want!r}", case, i)
        snap = firsts[step]["buckets"]
        leak = "leak-from-previous-run" if (step == 0 and prior != "none") else "not-empty-at-step-start"
        for b in BUCKETS:
            rec.count("lifecycle_checks")
            if snap["public_empty"][b] is not True:
                rec.violation(f"C02:lifecycle:{b}:{leak}", f"step {step}: '{b}' is not empty at the start of the step "
                              f"(public_empty={snap['public_empty'][b]!r}, prior={prior})", case, i)
        rec.count("lifecycle_checks")
        if snap["scene_empty"] is not True or snap.get("scene_empty_deep") is not True:
            rec.violation(f"C02:lifecycle:scene:{leak}", f"step {step}: scene not empty at step start "
                          f"(root empty={snap['scene_empty']!r}, whole tree empty={snap.get('scene_empty_deep')!r})", case, i)
        pix = snap["pixel"]
        rec.count("lifecycle_checks")
        if pix is None:
            rec.violation("C02:lifecycle:pixel:unreadable-at-step-start", f"step {step}: pixel container not readable", case, i)
        elif not nd or step == 0:
            if np.any(pix != 0):
                what = leak if step == 0 else ("destructive-not-reset" if not nd else leak)
                rec.violation(f"C02:lifecycle:pixel:{what}", f"step {step}: pixel not all zero at step start "
                              f"(max={float(np.max(pix))}, non_destructive={nd}, prior={prior})", case, i)
        else:
            rec.count("nondestructive_carry_checks")
            if prev_pixel is None or not np.array_equal(pix, prev_pixel):
                rec.violation("C02:lifecycle:pixel:nondestructive-content-lost",
                              f"step {step}: pixel at step start differs from the previous step's final content", case, i)
        if lasts[step]["buckets"].get("scene_empty_deep") is False:
            rec.count("steps_ending_with_sources_in_scene")
        prev_pixel = lasts[step]["buckets"]["pixel"]
        prev_t = t
        rec.count("steps_checked")
    return True


def valid_case(rec, i, rng):
    import pyxel
    from pyxel.exposure import Exposure, Readout

    ts, start = gen_times(rng)
    rkw, otimes, form = gen_form(rng, ts, start, rec.tmp, i)
    start = rkw["start_time"]
    nd = rng.random() < 0.5
    rkw["non_destructive"] = nd
    n_steps = len(otimes)
    wplan = gen_plan(rng, n_steps)
    prior = rng.choice(["none", "none", "previous_run", "direct", "same_schedule_other_mode"])
    dkind = rng.choice(["ccd", "cmos", "mkid", "apd"])
    dspec = build.default_detector_spec(dkind, rng.randint(1, 4), rng.randint(1, 4))
    route = rng.choice(["python", "python", "yaml"]) if "times_from_file" not in rkw or True else "python"
    case = {"readout": {k: (v if not isinstance(v, np.ndarray) else v.tolist()) for k, v in rkw.items()},
            "oracle_times": otimes, "form": form, "plan": wplan, "prior": prior, "detector": dkind, "route": route}
    sig = (form, n_steps, nd, [sorted(v) for v in wplan.values()], prior, route, otimes[:3])
    mech_form = form.split(":")[0]

    pspec = pipeline_spec(wplan, i)
    try:
        if route == "yaml":
            doc = {"exposure": {"readout": dict(rkw)}, "pipeline": build.pipeline_yaml_dict(pspec)}
            doc.update(build.detector_yaml_dict(dspec))
            cfg = pyxel.loads(build.dump_yaml(doc))
            detector = getattr(cfg, build.DETECTOR_KEYS[dkind])
            mode, pipe = cfg.exposure, cfg.pipeline
        else:
            detector = build.make_detector(dspec)
            mode, pipe = Exposure(readout=Readout(**rkw)), build.make_pipeline(pspec)
    except Exception as exc:  # noqa: BLE001
        if form.startswith("file"):
            rec.count("refused_file_form")
            return
        rec.violation(f"C02:valid-refused:{mech_form}:{route}", f"valid schedule refused at construction: {type(exc).__name__}: {exc}", case, i)
        rec.case(sig, True)
        return
    if prior == "same_schedule_other_mode":
        # history: an earlier run on the SAME detector with the very same times and start time, in the
        # other readout mode
        try:
            other = dict(rkw, non_destructive=not nd)
            pl = {str(s_): ["photon", "charge", "pixel+", "signal", "image"] for s_ in range(n_steps)}
            pyxel.run_mode(mode=Exposure(readout=Readout(**other)), detector=detector,
                           pipeline=build.make_pipeline(pipeline_spec(pl, 91)), with_inherited_coords=True)
            rec.count("prior_contents_runs")
            rec.count("prior_same_schedule_other_mode")
        except Exception as exc:  # noqa: BLE001
            rec.count("preload_failed")
            rec.observe("preload_errors", f"{type(exc).__name__}: {str(exc)[:80]}")
            prior = "none"
    elif prior != "none":
        try:
            preload(rng, detector, prior)
            rec.count("prior_contents_runs")
        except Exception as exc:  # noqa: BLE001
            rec.count("preload_failed")
            rec.observe("preload_errors", f"{type(exc).__name__}: {str(exc)[:80]}")
            prior = "none"
    probes.reset()
    image_every_step = all("image" in wplan[str(s)] for s in range(1, n_steps))
    try:
        pyxel.run_mode(mode=mode, detector=detector, pipeline=pipe, with_inherited_coords=True)
    except Exception as exc:  # noqa: BLE001
        if not image_every_step:
            rec.count("refused_image_not_written_every_step")
            rec.case(sig, False)
            return
        rec.violation(f"C02:valid-run-failed:{mech_form}", f"{type(exc).__name__}: {exc}", case, i)
        rec.case(sig, True)
        return
    rec.count("valid_runs")
    rec.observe("forms", form)
    rec.observe("n_steps", n_steps)
    evs = probes.events()
    if not verify_events(rec, evs, otimes, start, nd, prior, case, i):
        rec.case(sig, True)
        return
    rec.case(sig, n_steps >= 2 or prior != "none", sample=case)


# ------------------------------------------------------------------ invalid schedules
INVALID = ["zero_first", "non_increasing", "duplicate", "nan_inside", "nan_only", "start_equal_first",
           "start_after_first", "two_d", "empty", "both_times_and_file", "nothing_but_zero"]
ROUTES = ["ctor", "setter", "replace", "yaml", "set_readout"]


def gen_invalid(rng, cls):
    start = 0.0
    if cls == "zero_first":
        ts = [0.0] + sorted(rng.sample(range(1, 20), rng.randint(0, 3)))
    elif cls == "nothing_but_zero":
        ts = [0]
    elif cls == "non_increasing":
        ts = sorted(rng.sample(range(1, 30), rng.randint(2, 5)))
        j = rng.randrange(len(ts) - 1)
        ts[j], ts[j + 1] = ts[j + 1], ts[j]
    elif cls == "duplicate":
        ts = sorted(rng.sample(range(1, 30), rng.randint(1, 4)))
        j = rng.randrange(len(ts))
        ts.insert(j, ts[j])
    elif cls == "nan_inside":
        ts = [float(t) for t in sorted(rng.sample(range(1, 30), rng.randint(2, 4)))]
        ts[rng.randrange(1, len(ts))] = float("nan")
    elif cls == "nan_only":
        ts = [float("nan")]
    elif cls == "start_equal_first":
        ts = sorted(rng.sample(range(1, 30), rng.randint(1, 4)))
        start = float(ts[0])
    elif cls == "start_after_first":
        ts = sorted(rng.sample(range(1, 30), rng.randint(1, 4)))
        start = float(ts[0]) + rng.choice([0.5, 1.0, 100.0])
    elif cls == "two_d":
        ts = [[1.0, 2.0], [3.0, 4.0]]
    elif cls == "empty":
        ts = []
    else:
        ts = [1.0, 2.0]
    return ts, start


def invalid_case(rec, i, rng):
    import pyxel
    from pyxel.exposure import Exposure, Readout

    cls = INVALID[i % len(INVALID)]
    route = ROUTES[(i // len(INVALID)) % len(ROUTES)]
    ts, start = gen_invalid(rng, cls)
    case = {"class": cls, "route": route, "times": repr(ts), "start": start}
    dspec = build.default_detector_spec("ccd", 2, 2)
    pspec = pipeline_spec({"*": ["image"]}, 0)
    probes.reset()
    rec.count("invalid_cases")
    stage = None
    try:
        detector = build.make_detector(dspec)
        if cls == "both_times_and_file":
            path = os.path.join(rec.tmp, f"t_{i}.npy")
            np.save(path, np.array([1.0, 2.0]))
            if route in ("setter", "replace", "set_readout"):
                rec.count("invalid_na_for_route")
                return
            rkw = {"times": ts, "times_from_file": path}
        else:
            rkw = {"times": ts, "start_time": start}
        stage = "construct"
        if route == "ctor":
            readout = Readout(**rkw)
        elif route == "setter":
            readout = Readout(times=[50.0, 60.0])
            if cls.startswith("start"):
                readout.times = ts
                readout.start_time = start
            else:
                readout.times = ts
        elif route == "replace":
            readout = Readout(times=[50.0, 60.0]).replace(**rkw)
        elif route == "set_readout":
            readout = None
        else:
            readout = "yaml"
        stage = "run"
        if route == "yaml":
            doc = {"exposure": {"readout": dict(rkw)}, "pipeline": build.pipeline_yaml_dict(pspec)}
            doc.update(build.detector_yaml_dict(dspec))
            cfg = pyxel.loads(build.dump_yaml(doc))
            pyxel.run_mode(mode=cfg.exposure, detector=cfg.ccd_detector, pipeline=cfg.pipeline)
        elif route == "set_readout":
            detector.set_readout(times=ts, start_time=start)
            rec.violation(f"C02:invalid-accepted:{cls}:set_readout", f"Detector.set_readout accepted times={ts!r} start={start}", case, i)
            return
        else:
            pyxel.run_mode(mode=Exposure(readout=readout), detector=detector, pipeline=build.make_pipeline(pspec))
    except Exception as exc:  # noqa: BLE001 - any error is a rejection
        evs = probes.events()
        rec.observe("rejection_stage", f"{route}:{stage}")
        rec.observe("rejection_types", type(exc).__name__)
        if evs:
            rec.violation(f"C02:invalid-ran-models:{cls}:{route}",
                          f"{len(evs)} model calls happened before the invalid schedule was rejected ({type(exc).__name__}: {exc})", case, i)
        else:
            rec.count("invalid_rejected")
        rec.case(("invalid", cls, route, repr(ts), start), True, sample=case)
        return
    evs = probes.events()
    rec.violation(f"C02:invalid-accepted:{cls}:{route}",
                  f"invalid schedule times={ts!r} start={start} accepted; {len(evs)} model calls executed", case, i)
    rec.case(("invalid", cls, route, repr(ts), start), True)


def concurrent_case(rec, i, rng):
    """Several detectors run the SAME schedule at the same time in different threads (as the thread
    scheduler of a parallel observation does): every run must see its own clock and its own buckets."""
    import threading

    import pyxel
    from pyxel.exposure import Exposure, Readout

    ts, start = gen_times(rng)
    if len(ts) < 2:
        ts = [ts[0], ts[0] + 1.0, ts[0] + 2.5]
    nd = rng.random() < 0.5
    n_threads = rng.randint(2, 4)
    n_steps = len(ts)
    case = {"concurrent": n_threads, "times": ts, "start": start, "non_destructive": nd}
    jobs = []
    for t in range(n_threads):
        wplan = {str(s_): ["image", "pixel+"] + (["photon"] if rng.random() < 0.5 else []) for s_ in range(n_steps)}
        pspec = pipeline_spec(wplan, 1000 * i + t)
        # data-dependent pauses inside the first probe move the threads against each other
        pspec["scene_generation"][0]["arguments"]["sleep"] = rng.choice([0.0, 0.002, 0.004])
        pspec["data_processing"][0]["arguments"]["sleep"] = rng.choice([0.0, 0.003])
        jobs.append((build.make_detector(build.default_detector_spec(rng.choice(["ccd", "cmos"]), 2, 3)),
                     build.make_pipeline(pspec)))
    probes.reset()
    barrier = threading.Barrier(n_threads)
    errors = []

    def work(det, pipe):
        try:
            barrier.wait(timeout=30)
            pyxel.run_mode(mode=Exposure(readout=Readout(times=list(ts), start_time=start, non_destructive=nd)),
                           detector=det, pipeline=pipe, with_inherited_coords=True)
        except Exception as exc:  # noqa: BLE001
            errors.append(f"{type(exc).__name__}: {exc}")

    threads = [threading.Thread(target=work, args=job) for job in jobs]
    for th in threads:
        th.start()
    for th in threads:
        th.join(timeout=120)
    if errors:
        rec.violation("C02:concurrent:run-failed", f"{errors[:2]}", case, i)
        return
    evs = probes.events()
    rec.count("concurrent_runs", n_threads)
    interleaved = len({e["tid"] for e in evs}) > 1 and any(a["tid"] != b["tid"] for a, b in zip(evs, evs[1:]))
    rec.count("concurrent_cases_interleaved", int(interleaved))
    for det, _pipe in jobs:
        mine = [e for e in evs if e["det"] == id(det)]
        rec.count("valid_runs")
        if not verify_events(rec, mine, ts, start, nd, "none", dict(case, mechanism_hint="concurrent twin runs"), i):
            rec.observe("concurrent_violation", 1)
    rec.case(("concurrent", n_threads, ts, start, nd), True, sample=case)


def run_shard(spec, rec):
    if spec["kind"] == "valid":
        for j in range(max(2, spec["n"] // 10)):
            idx = 50_000 + j
            if rec.wanted(idx):
                concurrent_case(rec, idx, rec.rng(idx))
    for i in range(spec["n"]):
        if not rec.wanted(i):
            continue
        rng = rec.rng(i)
        if spec["kind"] == "valid":
            valid_case(rec, i, rng)
        else:
            invalid_case(rec, i + spec["shard"] * 1000, rng)

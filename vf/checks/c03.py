"""C03 -- the returned result is a faithful, complete record of every step.

Monitor: writer probes fill the buckets with per-step pseudo-random arrays of every allowed
dtype; a snapshot probe after each writer and one at the end of each step record what the
detector really held.  Oracle: result[bucket].isel(time=i) must be bit-identical to the
end-of-step snapshot, with the step's absolute time as label; flat == hierarchical; debug
nodes == post-model snapshots; debug on == debug off.
"""
from __future__ import annotations

import numpy as np

from vf import build, probes

ID = "C03"
LEVEL = "exploration"
REGISTER = True
TECHNIQUE = "runtime monitoring: end-of-step probe snapshots vs. returned DataTree slices (bit-exact), layout and debug differential runs"
RULE = ("random pipelines of 1-3 writer probes (each followed by a snapshot probe) over buckets photon(2-D/3-D)/"
        "charge/pixel/signal/image/scene/data, dtypes float16/32/64 and uint8/16/32/64 (full value range), 1-6 "
        "readouts with random start times, both layouts, debug on/off; non-trivial = >=2 readouts or >=2 writers; "
        "distinct = distinct (plans, dtypes, schedule, layout, debug) signatures")
ASSUMPTIONS = ["float buckets are compared by value after lossless widening to float64 (only the image dtype is pinned by the statement)",
               "a bucket not written in some step of a multi-step run must show no data (NaN) for that step"]
REQUIRED_COUNTERS = ["read_out_flag_cases", "inplace_only_pixel_cases", "photon3d_own_coords_cases", "debug_after_earlier_debug_run", "debug_exactness_checks", "runs", "slices_compared", "time_labels_checked", "image_dtype_checks", "layout_pairs",
                     "debug_pairs", "debug_nodes_compared", "scene_checks", "data_checks", "data_tree_checks", "photon3d_runs"]
TIMEOUT = {"quick": 600, "thorough": 3000}
LEVEL_TEXT = ("Exploration by runtime monitoring: each generated run is executed by the real exposure loop; the returned "
              "DataTree is compared slice by slice (bit-exact, through unsigned 64-bit values above 2**53) with "
              "snapshots the probes took inside the run; the same specification is re-run in the other layout and with "
              "debug capture and the three results must agree.")
LEVEL_NOTE = "Trusted: xarray indexing of the returned tree, the snapshot probes (public API reads, deep copies)."

FLOATS = ["float16", "float32", "float64"]
UINTS = ["uint8", "uint16", "uint32", "uint64"]
GROUP_SLOTS = ["photon_collection", "charge_generation", "charge_collection", "charge_measurement", "readout_electronics"]


def plan(tier, seed):
    n = 30 if tier == "quick" else 420
    specs = [{"shard": s, "seed": seed, "kind": "random", "n": n} for s in range(15)]
    specs.append({"shard": 15, "seed": seed, "kind": "grid", "n": 24 if tier == "quick" else 24})
    return specs


def gen_case(rng, grid=None):
    n_steps = rng.choice([1, 1, 2, 3, 4, 6])
    times = sorted(rng.sample(range(1, 50), n_steps))
    times = [t + rng.choice([0.0, 0.25, 0.5]) for t in times]
    start = rng.choice([0.0, 0.0, 0.5, -2.0])
    photon = rng.choice(["photon", "photon", "photon3d", "photon3dc", None])
    dtypes = {"photon": rng.choice(FLOATS), "pixel": rng.choice(FLOATS), "signal": rng.choice(FLOATS),
              "image": rng.choice(UINTS)}
    if grid:
        dtypes["image"], fl, photon = grid
        dtypes.update({"photon": fl, "pixel": fl, "signal": fl})
    n_writers = rng.randint(1, 3)
    slots = sorted(rng.sample(range(len(GROUP_SLOTS)), n_writers))
    writers = []
    pool = [photon, "charge", rng.choice(["pixel", "pixel+", "pixel+", "pixel@"]), "signal", "scene", "data"]
    for k, slot in enumerate(slots):
        names = [b for b in pool if b and rng.random() < 0.5]
        writers.append({"group": GROUP_SLOTS[slot], "names": names, "seed": rng.randint(0, 10**6)})
    if grid and photon and not any(photon in w["names"] for w in writers):
        writers[0]["names"].append(photon)
    # the image must be written at every step of a multi-readout run: the last writer does it
    if n_steps > 1 or rng.random() < 0.7 or grid:
        writers[-1]["names"].append("image")
    mixed = None
    if n_steps > 1 and rng.random() < 0.25:
        # one float bucket is skipped at one step (not the image)
        cand = [(k, b) for k, w in enumerate(writers) for b in w["names"] if b in ("photon", "signal")]
        if cand:
            k, b = rng.choice(cand)
            others = [w for j, w in enumerate(writers) if j != k and b in w["names"]]
            if not others:
                mixed = {"writer": k, "bucket": b, "step": rng.randrange(n_steps)}
    read_out_off = sorted(rng.sample(range(n_steps), rng.randint(1, n_steps))) if rng.random() < 0.15 else []
    return {"times": times, "start": start, "non_destructive": rng.random() < 0.5, "dtypes": dtypes, "read_out_off": read_out_off,
            "writers": writers, "mixed": mixed, "rows": rng.randint(1, 4), "cols": rng.randint(1, 5),
            "detector": rng.choice(["ccd", "cmos", "mkid", "apd"])}


def pipeline_spec(case):
    n_steps = len(case["times"])
    pspec = {}
    for k, w in enumerate(case["writers"]):
        plan_ = {}
        for step in range(n_steps):
            names = list(w["names"])
            m = case["mixed"]
            if m and m["writer"] == k and m["step"] == step:
                names = [b for b in names if b != m["bucket"]]
            plan_[str(step)] = names
        pspec.setdefault(w["group"], []).extend([
            {"name": f"w{k}", "func": "vf.probes.writer2",
             "arguments": {"plan": plan_, "seed": w["seed"], "dtypes": case["dtypes"]}},
            {"name": f"s{k}", "func": "vf.probes.trace", "arguments": {"snap": True}},
        ])
    pspec["data_processing"] = [{"name": "last", "func": "vf.probes.trace", "arguments": {"snap": True}}]
    if case.get("read_out_off"):
        pspec["data_processing"].insert(0, {"name": "flag", "func": "vf.checks.c03.flagger",
                                            "arguments": {"steps": case["read_out_off"]}})
    return pspec


def flagger(detector, steps=()):
    """A model that clears the detector's model-settable `read_out` flag at some readouts."""
    if int(detector.pipeline_count) in steps:
        detector.read_out = False


def execute(case, hier, debug, prior_debug_run=False):
    import pyxel
    from pyxel.exposure import Exposure, Readout
    dspec = build.default_detector_spec(case["detector"], case["rows"], case["cols"])
    detector = build.make_detector(dspec)
    if prior_debug_run:
        # an earlier debug run on the SAME detector, with other models in another group
        old = {"charge_transfer": [{"name": "old0", "func": "vf.probes.writer2",
                                    "arguments": {"plan": {"*": ["photon", "signal", "image", "pixel+"]}, "seed": 4242}}]}
        pyxel.run_mode(mode=Exposure(readout=Readout(times=[1.0, 2.0, 3.0, 4.0, 5.0, 6.0, 7.0])), detector=detector,
                       pipeline=build.make_pipeline(old), with_inherited_coords=True, debug=True)
    probes.reset()
    mode = Exposure(readout=Readout(times=case["times"], start_time=case["start"],
                                    non_destructive=case["non_destructive"]))
    tree = pyxel.run_mode(mode=mode, detector=detector, pipeline=build.make_pipeline(pipeline_spec(case)),
                          with_inherited_coords=hier, debug=debug)
    return tree, probes.events(), detector


def bucket_ds(tree, hier):
    return tree["/bucket"].to_dataset() if hier else tree.to_dataset()


def exact_equal(res, snap):
    res = np.asarray(res)
    if res.shape != snap.shape:
        return False
    if snap.dtype.kind == "u":
        if res.dtype.kind != "u":
            # compare as Python integers so that a detour through floats is visible
            return [int(v) for v in res.ravel().tolist()] == [int(v) for v in snap.ravel().tolist()]
        return bool(np.array_equal(res.astype(np.uint64), snap.astype(np.uint64)))
    return bool(np.array_equal(res.astype(np.float64), snap.astype(np.float64)))


def check_result(rec, tree, hier, events, case, index, tag):
    n_steps = len(case["times"])
    ds = bucket_ds(tree, hier)
    lasts = [e for e in events if e["model"] == "last"]
    if len(lasts) != n_steps:
        rec.violation("C03:steps-missing", f"{len(lasts)} end-of-step snapshots for {n_steps} readouts", case, index)
        return False
    ok = True
    # labels
    rec.count("time_labels_checked")
    want_t = [case["start"] + t for t in case["times"]]
    got_t = [float(v) for v in np.atleast_1d(ds["time"].values)] if "time" in ds.coords else None
    if got_t is None or len(got_t) != n_steps or any(abs(a - b) > 1e-12 * max(1, abs(b)) for a, b in zip(got_t, want_t)):
        rec.violation(f"C03:{tag}:time-labels", f"time labels {got_t} but absolute times {want_t}", case, index)
        ok = False
    for dim, n in (("y", case["rows"]), ("x", case["cols"])):
        if dim in ds.coords and list(ds[dim].values) != list(range(n)):
            rec.violation(f"C03:{tag}:{dim}-labels", f"{dim} labels {list(ds[dim].values)}", case, index)
            ok = False
    for b in ("photon", "charge", "pixel", "signal", "image"):
        held = [e["buckets"][b] for e in lasts]
        if b == "charge" and all(h is not None and not np.any(h) for h in held):
            held = [None if h is None else h for h in held]
        if all(h is None for h in held):
            continue
        if b not in ds:
            rec.violation(f"C03:{tag}:bucket-missing:{b}", f"'{b}' was initialised by a model but is not in the result", case, index)
            ok = False
            continue
        var = ds[b]
        if "time" not in var.dims or var.sizes["time"] != n_steps:
            rec.violation(f"C03:{tag}:slice-count:{b}", f"'{b}' has dims {dict(var.sizes)} for {n_steps} readouts", case, index)
            ok = False
            continue
        for i, snap in enumerate(held):
            sl = var.isel(time=i)
            rec.count("slices_compared")
            if snap is None:
                vals = np.asarray(sl.values)
                if vals.dtype.kind == "f" and np.all(np.isnan(vals)):
                    rec.count("empty_step_slices_nan")
                    continue
                rec.violation(f"C03:{tag}:slice-for-empty-step-has-data:{b}",
                              f"step {i}: '{b}' was empty at the end of the step but the slice holds data", case, index)
                ok = False
                continue
            want_dims = ("wavelength", "y", "x") if snap.ndim == 3 else ("y", "x")
            if tuple(sl.dims) != want_dims:
                sl = sl.transpose(*want_dims) if set(sl.dims) == set(want_dims) else sl
            if not exact_equal(sl.values, snap):
                if (b == "image" and snap.dtype == np.uint64 and n_steps > 1 and sl.dtype == np.uint64
                        and np.array_equal(np.asarray(sl.values), snap.astype(np.float64).astype(np.uint64))
                        and bool(np.all((np.asarray(sl.values) == snap) | (snap > 2**53)))):
                    # exactly the values above 2**53 were rounded to the nearest double: known finding
                    rec.violation("C03:image:uint64-above-2**53-rounded-through-float64:multi-readout",
                                  f"step {i}: 64-bit image codes above 2**53 come back rounded to float64 precision", case, index)
                    ok = False
                    continue
                rec.violation(f"C03:{tag}:slice-values:{b}",
                              f"step {i}: result slice of '{b}' differs from what the detector held at the end of the step "
                              f"(result dtype {sl.dtype}, held dtype {snap.dtype})", case, index)
                ok = False
        if b == "image":
            rec.count("image_dtype_checks")
            held_dt = next(h.dtype for h in held if h is not None)
            if var.dtype.kind != "u" or var.dtype != held_dt:
                rec.violation(f"C03:{tag}:image-dtype", f"result image dtype {var.dtype}, detector image dtype {held_dt}", case, index)
                ok = False
    # scene and processed data are returned unchanged
    last = lasts[-1]
    scene_written = any("scene" in w["names"] for w in case["writers"])
    if scene_written:
        rec.count("scene_checks")
        held_scene = last["buckets"].get("scene_tree")
        try:
            node = tree["/scene"]
            if held_scene is None or len(held_scene.children) == 0:
                rec.violation(f"C03:{tag}:scene-snapshot-empty", "probe saw no scene although a model added a source", case, index)
                ok = False
            elif not node.equals(held_scene):
                rec.violation(f"C03:{tag}:scene-changed", "/scene differs from the scene the detector held at the end of the run", case, index)
                ok = False
        except Exception as exc:  # noqa: BLE001
            rec.violation(f"C03:{tag}:scene-changed", f"cannot read /scene: {type(exc).__name__}: {exc}", case, index)
            ok = False
    data_writers = [w for w in case["writers"] if "data" in w["names"]]
    if data_writers:
        rec.count("data_checks")
        w = data_writers[-1]  # same key per step: the last writer's array wins
        try:
            for step in range(n_steps):
                got = tree[f"/data/probe/step{step}"].values
                exp = probes.gen_array((case["rows"], case["cols"]), "float64", (w["seed"], step, 9))
                if not np.array_equal(got, exp):
                    rec.violation(f"C03:{tag}:data-changed", f"/data/probe/step{step} differs from what the model stored", case, index)
                    ok = False
        except Exception as exc:  # noqa: BLE001
            rec.violation(f"C03:{tag}:data-changed", f"cannot read /data: {type(exc).__name__}: {exc}", case, index)
            ok = False
        # the whole container (groups, attributes, variables) is the one the detector held at the end of the run
        held_data = last["buckets"].get("data_tree")
        if held_data is None:
            rec.count("data_tree_snapshot_missing")
        else:
            rec.count("data_tree_checks")
            diff = tree_diff(held_data, tree["/data"] if "data" in tree.children else None)
            if diff:
                rec.violation(f"C03:{tag}:data-container-changed", f"/data is not the processed-data container the detector held: {diff}", case, index)
                ok = False
    return ok


def tree_diff(held, got):
    """First difference between two data trees: groups, group attributes, variables (values, dims, attributes)."""
    if got is None:
        return "no /data group in the result"
    a = {n.path: n for n in held.subtree}
    b = {n.path: n for n in got.subtree}
    ra = {p[len(held.path):].strip("/"): n for p, n in a.items()}
    rb = {p[len(got.path):].strip("/"): n for p, n in b.items()}
    if sorted(ra) != sorted(rb):
        return f"groups differ: only held {sorted(set(ra) - set(rb))[:4]}, only returned {sorted(set(rb) - set(ra))[:4]}"
    for path in ra:
        na, nb = ra[path], rb[path]
        if dict(na.attrs) != dict(nb.attrs):
            return f"attributes of group '/{path}' differ: held {dict(na.attrs)}, returned {dict(nb.attrs)}"
        if sorted(na.data_vars) != sorted(nb.data_vars):
            return f"variables of group '/{path}' differ"
        for name in na.data_vars:
            va, vb = na[name], nb[name]
            # (coordinates are not compared: in the flat layout the groups inherit the y/x labels of the root)
            if va.dims != vb.dims or va.dtype != vb.dtype or dict(va.attrs) != dict(vb.attrs) \
                    or not np.array_equal(np.asarray(va.values), np.asarray(vb.values), equal_nan=va.dtype.kind == "f"):
                return f"variable '{name}' of group '/{path}' differs (dims, type, attributes or values)"
    return None


def same_buckets(ds_a, ds_b):
    for b in ("photon", "charge", "pixel", "signal", "image"):
        if (b in ds_a) != (b in ds_b):
            return f"'{b}' present in one result only"
        if b in ds_a:
            a, c = ds_a[b], ds_b[b]
            if a.dims != c.dims or a.shape != c.shape or a.dtype != c.dtype:
                return f"'{b}': dims/shape/dtype {a.dims}{a.shape}{a.dtype} vs {c.dims}{c.shape}{c.dtype}"
            if not np.array_equal(a.values, c.values, equal_nan=a.dtype.kind == "f"):
                return f"'{b}': values differ"
    for cname in ("time", "y", "x"):
        if (cname in ds_a.coords) and (cname in ds_b.coords) and not np.array_equal(ds_a[cname].values, ds_b[cname].values):
            return f"coordinate {cname} differs"
    return None


def _same(a, b):
    if a is None or b is None:
        return a is None and b is None
    return a.shape == b.shape and bool(np.array_equal(a, b))


def check_debug_exactness(rec, tree, events, case, index):
    """A model's debug node lists a bucket if and only if that model changed it."""
    n_steps = len(case["times"])
    lasts = [e for e in events if e["model"] == "last"]
    zeros = np.zeros((case["rows"], case["cols"]))
    for step in range(n_steps):
        start = {b: None for b in ("photon", "charge", "signal", "image")}
        start["pixel"] = lasts[step - 1]["buckets"]["pixel"] if (case["non_destructive"] and step > 0) else zeros
        pre = start
        for k, w in enumerate(case["writers"]):
            snap = next((e for e in events if e["model"] == f"s{k}" and e["step"] == step), None)
            if snap is None:
                return
            post = snap["buckets"]
            for model, before, after in ((f"w{k}", pre, post), (f"s{k}", post, post)):
                key = f"/intermediate/time_idx_{step}/{w['group']}/{model}"
                try:
                    listed = set(tree[key].to_dataset().data_vars)
                except KeyError:
                    listed = set()
                for b in ("photon", "charge", "pixel", "signal", "image"):
                    x, y = before[b], after[b]
                    if b == "charge":
                        x = None if (x is None or not np.any(x)) else x
                        y = None if (y is None or not np.any(y)) else y
                    if b == "pixel":
                        x = zeros if x is None else x
                        y = zeros if y is None else y
                    rec.count("debug_exactness_checks")
                    if _same(x, y) and b in listed:
                        rec.violation(f"C03:debug-node-lists-unchanged-bucket:{b}",
                                      f"{key} lists '{b}' although model {model} did not change it "
                                      f"(step {step}, non_destructive={case['non_destructive']})", case, index)
                        return
            pre = post


def check_debug_nodes(rec, tree, events, case, index):
    n_steps = len(case["times"])
    check_debug_exactness(rec, tree, events, case, index)
    for step in range(n_steps):
        for k, w in enumerate(case["writers"]):
            m = case["mixed"]
            names = [b for b in w["names"] if not (m and m["writer"] == k and m["step"] == step and b == m["bucket"])]
            snap = next((e for e in events if e["model"] == f"s{k}" and e["step"] == step), None)
            if snap is None:
                continue
            key = f"/intermediate/time_idx_{step}/{w['group']}/w{k}"
            for b in names:
                bname = {"photon3d": "photon", "photon3dc": "photon", "pixel+": "pixel", "pixel@": "pixel"}.get(b, b)
                if bname not in ("photon", "charge", "pixel", "signal", "image"):
                    continue
                held = snap["buckets"][bname]
                if held is None:
                    continue
                if bname == "charge" and not np.any(held):
                    continue
                rec.count("debug_nodes_compared")
                try:
                    node = tree[key]
                    var = node[bname]
                except KeyError:
                    rec.violation(f"C03:debug-node-missing-bucket:{bname}",
                                  f"{key} lacks '{bname}' although model w{k} changed it at step {step}", case, index)
                    continue
                vals = var.values
                if vals.shape != held.shape and var.ndim == held.ndim:
                    want_dims = ("wavelength", "y", "x") if held.ndim == 3 else ("y", "x")
                    vals = var.transpose(*want_dims).values
                if not exact_equal(vals, held):
                    rec.violation(f"C03:debug-node-values:{bname}",
                                  f"{key}/{bname} differs from the detector content right after the model", case, index)


def run_one(rec, index, case):
    sig = (case["times"], case["start"], case["dtypes"], [(w["group"], w["names"]) for w in case["writers"]],
           case["mixed"], case["rows"], case["cols"], case.get("read_out_off"))
    rec.count("read_out_flag_cases", int(bool(case.get("read_out_off"))))
    rec.count("inplace_only_pixel_cases", int(any("pixel@" in w["names"] for w in case["writers"])))
    rec.count("photon3d_own_coords_cases", int(any("photon3dc" in w["names"] for w in case["writers"])))
    nontrivial = len(case["times"]) >= 2 or len(case["writers"]) >= 2
    has_scene = any("scene" in w["names"] for w in case["writers"])
    try:
        tree_h, ev_h, _ = execute(case, hier=True, debug=False)
    except Exception as exc:  # noqa: BLE001
        if case["mixed"]:
            rec.count("refused_mixed_plan")
            rec.observe("refusals", f"{type(exc).__name__}: {str(exc)[:100]}")
            return
        import traceback
        rec.violation("C03:run-failed", f"{type(exc).__name__}: {exc} :: {traceback.format_exc()[-600:]}", case, index)
        rec.case(sig, nontrivial)
        return
    rec.count("runs")
    if any(("photon3d" in w["names"] or "photon3dc" in w["names"]) for w in case["writers"]):
        rec.count("photon3d_runs")
    rec.observe("image_dtypes", case["dtypes"]["image"])
    rec.observe("float_dtypes", case["dtypes"]["photon"])
    rec.observe("n_steps", len(case["times"]))
    check_result(rec, tree_h, True, ev_h, case, index, "hier")
    # flat layout (a non-empty scene forces the hierarchical layout: documented behaviour)
    if not has_scene:
        tree_f, ev_f, _ = execute(case, hier=False, debug=False)
        rec.count("runs")
        rec.count("layout_pairs")
        check_result(rec, tree_f, False, ev_f, case, index, "flat")
        diff = same_buckets(bucket_ds(tree_h, True), bucket_ds(tree_f, False))
        if diff:
            rec.violation("C03:layouts-differ", diff, case, index)
    # debug capture must not alter the result and must record post-model states
    prior = index % 2 == 1
    tree_d, ev_d, _ = execute(case, hier=True, debug=True, prior_debug_run=prior)
    rec.count("runs")
    rec.count("debug_pairs")
    if prior:
        rec.count("debug_after_earlier_debug_run")
        mine = {f"w{k}" for k in range(len(case["writers"]))} | {f"s{k}" for k in range(len(case["writers"]))} | {"last", "flag"}
        stale = sorted({g for g in tree_d.groups if g.startswith("/intermediate/time_idx_") and g.count("/") == 4
                        and g.rsplit("/", 1)[1] not in mine})
        if stale:
            rec.violation("C03:debug:nodes-of-an-earlier-run-returned",
                          f"/intermediate holds nodes recorded by an earlier run on the same detector: {stale[:4]}", case, index)
    check_result(rec, tree_d, True, ev_d, case, index, "debug")
    diff = same_buckets(bucket_ds(tree_h, True), bucket_ds(tree_d, True))
    if diff:
        rec.violation("C03:debug-alters-result", diff, case, index)
    check_debug_nodes(rec, tree_d, ev_d, case, index)
    rec.case(sig, nontrivial, sample={k: case[k] for k in ("times", "start", "dtypes", "writers", "mixed")})


def run_shard(spec, rec):
    if spec["kind"] == "grid":
        grid = [(u, f, p) for u in UINTS for f in FLOATS for p in ("photon", "photon3d")]
        for i, g in enumerate(grid):
            if not rec.wanted(i):
                continue
            run_one(rec, i, gen_case(rec.rng(i), grid=g))
            rec.observe("dtype_grid", "/".join(g))
        return
    for i in range(spec["n"]):
        if not rec.wanted(i):
            continue
        run_one(rec, i, gen_case(rec.rng(i)))


def coverage_extra(counters, sets, tier):
    return {"dtype_grid_cells": len(sets.get("dtype_grid", [])), "dtype_grid_total": 24}


def finalize(counters, sets, tier):
    if len(sets.get("dtype_grid", [])) < 24:
        return [f"dtype grid incomplete: {len(sets.get('dtype_grid', []))}/24"]
    return []

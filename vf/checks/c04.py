"""C04 -- seeded runs are bit-reproducible and seeding never leaks.

Three monitors, all on real executions of the working tree:

1. per-function contract: every function below ``pyxel.models`` whose signature has the parameters
   ``detector`` and ``seed`` (discovered by introspection at run time) is called on freshly prepared
   real detectors with ``seed=s`` from two different prior states of the process-wide NumPy generator;
   every bucket must be bit-identical and ``numpy.random.get_state()`` after the call must equal the
   state before -- on normal return, on errors provoked by invalid arguments, and on a fault injected
   into the model's first NumPy draw made inside a seeded section;
   (1b) every such function x every stochastic option of the recipe table is also run as the ONLY stochastic model
   of an exposure pipeline, without a seed argument of its own, under a pipeline seed, from different prior states
   (systematic sweep of "the pipeline seed alone drives the model", which the random pipelines below only sample);
2. mode level: generated pipelines of the stochastic real models with a pipeline seed are run twice
   (different prior generator states, unrelated seeded/unseeded runs in between) as exposure, sequential
   observation, dask observation (synchronous + thread pools) and calibration (pygmo seed + pipeline
   seed, both drawn from the classes {0, upper bound, small, anywhere} of their range, seed 0 of either kind being
   present in every run of the check): results bit-identical, generator state equal before/after every run / compute;
3. leak recorder (M3): ``numpy.random.seed`` / ``numpy.random.set_state`` are replaced as attributes of
   the module by recording wrappers for the whole life of every worker: a call made by pyxel code
   outside the seeding helper that is not undone by the same code is a leak event.
"""
from __future__ import annotations

import contextlib
import importlib
import inspect
import json
import os
import pkgutil
import signal
import subprocess
import sys
import threading
import traceback

import numpy as np

from vf import build

# Mechanisms of genuine defects found on the unchanged tree by this check: counted
# (counter "open_findings_reproduced", set "open_findings"), not raised, unless VERIF_C04_STRICT=1.
OPEN_FINDINGS: dict[str, str] = {
}

ID = "C04"
LEVEL = "exploration"
REGISTER = True
TECHNIQUE = ("runtime monitoring: post-condition contract around every seed-taking model function (outputs + "
             "numpy.random.get_state() before/after, normal return / provoked errors / injected draw faults), "
             "repeat-run differential of seeded exposure / observation / calibration from different prior generator "
             "states, recording wrappers on numpy.random.seed / set_state with stack inspection")
RULE = ("every function under pyxel.models with parameters (detector, seed) found by introspection x recipe variants x "
        "seeds (0 always included) x 2 prior generator states (one with a cached Gaussian); errors: invalid arguments, "
        "unprepared buckets, a fault raised by the first numpy.random draw inside a seeded section; every (function, recipe "
        "variant) as the only stochastic model, without its own seed, of an exposure with a pipeline seed (1-3 readouts, "
        "seed classes 0 / small / 32-bit); generated pipelines of 2-9 stochastic real models (1-3 readouts, CCD/CMOS, optional per-model seeds) run as exposure, sequential "
        "observation, dask observation (synchronous, threads 2..16) and calibration (optimiser seed and pipeline seed from "
        "{0, upper bound, small, anywhere in range}; 0 for each of them is always present); non-trivial = the seeded output "
        "differs between two different seeds (models) / the pipeline holds >= 2 stochastic models (modes); distinct = "
        "distinct (function, variant, seed) and (mode, pipeline, seed, scheduler) signatures")
ASSUMPTIONS = [
    "reproducibility across machines / NumPy versions is out of scope; pygmo's C++ generator is trusted to honour its seed",
    "a fault injected into a draw is an exception raised by the numpy.random attribute the model resolves at call time",
    "pulse_processing: the optional pre-computed gap table (Ddata_*.npy, absent from the repository) is supplied in "
    "memory so that the model reaches its seeded section in seconds; the unmodified call is also tried under a hard "
    "timeout and listed as skipped when it does not finish",
    "a seed()/set_state() call by pyxel code outside the seeding helper is a leak only when the same code does not "
    "put the previous state back (the statement forbids the effect, not the spelling)",
]
REQUIRED_COUNTERS = ["models_exercised", "model_repro_checks", "model_state_checks", "model_error_state_checks",
                     "model_fault_hits", "model_unseeded_checks", "exposure_pairs", "obs_seq_pairs",
                     "obs_dask_threads_pairs", "obs_dask_sync_pairs", "calibration_pairs", "mode_state_checks",
                     "recorder_helper_seed_calls", "pulse_seeded_section_reached", "embedded_pairs",
                     "calibration_pygmo_seed_zero_pairs", "calibration_pipeline_seed_zero_pairs"]
TIMEOUT = {"quick": 900, "thorough": 5400}
LEVEL_TEXT = ("Exploration by runtime monitoring: every seed-taking model function is executed under a harness-side "
              "post-condition (same output from two prior generator states, generator state restored on return, on "
              "provoked errors and on an injected draw fault); seeded exposure / observation (sequential, dask "
              "synchronous and threads) / calibration runs of generated stochastic pipelines are repeated from "
              "different generator states and compared bit for bit; numpy.random.seed / set_state are wrapped for "
              "the whole worker life and every call is attributed to its caller.")
LEVEL_NOTE = ("Trusted: numpy.random.get_state() as the observation of the process-wide generator; the synthetic gap "
              "table used to make pulse_processing terminate. Models whose inputs could not be synthesised or that "
              "did not finish are listed under observed.skipped_models.")

MIN_MODELS = 10
BUCKETS = ("photon", "charge", "pixel", "signal", "image", "phase")


# =============================================================================== generator-state helpers
def state_tuple(st):
    """Normalise numpy's legacy state (tuple or dict form) to (name, key-bytes, pos, has_gauss, gauss)."""
    if isinstance(st, dict):
        inner = st.get("state", {})
        return (str(st.get("bit_generator")), np.asarray(inner.get("key")).tobytes(), int(inner.get("pos", -1)),
                int(st.get("has_gauss", 0)), float(st.get("gauss", 0.0)))
    return (str(st[0]), np.asarray(st[1]).tobytes(), int(st[2]), int(st[3]), float(st[4]))


def same_state(a, b) -> bool:
    a, b = state_tuple(a), state_tuple(b)
    if a[:4] != b[:4]:
        return False
    return a[3] == 0 or a[4] == b[4]  # the cached Gaussian only exists when has_gauss is set


def describe_state_change(a, b) -> str:
    a, b = state_tuple(a), state_tuple(b)
    parts = []
    if a[1] != b[1]:
        parts.append("key differs")
    if a[2] != b[2]:
        parts.append(f"pos {a[2]} -> {b[2]}")
    if a[3] != b[3] or (a[3] and a[4] != b[4]):
        parts.append(f"cached gaussian ({a[3]}, {a[4]!r}) -> ({b[3]}, {b[4]!r})")
    return ", ".join(parts) or "?"


def set_prior(kind: int, x: int) -> None:
    """Put the process-wide generator into one of several unrelated states."""
    np.random.seed(x % (2**32))
    if kind % 3 == 1:
        np.random.random(1 + x % 7)
    elif kind % 3 == 2:
        np.random.poisson(3.0, size=2 + x % 5)
        np.random.normal()  # leaves a cached Gaussian behind: restoring must bring it back, too


# =============================================================================== M3: recording wrappers
class RngMonitor:
    """numpy.random.seed / set_state replaced as module attributes by recording wrappers."""

    def __init__(self):
        self.lock = threading.Lock()
        self.installed = False
        self.helper_files: set[str] = set()
        self.pyxel_dir = ""
        self.helper_seed_calls = 0
        self.helper_set_state_calls = 0
        self.sections: dict[int, int] = {}      # thread id -> open seeded sections (helper seed() minus set_state())
        self.pending: dict[int, list] = {}      # thread id -> bare seed() calls of pyxel code not yet undone
        self.leaks: list[dict] = []
        self.foreign: set[str] = set()
        self._paths: dict[str, str] = {}

    def install(self):
        import numpy.random as npr
        import pyxel
        import pyxel.util

        if self.installed:
            return self
        self.pyxel_dir = os.path.dirname(os.path.realpath(pyxel.__file__)) + os.sep
        helper = inspect.unwrap(pyxel.util.set_random_seed)
        for obj in (helper, getattr(helper, "__init__", None), getattr(helper, "__enter__", None)):
            code = getattr(obj, "__code__", None)
            if code is not None:
                self.helper_files.add(os.path.realpath(code.co_filename))
        try:
            self.helper_files.add(os.path.realpath(inspect.getsourcefile(helper)))
        except TypeError:
            pass
        self.orig_seed, self.orig_set_state, self.orig_get_state = npr.seed, npr.set_state, npr.get_state
        npr.seed = self._seed
        npr.set_state = self._set_state
        self.installed = True
        return self

    # -- classification of the calling stack
    def _real(self, filename):
        r = self._paths.get(filename)
        if r is None:
            r = self._paths[filename] = os.path.realpath(filename)
        return r

    def _classify(self, frame):
        caller = frame
        cfile = self._real(caller.f_code.co_filename)
        in_helper = False
        f = frame
        depth = 0
        while f is not None and depth < 200:
            if self._real(f.f_code.co_filename) in self.helper_files:
                in_helper = True
                break
            f = f.f_back
            depth += 1
        is_pyxel = cfile.startswith(self.pyxel_dir)
        module = caller.f_globals.get("__name__", "?")
        return in_helper, is_pyxel, f"{module}.{caller.f_code.co_name}", caller.f_code

    def _seed(self, *args, **kwargs):
        in_helper, is_pyxel, who, code = self._classify(sys._getframe(1))
        tid = threading.get_ident()
        if in_helper:
            with self.lock:
                self.helper_seed_calls += 1
                self.sections[tid] = self.sections.get(tid, 0) + 1
        elif is_pyxel:
            pre = state_tuple(self.orig_get_state())
            with self.lock:
                self.pending.setdefault(tid, []).append({"who": who, "pre": pre, "what": "seed", "args": repr(args)[:60]})
        else:
            with self.lock:
                self.foreign.add(who)
        return self.orig_seed(*args, **kwargs)

    def _set_state(self, state, *args, **kwargs):
        in_helper, is_pyxel, who, code = self._classify(sys._getframe(1))
        tid = threading.get_ident()
        if in_helper:
            with self.lock:
                self.helper_set_state_calls += 1
                self.sections[tid] = max(0, self.sections.get(tid, 0) - 1)
        elif is_pyxel:
            try:
                new = state_tuple(state)
            except Exception:  # noqa: BLE001
                new = None
            with self.lock:
                pend = self.pending.get(tid, [])
                hit = next((p for p in reversed(pend) if new is not None and p["pre"][:4] == new[:4]), None)
                if hit is not None:
                    pend.remove(hit)       # the same code put the previous state back: no leak
                else:
                    self.leaks.append({"who": who, "what": "set_state"})
        else:
            with self.lock:
                self.foreign.add(who)
        return self.orig_set_state(state, *args, **kwargs)

    def section_open(self) -> bool:
        with self.lock:
            return self.sections.get(threading.get_ident(), 0) > 0

    def collect(self) -> list[dict]:
        """Leak events since the last collect (call when no workload is running)."""
        with self.lock:
            out = list(self.leaks)
            self.leaks.clear()
            for tid, pend in self.pending.items():
                out.extend({"who": p["who"], "what": "seed", "args": p["args"]} for p in pend)
                pend.clear()
            for tid in list(self.sections):
                self.sections[tid] = 0
        return out


MON = RngMonitor()


class InjectedFault(Exception):
    """Raised by the fault injector in place of a NumPy draw."""


class DrawFault:
    """Replaces the drawing functions of the numpy.random module by wrappers that raise on the first call
    made while a seeded section (as seen by the recorder) is open.  Single-threaded use only."""

    SKIP = {"seed", "get_state", "set_state"}

    def __init__(self, mon: RngMonitor):
        self.mon = mon
        self.saved: dict = {}
        self.fired: str | None = None
        self.calls = 0

    def arm(self):
        import numpy.random as npr
        owner = npr.mtrand._rand
        self.fired, self.calls = None, 0
        for name in dir(npr):
            if name in self.SKIP or name.startswith("_"):
                continue
            obj = getattr(npr, name)
            if getattr(obj, "__self__", None) is owner:
                self.saved[name] = obj
                setattr(npr, name, self._wrap(name, obj))

    def _wrap(self, name, orig):
        def draw(*args, **kwargs):
            self.calls += 1
            if self.fired is None and self.mon.section_open():
                self.fired = name
                raise InjectedFault(f"injected fault in numpy.random.{name}")
            return orig(*args, **kwargs)
        return draw

    def disarm(self):
        import numpy.random as npr
        for name, obj in self.saved.items():
            setattr(npr, name, obj)
        self.saved.clear()


class CallTimeout(Exception):
    pass


@contextlib.contextmanager
def time_limit(seconds: float):
    """Wall-clock guard for one model call (main thread only); a timeout makes the model 'skipped'."""
    if threading.current_thread() is not threading.main_thread():
        yield
        return

    def handler(signum, frame):
        raise CallTimeout(f"no result after {seconds} s")
    old = signal.signal(signal.SIGALRM, handler)
    signal.setitimer(signal.ITIMER_REAL, seconds)
    try:
        yield
    finally:
        signal.setitimer(signal.ITIMER_REAL, 0)
        signal.signal(signal.SIGALRM, old)


def report(rec, mechanism, detail, case=None, index=None):
    strict = os.environ.get("VERIF_C04_STRICT") == "1"
    for pat in OPEN_FINDINGS:
        if mechanism == pat or (pat.endswith("*") and mechanism.startswith(pat[:-1])):
            rec.count("open_findings_reproduced")
            rec.observe("open_findings", mechanism)
            if not strict:
                return
    rec.violation(mechanism, detail, case, index)


def flush_leaks(rec, case=None, index=None):
    for ev in MON.collect():
        rec.count("leak_events")
        report(rec, f"C04:leak:{ev['who']}:bare-{ev['what'].replace('_', '-')}-call",
               f"numpy.random.{ev['what']}({ev.get('args', '')}) called by {ev['who']} outside pyxel's seeding helper and "
               f"never undone: the process-wide generator is left reseeded", case, index)


# =============================================================================== detectors, buckets, snapshots
def make_detector(kind, rows, cols, temperature=None, times=(1.0,), bits=None):
    spec = build.default_detector_spec(kind, rows, cols)
    if temperature is not None:
        spec["environment"]["temperature"] = float(temperature)
    if bits:
        spec["characteristics"]["adc_bit_resolution"] = int(bits)
    det = build.make_detector(spec)
    det.set_readout(times=list(times), start_time=0.0, non_destructive=False)
    try:  # the clock of the first readout step, as the exposure loop sets it before running the models
        rp = det.readout_properties
        rp.time, rp.time_step, rp.pipeline_count = float(times[0]), float(times[0]), 0
    except Exception:  # noqa: BLE001
        pass
    return det


def prepare(det, buckets, key=0):
    g = np.random.default_rng(4000 + key)   # independent generator: the global one is not touched
    shape = det.geometry.shape
    if "photon" in buckets:
        det.photon.array = np.floor(g.uniform(20.0, 600.0, shape))
    if "charge" in buckets:
        det.charge.add_charge_array(np.floor(g.uniform(100.0, 4000.0, shape)))
    if "pixel" in buckets:
        det.pixel.array = g.uniform(100.0, 4000.0, shape)
    if "signal" in buckets:
        det.signal.array = g.uniform(0.1, 2.0, shape)


def snap(det) -> dict:
    """Public-API snapshot of everything a model may touch."""
    out = {}
    for name in BUCKETS:
        obj = getattr(det, name, None)
        if obj is None:
            continue
        try:
            out[name] = np.array(obj.array, copy=True)
        except Exception:  # noqa: BLE001 - empty container
            out[name] = None
    try:
        frame = det.charge.frame
        cols = [str(c) for c in frame.columns]
        try:
            vals = frame.to_numpy(dtype=float).copy()
        except Exception:  # noqa: BLE001
            vals = frame.astype(str).to_numpy().copy()
        out["charge.frame"] = (cols, vals)
    except Exception:  # noqa: BLE001
        out["charge.frame"] = None
    return out


def arrays_equal(x, y) -> bool:
    if x is None or y is None:
        return x is None and y is None
    x, y = np.asarray(x), np.asarray(y)
    if x.shape != y.shape or x.dtype != y.dtype:
        return False
    if x.dtype.kind in "fc":
        return bool(np.array_equal(x, y, equal_nan=True))
    return bool(np.array_equal(x, y))


def snap_diff(a: dict, b: dict):
    """Name of the first entry that differs (None when bit-identical)."""
    for k in sorted(set(a) | set(b)):
        x, y = a.get(k), b.get(k)
        if k == "charge.frame":
            if (x is None) != (y is None):
                return k
            if x is not None and (x[0] != y[0] or not arrays_equal(x[1], y[1])):
                return k
        elif not arrays_equal(x, y):
            return k
    return None


def pkg_file(*parts):
    import pyxel
    return os.path.join(os.path.dirname(os.path.realpath(pyxel.__file__)), *parts)


def write_stopping_power(tmp, name="stopping.csv"):
    path = os.path.join(tmp, name)
    if not os.path.exists(path):
        e = np.geomspace(0.01, 1000.0, 60)
        sp = 80.0 * (e / 0.08) ** 0.4 / (1.0 + (e / 0.08) ** 1.2) + 2.0
        with open(path, "w") as fh:
            fh.write("MeV,MeV / (g/cm2)\n")
            for a, b in zip(e, sp):
                fh.write(f"{a:.6g},{b:.6g}\n")
    return path


def write_spectrum(tmp, name="spectrum.txt"):
    path = os.path.join(tmp, name)
    if not os.path.exists(path):
        e = np.geomspace(1.0, 1.0e4, 40)
        flux = 1.0e3 * e ** -1.1
        np.savetxt(path, np.column_stack([e, flux]))
    return path


NGHXRG_NOISE = [{"ktc_bias_noise": {"ktc_noise": 1, "bias_offset": 2, "bias_amp": 2}},
                {"white_read_noise": {"rd_noise": 1, "ref_pixel_noise_ratio": 2}},
                {"corr_pink_noise": {"c_pink": 1.0}}, {"uncorr_pink_noise": {"u_pink": 1.0}},
                {"acn_noise": {"acn": 1.0}}, {"pca_zero_noise": {"pca0_amp": 1.0}}]


def recipes(tmp) -> dict:
    """function name -> recipe: list of variants {label, kind, shape, temperature, times, buckets, kwargs}
    and 'bad': kwargs overrides expected to make the model raise (wherever it validates)."""
    sp = write_stopping_power(tmp)
    V = dict
    out = {
        "shot_noise": {"variants": [V(label="poisson", kind="ccd", buckets=["photon"], kwargs={"type": "poisson"}),
                                    V(label="normal", kind="cmos", buckets=["photon"], kwargs={"type": "normal"})],
                       "bad": [{"type": "no-such-noise"}]},
        "simple_conversion": {"variants": [V(label="binomial", kind="ccd", buckets=["photon"], kwargs={"binomial_sampling": True}),
                                           V(label="binomial-qe", kind="cmos", buckets=["photon"],
                                             kwargs={"binomial_sampling": True, "quantum_efficiency": 0.37})],
                              "bad": [{"quantum_efficiency": 1.5}]},
        "conversion_with_qe_map": {"variants": [V(label="qe-map", kind="ccd", buckets=["photon"], files={"filename": "qe_map"},
                                                  kwargs={"binomial_sampling": True})],
                                   "bad": [{"filename": "qe_bad"}]},
        "dark_current": {"variants": [V(label="temporal", kind="ccd", buckets=[], kwargs={"figure_of_merit": 1.0}),
                                      V(label="temporal+spatial", kind="cmos", buckets=["charge"],
                                        kwargs={"figure_of_merit": 0.5, "spatial_noise_factor": 0.1}),
                                      V(label="spatial-only", kind="ccd", buckets=[],
                                        kwargs={"figure_of_merit": 1.0, "spatial_noise_factor": 0.2, "temporal_noise": False}),
                                      # moderate regime: sigma of the log-normal pattern ~0.6, every pixel gets a finite,
                                      # continuous factor (the variants above saturate the pattern to {0, inf})
                                      V(label="temporal+spatial-moderate", kind="cmos", buckets=[],
                                        kwargs={"figure_of_merit": 0.01, "spatial_noise_factor": 0.01}),
                                      V(label="spatial-only-moderate", kind="ccd", buckets=["charge"],
                                        kwargs={"figure_of_merit": 0.01, "spatial_noise_factor": 0.01, "temporal_noise": False})],
                         "bad": [{"figure_of_merit": -1.0}, {"band_gap": 1.1}]},
        "simple_dark_current": {"variants": [V(label="rate", kind="ccd", buckets=[], kwargs={"dark_rate": 20.0}),
                                             V(label="rate-apd", kind="apd", temperature=80.0, buckets=["charge"], kwargs={"dark_rate": 3.0})],
                                "bad": [{"dark_rate": -5.0}]},
        "dark_current_rule07": {"variants": [V(label="temporal", kind="cmos", temperature=140.0, buckets=[], kwargs={"cutoff_wavelength": 2.5}),
                                             V(label="temporal+spatial", kind="ccd", temperature=160.0, buckets=[],
                                               kwargs={"cutoff_wavelength": 5.0, "spatial_noise_factor": 0.1}),
                                             V(label="temporal+spatial-moderate", kind="cmos", temperature=100.0, buckets=[],
                                               kwargs={"cutoff_wavelength": 5.0, "spatial_noise_factor": 0.004})],
                                "bad": [{"spatial_noise_factor": -0.5}, {"cutoff_wavelength": 0.5}]},
        "radiation_induced_dark_current": {"variants": [V(label="shot", kind="cmos", temperature=300.0, buckets=[],
                                                          kwargs={"depletion_volume": 64.0, "annealing_time": 0.1, "displacement_dose": 500.0, "shot_noise": True}),
                                                        V(label="no-shot", kind="ccd", temperature=290.0, buckets=[],
                                                          kwargs={"depletion_volume": 64.0, "annealing_time": 0.1, "displacement_dose": 800.0, "shot_noise": False})],
                                           "bad": [{"displacement_dose": -500.0}]},
        "dark_current_saphira": {"variants": [V(label="apd", kind="apd", temperature=80.0, buckets=[], kwargs={})],
                                 "bad": [{"__temperature": 150.0}]},
        "charge_deposition": {"variants": [V(label="isotropic", kind="ccd", buckets=[], kwargs={"flux": 12.0, "stopping_power_curve": sp}),
                                           V(label="orthogonal", kind="cmos", buckets=["charge"],
                                             kwargs={"flux": 8.0, "stopping_power_curve": sp, "particle_direction": "orthogonal"})],
                              "bad": [{"stopping_power_curve": None}, {"flux": 0.0}], "cost": "medium"},
        "charge_deposition_in_mct": {"variants": [V(label="isotropic", kind="cmos", buckets=[], kwargs={"flux": 12.0, "stopping_power_curve": sp})],
                                     "bad": [{"stopping_power_curve": None}, {"flux": 0.0}], "cost": "medium"},
        "cosmix": {"variants": [V(label="stepsize", kind="ccd", shape=(8, 8), buckets=["charge"], files={"spectrum_file": "spectrum"},
                                  kwargs={"simulation_mode": "cosmic_ray", "running_mode": "stepsize", "particle_type": "proton",
                                          "initial_energy": 100.0, "particles_per_second": 12.0, "progressbar": False})],
                   "bad": [{"running_mode": "no-such-mode"}, {"spectrum_file": os.path.join(tmp, "does-not-exist.txt")}], "cost": "heavy"},
        "fixed_pattern_noise": {"variants": [V(label="factor", kind="ccd", buckets=["pixel"], kwargs={"fixed_pattern_noise_factor": 0.01}),
                                             V(label="factor-cmos", kind="cmos", buckets=["pixel"], kwargs={"fixed_pattern_noise_factor": 0.2})],
                                "bad": [{"fixed_pattern_noise_factor": None}, {"fixed_pattern_noise_factor": -1.0}]},
        "output_node_noise": {"variants": [V(label="ccd", kind="ccd", buckets=["signal"], kwargs={"std_deviation": 0.01}),
                                           V(label="apd", kind="apd", temperature=80.0, buckets=["signal"], kwargs={"std_deviation": 0.5})],
                              "bad": [{"std_deviation": -1.0}]},
        "output_node_noise_cmos": {"variants": [V(label="cmos", kind="cmos", buckets=["signal"], kwargs={"readout_noise": 5.0, "readout_noise_std": 1.0})],
                                   "bad": [{"readout_noise_std": -1.0}, {"readout_noise": float("nan"), "readout_noise_std": float("nan")}]},
        "readout_noise_saphira": {"variants": [V(label="apd", kind="apd", temperature=80.0, buckets=["signal"],
                                                 kwargs={"roic_readout_noise": 0.001, "controller_noise": 0.0005})],
                                  "bad": [{"roic_readout_noise": float("nan"), "controller_noise": -1.0}]},
        "ktc_noise": {"variants": [V(label="capacitance", kind="cmos", buckets=["signal"], kwargs={"node_capacitance": 30e-15}),
                                   V(label="capacitance-ccd", kind="ccd", temperature=120.0, buckets=["signal"], kwargs={"node_capacitance": 5e-14})],
                      "bad": [{"node_capacitance": -1.0}]},
        "nghxrg": {"variants": [V(label="all-noises", kind="cmos", shape=(10, 10), buckets=["pixel"], kwargs={"noise": NGHXRG_NOISE})],
                   "bad": [{"n_output": 33}, {"noise": [{"no_such_noise": {"x": 1.0}}]}], "cost": "medium"},
    }
    return out


def discover():
    """Every function below pyxel.models with parameters 'detector' and 'seed'."""
    import pyxel.models
    found, failed = {}, []
    for info in pkgutil.walk_packages(pyxel.models.__path__, "pyxel.models."):
        try:
            mod = importlib.import_module(info.name)
        except Exception as exc:  # noqa: BLE001
            failed.append(f"{info.name}: {type(exc).__name__}")
            continue
        for name, obj in list(vars(mod).items()):
            if inspect.isfunction(obj) and obj.__module__ == mod.__name__:
                try:
                    params = inspect.signature(obj).parameters
                except (TypeError, ValueError):
                    continue
                if "seed" in params and "detector" in params:
                    found[f"{mod.__name__}.{name}"] = obj
    return dict(sorted(found.items())), failed


def build_variant(variant, tmp):
    shape = variant.get("shape", (6, 5))
    det = make_detector(variant["kind"], shape[0], shape[1], variant.get("temperature"), variant.get("times", (1.0,)))
    kwargs = dict(variant["kwargs"])
    for arg, what in (variant.get("files") or {}).items():
        kwargs[arg] = data_file(what, tmp, shape)
    return det, kwargs


def data_file(what, tmp, shape):
    if what == "qe_map":
        path = os.path.join(tmp, f"qe_{shape[0]}x{shape[1]}.npy")
        if not os.path.exists(path):
            np.save(path, np.random.default_rng(5).uniform(0.2, 0.95, shape))
        return path
    if what == "qe_bad":
        path = os.path.join(tmp, f"qebad_{shape[0]}x{shape[1]}.npy")
        if not os.path.exists(path):
            np.save(path, np.full(shape, 1.5))
        return path
    if what == "spectrum":
        shipped = pkg_file("models", "charge_generation", "data", "proton_L2_solarMax_11mm_Shielding.txt")
        return shipped if os.path.exists(shipped) else write_spectrum(tmp)
    raise KeyError(what)


def invoke(fn, variant, tmp, seed, prior, overrides=None, fault=False, prepared=True, limit=120.0):
    """One monitored call: returns dict(snapshot, before, after, exc, injected)."""
    det, kwargs = build_variant(variant, tmp)
    if prepared:
        prepare(det, variant["buckets"])
    for k, v in (overrides or {}).items():
        if k == "__temperature":
            det.environment.temperature = v
        elif k == "filename" and v in ("qe_bad",):
            kwargs[k] = data_file(v, tmp, det.geometry.shape)
        else:
            kwargs[k] = v
    set_prior(*prior)
    helper_before = MON.helper_seed_calls
    injector = DrawFault(MON) if fault else None
    before = np.random.get_state()
    exc = None
    if injector:
        injector.arm()
    try:
        with time_limit(limit):
            fn(det, seed=seed, **kwargs)
    except CallTimeout:
        raise
    except Exception as e:  # noqa: BLE001 - any exception of the model is an 'error' outcome
        exc = e
    finally:
        if injector:
            injector.disarm()
    after = np.random.get_state()
    return {"snap": snap(det), "before": before, "after": after, "exc": exc,
            "fired": injector.fired if injector else None, "draws": injector.calls if injector else None,
            "seeded_sections": MON.helper_seed_calls - helper_before}


# =============================================================================== (1) per-function contract
def model_shard(spec, rec):
    tier = spec["tier"]
    MON.install()
    found, failed = discover()
    for f in failed:
        rec.observe("model_import_failed", f)
    rec.observe("models_discovered", len(found))
    table = recipes(rec.tmp)
    names = list(found)
    for i, qual in enumerate(names):
        if i % spec["of"] != spec["part"] or not rec.wanted(i):
            continue
        fn = found[qual]
        short = qual.rsplit(".", 1)[1]
        recipe = table.get(short)
        if recipe is None:
            rec.observe("skipped_models", f"{qual}: no recipe in vf/checks/c04.py (new model?)")
            rec.count("models_without_recipe")
            continue
        rng = rec.rng(i)
        cost = recipe.get("cost", "light")
        n_seeds = {"quick": {"light": 3, "medium": 2, "heavy": 2}, "thorough": {"light": 20, "medium": 8, "heavy": 3}}[tier][cost]
        seeds = [0] + [rng.choice([rng.randint(1, 2**31 - 1), rng.randint(2**31, 2**32 - 1), rng.randint(1, 1000)])
                       for _ in range(n_seeds - 1)]
        limit = 90.0 if tier == "quick" else 300.0
        try:
            exercised = contract(rec, i, qual, short, fn, recipe, seeds, rng, tier, limit)
        except CallTimeout as exc:
            rec.observe("skipped_models", f"{qual}: {exc}")
            rec.count("model_timeouts")
            exercised = False
        if exercised:
            rec.count("models_exercised")
            rec.observe("models_exercised", qual)
        try:
            embedded(rec, i, qual, short, recipe, rng, tier, limit)
        except CallTimeout as exc:
            rec.observe("skipped_models", f"{qual} (driven by the pipeline seed alone): {exc}")
            rec.count("model_timeouts")
        flush_leaks(rec, {"function": qual}, i)
    rec.count("recorder_helper_seed_calls", MON.helper_seed_calls)
    rec.count("recorder_helper_set_state_calls", MON.helper_set_state_calls)
    for who in MON.foreign:
        rec.observe("seed_calls_by_non_pyxel_code", who)


def contract(rec, index, qual, short, fn, recipe, seeds, rng, tier, limit) -> bool:
    tmp = rec.tmp
    ok_any = False
    variants = recipe["variants"]
    economical = tier == "quick" and recipe.get("cost") == "heavy"   # slow model: error / fault cases for the first seed only
    for vi, variant in enumerate(variants):
        per_seed = {}
        for si, seed in enumerate(seeds):
            case = {"function": qual, "variant": variant["label"], "kind": variant["kind"], "seed": seed,
                    "kwargs": {k: (v if isinstance(v, (int, float, str, bool, type(None))) else "...") for k, v in variant["kwargs"].items()}}
            priors = [(0, rng.randint(0, 2**31)), (2, rng.randint(0, 2**31))]
            try:
                a = invoke(fn, variant, tmp, seed, priors[0], limit=limit)
                b = invoke(fn, variant, tmp, seed, priors[1], limit=limit)
            except CallTimeout:
                raise
            except Exception as exc:  # noqa: BLE001 - the harness could not build the inputs
                rec.observe("skipped_models", f"{qual}[{variant['label']}]: inputs could not be prepared ({type(exc).__name__}: {str(exc)[:80]})")
                break
            if a["exc"] is not None or b["exc"] is not None:
                e = a["exc"] or b["exc"]
                rec.observe("skipped_models", f"{qual}[{variant['label']}]: valid-argument call raised {type(e).__name__}: {str(e)[:100]}")
                rec.count("model_valid_call_raised")
                # the state post-condition still applies to a call that raised
                for r in (a, b):
                    if r["exc"] is not None:
                        rec.count("model_error_state_checks")
                        if not same_state(r["before"], r["after"]):
                            report(rec, f"C04:model:{short}:global-state-changed:on-error",
                                   f"{qual}(seed={seed}) raised {type(r['exc']).__name__} and left the generator changed: "
                                   f"{describe_state_change(r['before'], r['after'])}", case, index)
                break
            ok_any = True
            rec.count("model_repro_checks")
            d = snap_diff(a["snap"], b["snap"])
            if d:
                report(rec, f"C04:model:{short}:not-reproducible",
                       f"{qual}(seed={seed}, {variant['label']}): '{d}' differs between two calls on identical detectors that "
                       f"started from different states of the global generator", case, index)
            for r in (a, b):
                rec.count("model_state_checks")
                if not same_state(r["before"], r["after"]):
                    report(rec, f"C04:model:{short}:global-state-changed",
                           f"{qual}(seed={seed}, {variant['label']}) returned normally with the global generator changed: "
                           f"{describe_state_change(r['before'], r['after'])}", case, index)
            if a["seeded_sections"] == 0:
                rec.count("model_calls_without_helper_section")
            per_seed[seed] = a["snap"]
            if economical and si > 0:
                continue

            # -- injected fault in the first draw inside a seeded section
            f = invoke(fn, variant, tmp, seed, (1, rng.randint(0, 2**31)), fault=True, limit=limit)
            if f["fired"]:
                rec.count("model_fault_hits")
                rec.observe("fault_sites", f"{short}:numpy.random.{f['fired']}")
                rec.count("model_error_state_checks")
                if f["exc"] is None:
                    rec.count("model_fault_swallowed")
                if not same_state(f["before"], f["after"]):
                    report(rec, f"C04:model:{short}:global-state-changed:on-error",
                           f"{qual}(seed={seed}, {variant['label']}): numpy.random.{f['fired']} raised inside the seeded section "
                           f"({type(f['exc']).__name__ if f['exc'] else 'swallowed'}) and the global generator was left changed: "
                           f"{describe_state_change(f['before'], f['after'])}", case, index)
            else:
                rec.count("model_fault_not_reached")
                rec.observe("fault_not_reached", f"{short}[{variant['label']}] draws={f['draws']} sections={f['seeded_sections']}")
                if not same_state(f["before"], f["after"]) and f["exc"] is None:
                    rec.count("model_state_checks")
                    report(rec, f"C04:model:{short}:global-state-changed",
                           f"{qual}(seed={seed}) returned with the generator changed: {describe_state_change(f['before'], f['after'])}", case, index)

            # -- errors provoked with invalid arguments / unprepared buckets
            provocations = [("bad-args", o, True) for o in recipe.get("bad", [])[: 1 if economical else None]]
            if variant["buckets"] and not economical:
                provocations.append(("empty-buckets", {}, False))
            for label, overrides, prepared in provocations:
                if "filename" in overrides and "filename" not in (variant.get("files") or {}):
                    continue
                ov = dict(overrides)
                e = invoke(fn, variant, tmp, seed, (rng.randint(0, 2), rng.randint(0, 2**31)), overrides=ov, prepared=prepared, limit=limit)
                if e["exc"] is None:
                    rec.count("model_invalid_input_accepted")
                    rec.count("model_state_checks")
                    mech = f"C04:model:{short}:global-state-changed"
                else:
                    rec.count("model_error_state_checks")
                    rec.count("model_errors_inside_section" if e["seeded_sections"] else "model_errors_outside_section")
                    rec.observe("error_classes", type(e["exc"]).__name__)
                    mech = f"C04:model:{short}:global-state-changed:on-error"
                if not same_state(e["before"], e["after"]):
                    shown = {k: repr(v)[:40] for k, v in overrides.items()}
                    report(rec, mech,
                           f"{qual}(seed={seed}, {label} {shown}) "
                           f"{'raised ' + type(e['exc']).__name__ if e['exc'] else 'returned'} and left the global generator changed: "
                           f"{describe_state_change(e['before'], e['after'])}", dict(case, provocation=label, overrides=shown), index)

            # -- seed=None: the call uses the global generator as it is (sanity, counted only)
            if economical:
                continue
            p = (1, rng.randint(0, 2**31))
            u1 = invoke(fn, variant, tmp, None, p, limit=limit)
            u2 = invoke(fn, variant, tmp, None, p, limit=limit)
            rec.count("model_unseeded_checks")
            if u1["exc"] is None and u2["exc"] is None:
                rec.count("model_unseeded_same_state_agree" if snap_diff(u1["snap"], u2["snap"]) is None else "model_unseeded_same_state_disagree")
                rec.count("model_unseeded_advances_global" if not same_state(u1["before"], u1["after"]) else "model_unseeded_leaves_global")

        # non-triviality: the output depends on the seed
        snaps = list(per_seed.items())
        sensitive = any(snap_diff(snaps[0][1], s) for _, s in snaps[1:]) if len(snaps) > 1 else False
        if snaps and not sensitive:
            rec.observe("seed_insensitive_variants", f"{short}[{variant['label']}]")
        for seed, _ in snaps:
            rec.case(("model", qual, variant["label"], seed), sensitive,
                     sample={"function": qual, "variant": variant["label"], "seed": seed})
        if tier == "quick" and recipe.get("cost") == "heavy":
            break
    return ok_any


# =============================================================================== (1b) every model x option under the pipeline seed alone
def embedded_pipeline(qual, variant, tmp):
    """A pipeline whose only stochastic model is `qual` with the arguments of the recipe variant and NO seed argument:
    deterministic feeders fill the buckets the model reads, deterministic followers carry its output to the image."""
    P = "pyxel.models."
    group = qual.split(".")[2]
    shape = variant.get("shape", (6, 5))
    kwargs = dict(variant["kwargs"])
    kwargs.pop("seed", None)
    for arg, what in (variant.get("files") or {}).items():
        kwargs[arg] = data_file(what, tmp, shape)
    pspec = {"photon_collection": [{"name": "illumination", "func": P + "photon_collection.illumination", "arguments": {"level": 500.0}}],
             "charge_generation": [{"name": "conversion", "func": P + "charge_generation.simple_conversion",
                                    "arguments": {"binomial_sampling": False}}],
             "charge_collection": [{"name": "collection", "func": P + "charge_collection.simple_collection", "arguments": {}}],
             "charge_measurement": [{"name": "measurement", "func": P + "charge_measurement.simple_measurement", "arguments": {}}],
             "readout_electronics": [{"name": "adc", "func": P + "readout_electronics.simple_adc", "arguments": {}}]}
    model = {"name": "under_test", "func": qual, "arguments": kwargs}
    if group == "charge_generation" and "photon" in variant["buckets"]:
        pspec[group] = [model]          # the model under test is itself the photon -> charge conversion
    else:
        pspec.setdefault(group, []).append(model)
    return {g: pspec[g] for g in build.GROUPS if g in pspec}


def embedded(rec, index, qual, short, recipe, rng, tier, limit):
    """Statement, first sentence, for the smallest pipelines: for every seed-taking model and every stochastic option
    of the recipe table, an exposure whose randomness comes from this one model, which has no seed of its own, is run
    with a pipeline seed from different prior generator states -- bit-identical results, generator restored."""
    import pyxel
    from pyxel.exposure import Exposure, Readout
    heavy = recipe.get("cost") == "heavy"
    for variant in recipe["variants"][: 1 if (heavy and tier == "quick") else None]:
        label = variant["label"]
        shape = variant.get("shape", (6, 5))
        dspec = build.default_detector_spec(variant["kind"], shape[0], shape[1])
        if variant.get("temperature") is not None:
            dspec["environment"]["temperature"] = float(variant["temperature"])
        times = [1.0] if (heavy and tier == "quick") else rng.choice([[1.0], [1.0, 2.5], [0.5, 1.0, 2.0]])
        pseed = rng.choice([0, rng.randint(1, 2**32 - 1), rng.randint(1, 99999)])
        other = rng.choice([s for s in (0, rng.randint(1, 2**32 - 1), rng.randint(1, 99999)) if s != pseed])
        try:
            pspec = embedded_pipeline(qual, variant, rec.tmp)
        except Exception as exc:  # noqa: BLE001 - the harness could not build the inputs
            rec.count("embedded_refused")
            rec.observe("embedded_refused", f"{short}[{label}]: inputs could not be prepared ({type(exc).__name__})")
            continue
        case = {"mode": "exposure", "pipeline": pspec, "kind": variant["kind"], "rows": shape[0], "cols": shape[1],
                "temperature": dspec["environment"]["temperature"], "times": times, "pipeline_seed": pseed,
                "function": qual, "variant": label}
        repeats = 2 if tier == "quick" else 3
        outs = []
        for rep, seed_ in enumerate([pseed] * repeats + [other]):
            set_prior(rep + rng.randint(0, 2), rng.randint(0, 2**31))
            before = np.random.get_state()
            try:
                with time_limit(limit):
                    tree = pyxel.run_mode(mode=Exposure(readout=Readout(times=list(times), non_destructive=False), pipeline_seed=seed_),
                                          detector=build.make_detector(dspec), pipeline=build.make_pipeline(pspec),
                                          with_inherited_coords=True)
                    arrays = tree_arrays(tree)
            except CallTimeout:
                raise
            except Exception as exc:  # noqa: BLE001 - the model (or a follower) refuses this embedding: counted, state still checked
                rec.count("embedded_refused")
                rec.observe("embedded_refused", f"{short}[{label}]: {type(exc).__name__}: {str(exc).splitlines()[0][:100] if str(exc) else ''}")
                check_state(rec, "exposure", before, np.random.get_state(),
                            f"exposure of a pipeline with {short}[{label}] raised {type(exc).__name__}", case, index)
                outs = []
                break
            check_state(rec, "exposure", before, np.random.get_state(), f"exposure of a pipeline with {short}[{label}] #{rep}", case, index)
            outs.append(arrays)
        if not outs:
            continue
        for again in outs[1:repeats]:
            rec.count("embedded_pairs")
            d = dict_diff(outs[0], again)
            if d:
                report(rec, f"C04:pipeline-seed-only:{short}:not-reproducible",
                       f"'{d}' differs between two exposures (pipeline_seed={pseed}, {len(times)} readouts) of a pipeline whose only "
                       f"stochastic model is {qual} ({label}: {repr(pspec[qual.split('.')[2]][-1]['arguments'])[:200]}) without a seed "
                       f"argument of its own: the pipeline seed does not control all of the model's randomness", case, index)
        sensitive = dict_diff(outs[0], outs[-1]) is not None
        if not sensitive:
            rec.observe("embedded_seed_insensitive", f"{short}[{label}]")
        rec.observe("embedded_models", short)
        rec.case(("embedded", qual, label, pseed, times), sensitive,
                 sample={"mode": "exposure", "only_stochastic_model": qual, "variant": label, "pipeline_seed": pseed, "times": times})


# =============================================================================== (2) mode level
def gen_pipeline(rng, kind, bits):
    """A pipeline of real models, >= 2 of them stochastic; returns (pspec, list of stochastic model keys)."""
    P = "pyxel.models."
    stoch = []
    pc = [{"name": "illumination", "func": P + "photon_collection.illumination", "arguments": {"level": float(rng.choice([80, 300, 1200, 5000]))}}]
    if rng.random() < 0.85:
        pc.append({"name": "shot_noise", "func": P + "photon_collection.shot_noise", "arguments": {"type": rng.choice(["poisson", "poisson", "normal"])}})
        stoch.append(("photon_collection", "shot_noise"))
    binom = rng.random() < 0.8 or not stoch
    cgen = [{"name": "conversion", "func": P + "charge_generation.simple_conversion",
             "arguments": {"binomial_sampling": binom, "quantum_efficiency": round(rng.uniform(0.4, 0.95), 3)}}]
    if binom:
        stoch.append(("charge_generation", "conversion"))
    extras = [("dark_current", {"figure_of_merit": round(rng.uniform(0.001, 0.05), 4),
                                **({"spatial_noise_factor": rng.choice([0.002, 0.01, 0.1])} if rng.random() < 0.5 else {})}),
              ("simple_dark_current", {"dark_rate": round(rng.uniform(1.0, 200.0), 2)}),
              ("radiation_induced_dark_current", {"depletion_volume": 64.0, "annealing_time": 0.1,
                                                  "displacement_dose": float(rng.choice([200, 500, 900])), "shot_noise": rng.random() < 0.7})]
    for name, args in extras:
        if rng.random() < 0.4:
            cgen.append({"name": name, "func": P + "charge_generation." + name, "arguments": args})
            stoch.append(("charge_generation", name))
    ccol = [{"name": "collection", "func": P + "charge_collection.simple_collection", "arguments": {}}]
    if rng.random() < 0.5:
        ccol.append({"name": "fpn", "func": P + "charge_collection.fixed_pattern_noise",
                     "arguments": {"fixed_pattern_noise_factor": rng.choice([0.01, 0.05, 0.2])}})
        stoch.append(("charge_collection", "fpn"))
    cmeas = [{"name": "measurement", "func": P + "charge_measurement.simple_measurement", "arguments": {}}]
    if rng.random() < 0.6:
        cmeas.append({"name": "node_noise", "func": P + "charge_measurement.output_node_noise",
                      "arguments": {"std_deviation": rng.choice([1e-4, 1e-3, 1e-2])}})
        stoch.append(("charge_measurement", "node_noise"))
    if rng.random() < 0.5:
        cmeas.append({"name": "ktc", "func": P + "charge_measurement.ktc_noise", "arguments": {"node_capacitance": rng.choice([3e-14, 5e-14])}})
        stoch.append(("charge_measurement", "ktc"))
    if kind == "cmos" and rng.random() < 0.5:
        cmeas.append({"name": "node_noise_cmos", "func": P + "charge_measurement.output_node_noise_cmos",
                      "arguments": {"readout_noise": 5.0, "readout_noise_std": 1.0}})
        stoch.append(("charge_measurement", "node_noise_cmos"))
    if rng.random() < 0.3:
        ro = [{"name": "adc", "func": P + "readout_electronics.sar_adc_with_noise",
               "arguments": {"strengths": [0.0] * bits, "noises": [round(rng.uniform(0.0, 0.05), 3) for _ in range(bits)]}}]
        noisy_adc = True
    else:
        ro = [{"name": "adc", "func": P + "readout_electronics.simple_adc", "arguments": {}}]
        noisy_adc = False
    pspec = {"photon_collection": pc, "charge_generation": cgen, "charge_collection": ccol,
             "charge_measurement": cmeas, "readout_electronics": ro}
    return pspec, stoch, noisy_adc


def gen_config(rng, allow_unseeded_pipeline=True):
    kind = rng.choice(["ccd", "cmos"])
    bits = rng.choice([8, 12, 16])
    pspec, stoch, noisy_adc = gen_pipeline(rng, kind, bits)
    while len(stoch) + (1 if noisy_adc else 0) < 2:
        pspec, stoch, noisy_adc = gen_pipeline(rng, kind, bits)
    style = rng.choice(["pipeline-seed", "pipeline-seed", "pipeline-seed", "mixed", "mixed", "model-seeds-only"])
    if style == "model-seeds-only" and (noisy_adc or not allow_unseeded_pipeline):
        style = "mixed"
    model_seeds = {}
    for group, name in stoch:
        give = style == "model-seeds-only" or (style == "mixed" and rng.random() < 0.5)
        if give:
            model_seeds[f"{group}.{name}"] = rng.choice([0, rng.randint(1, 2**32 - 1)])
    for group, models in pspec.items():
        for m in models:
            key = f"{group}.{m['name']}"
            if key in model_seeds:
                m["arguments"]["seed"] = model_seeds[key]
    times = rng.choice([[1.0], [1.0], [1.0, 2.5], [0.5, 1.0, 2.0]])
    cfg = {"kind": kind, "bits": bits, "rows": rng.randint(3, 9), "cols": rng.randint(3, 9), "pipeline": pspec, "times": times,
           "non_destructive": len(times) > 1 and rng.random() < 0.3,
           "pipeline_seed": None if style == "model-seeds-only" else rng.choice([0, rng.randint(1, 2**32 - 1), rng.randint(1, 99999)]),
           "style": style, "n_stochastic": len(stoch) + (1 if noisy_adc else 0),
           "temperature": rng.choice([250.0, 280.0, 300.0])}
    return cfg


def cfg_detector(cfg):
    spec = build.default_detector_spec(cfg["kind"], cfg["rows"], cfg["cols"])
    spec["environment"]["temperature"] = cfg["temperature"]
    spec["characteristics"]["adc_bit_resolution"] = cfg["bits"]
    return build.make_detector(spec)


def cfg_readout(cfg):
    from pyxel.exposure import Readout
    return Readout(times=list(cfg["times"]), non_destructive=cfg["non_destructive"])


def tree_arrays(tree) -> dict:
    """Every data variable of every node of the result tree as a NumPy array."""
    out = {}
    for node in tree.subtree:
        ds = node.to_dataset(inherit=False) if hasattr(node, "to_dataset") else node.ds
        for name, var in ds.data_vars.items():
            try:
                out[f"{node.path.rstrip('/')}/{name}"] = np.asarray(var.values)
            except Exception as exc:  # noqa: BLE001
                out[f"{node.path.rstrip('/')}/{name}"] = np.array(f"<unreadable: {type(exc).__name__}>")
    return out


def dict_diff(a: dict, b: dict):
    if sorted(a) != sorted(b):
        return f"variables differ: {sorted(set(a) ^ set(b))[:4]}"
    for k in sorted(a):
        if a[k].dtype.kind in "OUS":
            if a[k].shape != b[k].shape or not np.array_equal(a[k], b[k]):
                return k
        elif not arrays_equal(a[k], b[k]):
            return k
    return None


def unrelated_activity(rng, tier):
    """Something else happening in the process between two seeded runs."""
    import pyxel
    from pyxel.exposure import Exposure, Readout
    choice = rng.randint(0, 3)
    if choice == 0:
        np.random.seed(rng.randint(0, 2**31))
        np.random.normal(size=rng.randint(1, 50))
    elif choice == 1:
        np.random.poisson(5.0, size=rng.randint(1, 9))
    else:
        other = gen_config(rng)
        if choice == 2:
            other["pipeline_seed"] = None  # an unseeded run: consumes the global generator
        det = cfg_detector(other)
        pyxel.run_mode(mode=Exposure(readout=Readout(times=list(other["times"]), non_destructive=other["non_destructive"]),
                                     pipeline_seed=other["pipeline_seed"]),
                       detector=det, pipeline=build.make_pipeline(other["pipeline"]), with_inherited_coords=True)
    return choice


def check_state(rec, mode, before, after, what, case, index):
    rec.count("mode_state_checks")
    if not same_state(before, after):
        report(rec, f"C04:mode:{mode}:global-state-changed",
               f"{what}: numpy.random state changed across a fully seeded run ({describe_state_change(before, after)})", case, index)
        return False
    return True


def exposure_case(rec, index, rng, tier):
    import pyxel
    from pyxel.exposure import Exposure
    cfg = gen_config(rng)
    case = {"mode": "exposure", **cfg}
    results = []
    for rep in range(2 if tier == "quick" else 3):
        set_prior(rep + rng.randint(0, 2), rng.randint(0, 2**31))
        before = np.random.get_state()
        try:
            tree = pyxel.run_mode(mode=Exposure(readout=cfg_readout(cfg), pipeline_seed=cfg["pipeline_seed"]), detector=cfg_detector(cfg),
                                  pipeline=build.make_pipeline(cfg["pipeline"]), with_inherited_coords=True)
            arrays = tree_arrays(tree)
        except Exception as exc:  # noqa: BLE001
            after = np.random.get_state()
            rec.count("mode_runs_failed")
            rec.observe("mode_run_failures", f"exposure: {type(exc).__name__}: {str(exc)[:120]}")
            check_state(rec, "exposure", before, after, f"exposure run raised {type(exc).__name__}", case, index)
            return
        after = np.random.get_state()
        check_state(rec, "exposure", before, after, f"exposure run #{rep}", case, index)
        results.append(arrays)
        rec.observe("unrelated_activity", unrelated_activity(rng, tier))
    for other in results[1:]:
        rec.count("exposure_pairs")
        d = dict_diff(results[0], other)
        if d:
            report(rec, "C04:mode:exposure:not-reproducible",
                   f"'{d}' differs between two exposures of the same configuration (pipeline_seed={cfg['pipeline_seed']}, "
                   f"{cfg['style']}, {len(cfg['times'])} readouts) started from different generator states", case, index)
    rec.observe("exposure_styles", cfg["style"])
    rec.observe("readouts", len(cfg["times"]))
    rec.case(("exposure", cfg["pipeline"], cfg["pipeline_seed"], cfg["times"], cfg["kind"]), cfg["n_stochastic"] >= 2,
             sample={"mode": "exposure", "pipeline_seed": cfg["pipeline_seed"], "style": cfg["style"], "times": cfg["times"],
                     "models": [m["name"] for g in cfg["pipeline"].values() for m in g]})


def obs_parameters(rng, cfg, n):
    from pyxel.observation import ParameterValues
    levels = sorted(rng.sample([40.0, 90.0, 150.0, 300.0, 450.0, 700.0, 1100.0, 1600.0, 2400.0, 3600.0, 5200.0, 8000.0], n))
    params = [("pipeline.photon_collection.illumination.arguments.level", levels)]
    if rng.random() < 0.35 and n <= 6:
        params.append(("pipeline.charge_generation.conversion.arguments.quantum_efficiency", [0.5, 0.8]))
    return params, [ParameterValues(key=k, values=v) for k, v in params]


def observation_case(rec, index, rng, tier):
    import dask
    import pyxel
    from pyxel.observation import Observation
    cfg = gen_config(rng, allow_unseeded_pipeline=False)
    # ---------------- sequential
    n = rng.randint(2, 4)
    params, _ = obs_parameters(rng, cfg, n)
    case = {"mode": "obs_seq", **cfg, "parameters": params}

    def make(dask_on, plist):
        from pyxel.observation import ParameterValues
        return Observation(parameters=[ParameterValues(key=k, values=list(v)) for k, v in plist], readout=cfg_readout(cfg),
                           with_dask=dask_on, pipeline_seed=cfg["pipeline_seed"])

    results = []
    for rep in range(2):
        set_prior(rep + rng.randint(0, 2), rng.randint(0, 2**31))
        before = np.random.get_state()
        try:
            tree = pyxel.run_mode(mode=make(False, params), detector=cfg_detector(cfg), pipeline=build.make_pipeline(cfg["pipeline"]),
                                  with_inherited_coords=True)
            arrays = tree_arrays(tree)
        except Exception as exc:  # noqa: BLE001
            rec.count("mode_runs_failed")
            rec.observe("mode_run_failures", f"obs_seq: {type(exc).__name__}: {str(exc)[:120]}")
            check_state(rec, "obs_seq", before, np.random.get_state(), f"sequential observation raised {type(exc).__name__}", case, index)
            results = []
            break
        check_state(rec, "obs_seq", before, np.random.get_state(), f"sequential observation #{rep}", case, index)
        results.append(arrays)
        rec.observe("unrelated_activity", unrelated_activity(rng, tier))
    if len(results) == 2:
        rec.count("obs_seq_pairs")
        d = dict_diff(results[0], results[1])
        if d:
            report(rec, "C04:mode:obs_seq:not-reproducible",
                   f"'{d}' differs between two sequential observations of the same configuration (pipeline_seed={cfg['pipeline_seed']}, "
                   f"{cfg['style']}) started from different generator states", case, index)
        rec.case(("obs_seq", cfg["pipeline"], cfg["pipeline_seed"], params), cfg["n_stochastic"] >= 2,
                 sample={"mode": "obs_seq", "pipeline_seed": cfg["pipeline_seed"], "parameters": params, "style": cfg["style"]})

    # ---------------- dask
    n = rng.randint(6, 10)
    params, _ = obs_parameters(rng, cfg, n)
    big = dict(cfg, rows=rng.randint(8, 20), cols=rng.randint(8, 20))
    case = {"mode": "obs_dask", **big, "parameters": params}
    pool = [("threads", w) for w in (2, 3, 4, 8, 16)]
    scheds = [("threads", 16), rng.choice(pool[:4]), ("synchronous", None)]
    if tier == "thorough":
        scheds += [rng.choice(pool), rng.choice(pool)]
    reference = {}
    for sched, workers in scheds:
        mode_tag = "obs_dask_threads" if sched == "threads" else "obs_dask_sync"
        c = dict(case, scheduler=sched, workers=workers)
        computed = []
        for rep in range(2):
            set_prior(rep + rng.randint(0, 2), rng.randint(0, 2**31))
            before = np.random.get_state()
            try:
                lazy = pyxel.run_mode(mode=make(True, params), detector=cfg_detector(big), pipeline=build.make_pipeline(big["pipeline"]),
                                      with_inherited_coords=True)
                ds = lazy["/bucket"].to_dataset()
            except Exception as exc:  # noqa: BLE001
                rec.count("mode_runs_failed")
                rec.observe("mode_run_failures", f"{mode_tag}: {type(exc).__name__}: {str(exc)[:120]}")
                check_state(rec, mode_tag, before, np.random.get_state(), f"building the dask observation raised {type(exc).__name__}", c, index)
                break
            check_state(rec, mode_tag, before, np.random.get_state(), "building the dask observation (metadata run)", c, index)
            set_prior(rng.randint(0, 2), rng.randint(0, 2**31))
            before = np.random.get_state()
            kwargs = {"scheduler": sched, **({"num_workers": workers} if workers else {})}
            try:
                with dask.config.set(**kwargs):
                    got = ds.compute()
            except Exception as exc:  # noqa: BLE001
                rec.count("mode_runs_failed")
                rec.observe("mode_run_failures", f"{mode_tag}: compute {type(exc).__name__}: {str(exc)[:120]}")
                check_state(rec, mode_tag, before, np.random.get_state(), f"compute raised {type(exc).__name__}", c, index)
                break
            check_state(rec, mode_tag, before, np.random.get_state(), f"compute under {sched}/{workers} #{rep}", c, index)
            computed.append({k: np.asarray(v.values) for k, v in got.data_vars.items()})
        if len(computed) == 2:
            rec.count(f"{mode_tag}_pairs")
            d = dict_diff(computed[0], computed[1])
            if d is None and reference:
                d = dict_diff(reference["arrays"], computed[0])
                if d:
                    d = f"{d} (vs the result under {reference['sched']})"
            if d:
                report(rec, f"C04:mode:{mode_tag}:not-reproducible",
                       f"'{d}' differs between two dask observations of the same configuration (pipeline_seed={cfg['pipeline_seed']}, "
                       f"{len(params[0][1])} runs, {sched}/{workers})", c, index)
            if not reference:
                reference = {"arrays": computed[0], "sched": f"{sched}/{workers}"}
            rec.observe("schedulers", f"{sched}/{workers}")
            rec.case((mode_tag, cfg["pipeline"], cfg["pipeline_seed"], params, sched, workers), cfg["n_stochastic"] >= 2,
                     sample={"mode": mode_tag, "pipeline_seed": cfg["pipeline_seed"], "workers": workers, "runs": len(params[0][1])})


def calibration_pipeline(rng, model_seeds=False):
    P = "pyxel.models."
    s = (lambda: {"seed": rng.randint(1, 99999)}) if model_seeds else (lambda: {})
    pspec = {
        "photon_collection": [{"name": "illumination", "func": P + "photon_collection.illumination", "arguments": {"level": 300.0}},
                              {"name": "shot_noise", "func": P + "photon_collection.shot_noise", "arguments": {**s()}}],
        "charge_generation": [{"name": "conversion", "func": P + "charge_generation.simple_conversion",
                               "arguments": {"binomial_sampling": True, "quantum_efficiency": 0.8, **s()}}],
        "charge_collection": [{"name": "collection", "func": P + "charge_collection.simple_collection", "arguments": {}}],
        "charge_measurement": [{"name": "measurement", "func": P + "charge_measurement.simple_measurement", "arguments": {}},
                               {"name": "node_noise", "func": P + "charge_measurement.output_node_noise",
                                "arguments": {"std_deviation": 1e-4, **s()}}],
        "readout_electronics": [{"name": "adc", "func": P + "readout_electronics.simple_adc", "arguments": {}}],
    }
    return pspec


def run_calibration(cfg, pspec, tmp, want_simulated):
    import pyxel
    from pyxel.calibration import Algorithm, Calibration
    from pyxel.observation import ParameterValues
    from pyxel.pipelines import FitnessFunction
    rows, cols = cfg["rows"], cfg["cols"]
    params = [ParameterValues(key="pipeline.photon_collection.illumination.arguments.level", values="_", boundaries=(10.0, 2000.0))]
    if cfg["two_params"]:
        params.append(ParameterValues(key="pipeline.charge_generation.conversion.arguments.quantum_efficiency", values="_",
                                      boundaries=(0.2, 1.0)))
    cal = Calibration(
        target_data_path=[cfg["target"]], fitness_function=FitnessFunction(func="pyxel.calibration.fitness.sum_of_abs_residuals"),
        algorithm=Algorithm(type=cfg["algorithm"], generations=cfg["generations"], population_size=8),
        parameters=params, result_type=cfg["result_type"], result_fit_range=(0, rows, 0, cols), target_fit_range=(0, rows, 0, cols),
        pygmo_seed=cfg["pygmo_seed"], pipeline_seed=cfg["pipeline_seed"], num_islands=cfg["islands"], num_evolutions=cfg["evolutions"])
    det = build.make_detector(build.default_detector_spec("ccd", rows, cols))
    tree = pyxel.run_mode(mode=cal, detector=det, pipeline=build.make_pipeline(pspec), with_inherited_coords=True)
    ch = tree["/champion"].to_dataset()
    out = {f"/champion/{k}": np.asarray(ch[k].values) for k in ("fitness", "decision", "parameters")}
    if want_simulated:
        sim = tree["/simulated"].to_dataset()
        for k in ("pixel", "signal", "image"):
            if k in sim:
                out[f"/simulated/{k}"] = np.asarray(sim[k].compute().values)
    return out


def seed_class(rng, upper, forced_zero=False):
    """A seed drawn from the classes of the documented range [0, upper]: the two boundaries, small, anywhere."""
    drawn = rng.choice([0, upper, rng.randint(1, 9999), rng.randint(0, upper), rng.randint(0, upper)])
    return 0 if forced_zero else drawn


def calibration_case(rec, index, rng, tier, stratum=0):
    rows, cols = rng.randint(3, 5), rng.randint(3, 5)
    target = os.path.join(rec.tmp, f"target_{index}.npy")
    result_type = rng.choice(["pixel", "signal"])
    scale = 1.0 if result_type == "pixel" else 1.0e-5
    np.save(target, (200.0 + 40.0 * np.random.default_rng(index).random((rows, cols))) * scale)
    cfg = {"rows": rows, "cols": cols, "target": target, "result_type": result_type, "two_params": rng.random() < 0.5,
           "algorithm": rng.choice(["sade", "sade", "sga"]), "generations": rng.randint(1, 2), "islands": rng.choice([1, 2, 2, 3]),
           "evolutions": rng.choice([1, 2]),
           # both seeds of the mode are quantified over their whole documented range; the boundary value 0 (a valid seed
           # that is falsy) is a stratum of its own: (index + shard stratum) % 3 == 0 -> optimiser seed 0, == 1 -> pipeline seed 0
           "pygmo_seed": seed_class(rng, 100000, forced_zero=(index + stratum) % 3 == 0),
           "pipeline_seed": seed_class(rng, 2**32 - 1, forced_zero=(index + stratum) % 3 == 1)}
    case = {"mode": "calibration", **{k: v for k, v in cfg.items() if k != "target"}}
    pspec = calibration_pipeline(rng)
    want_sim = rng.random() < 0.5

    def pair(spec_, tag):
        outs = []
        for rep in range(2):
            set_prior(rep + rng.randint(0, 2), rng.randint(0, 2**31))
            before = np.random.get_state()
            try:
                with time_limit(600.0):
                    outs.append(run_calibration(cfg, spec_, rec.tmp, want_sim))
            except Exception as exc:  # noqa: BLE001
                rec.count("mode_runs_failed")
                rec.observe("mode_run_failures", f"calibration: {type(exc).__name__}: {str(exc)[:160]}")
                check_state(rec, "calibration", before, np.random.get_state(), f"calibration raised {type(exc).__name__}", case, index)
                return None
            check_state(rec, "calibration", before, np.random.get_state(), f"calibration #{rep} ({tag})", case, index)
            if rep == 0:
                rec.observe("unrelated_activity", unrelated_activity(rng, tier))
        return outs

    outs = pair(pspec, "pipeline seed")
    if outs is None:
        return
    rec.count("calibration_pairs")
    d = dict_diff(outs[0], outs[1])
    if d:
        # is the pipeline seed what is missing?  the same calibration with explicit model seeds
        diag = pair(calibration_pipeline(rng, model_seeds=True), "explicit model seeds (diagnosis)")
        if diag is not None and dict_diff(diag[0], diag[1]) is None:
            report(rec, "C04:calibration:pipeline-seed-dropped",
                   f"'{d}' differs between two calibrations with pygmo_seed={cfg['pygmo_seed']} and pipeline_seed={cfg['pipeline_seed']}; "
                   f"with an explicit seed argument on every stochastic model the two runs agree, so the pipeline seed does not reach "
                   f"the pipelines run by the optimiser ({outs[0][d].ravel()[:3]} vs {outs[1][d].ravel()[:3]})", case, index)
        else:
            report(rec, "C04:mode:calibration:not-reproducible",
                   f"'{d}' differs between two calibrations with pygmo_seed={cfg['pygmo_seed']} and pipeline_seed={cfg['pipeline_seed']} "
                   f"({outs[0][d].ravel()[:3]} vs {outs[1][d].ravel()[:3]})", case, index)
    rec.observe("calibration_variables", sorted(outs[0]))
    rec.observe("calibration_islands", cfg["islands"])
    rec.observe("calibration_seed_classes", f"pygmo:{'zero' if cfg['pygmo_seed'] == 0 else 'upper' if cfg['pygmo_seed'] == 100000 else 'inner'}")
    rec.observe("calibration_seed_classes", f"pipeline:{'zero' if cfg['pipeline_seed'] == 0 else 'upper' if cfg['pipeline_seed'] == 2**32 - 1 else 'inner'}")
    if cfg["pygmo_seed"] == 0:
        rec.count("calibration_pygmo_seed_zero_pairs")
    if cfg["pipeline_seed"] == 0:
        rec.count("calibration_pipeline_seed_zero_pairs")
    rec.case(("calibration", cfg["pygmo_seed"], cfg["pipeline_seed"], cfg["islands"], cfg["algorithm"], cfg["evolutions"]), True,
             sample=case)


def mode_shard(spec, rec):
    MON.install()
    fn = {"exposure": exposure_case, "observation": observation_case, "calibration": calibration_case}[spec["kind"]]
    for i in range(spec["n"]):
        if not rec.wanted(i):
            continue
        if spec["kind"] == "calibration":
            fn(rec, i, rec.rng(i), spec["tier"], stratum=int(spec.get("stratum", 0)))
        else:
            fn(rec, i, rec.rng(i), spec["tier"])
        flush_leaks(rec, {"mode": spec["kind"], "index": i}, i)
    rec.count("recorder_helper_seed_calls", MON.helper_seed_calls)
    rec.count("recorder_helper_set_state_calls", MON.helper_set_state_calls)
    for who in MON.foreign:
        rec.observe("seed_calls_by_non_pyxel_code", who)


# =============================================================================== (3) pulse_processing in a subprocess
def gap_table():
    """Synthetic BCS-like table (kbT, gap, quasi-particle density) for aluminium in the layout of the optional
    Ddata_<name>_<Tc>.npy file; no pyxel imports."""
    kb_tc = 1.2 * 86.17
    d0, n0 = 1.76 * kb_tc, 1.72e4
    kbt = np.linspace(1.0, 0.9 * kb_tc, 60)
    gap = d0 * np.sqrt(np.clip(1.0 - (kbt / kb_tc) ** 3.3, 1e-6, None))
    nqp = 2.0 * n0 * np.sqrt(2.0 * np.pi * kbt * gap) * np.exp(-gap / kbt)
    return np.vstack([kbt, gap, nqp])


def pulse_child(out_file, with_table, shape, charge, prior):
    """Runs in its own interpreter (python -m vf.checks.c04 pulse ...)."""
    import faulthandler
    faulthandler.enable()
    res = {"with_table": with_table, "reached": False}
    MON.install()
    from pyxel.models.phasing import pulse_processing
    from vf.worker import assert_pyxel_from_repo
    assert_pyxel_from_repo()
    if with_table:
        try:
            from pyxel.models.phasing.mkid_models import SC as sclib
            table = gap_table()
            sclib.Superconductor.Ddata = property(lambda self: table)
            res["table"] = "installed"
        except Exception as exc:  # noqa: BLE001
            res["table"] = f"failed: {type(exc).__name__}: {exc}"
    det = make_detector("mkid", shape[0], shape[1])
    det.charge.add_charge_array(np.full(tuple(shape), float(charge)))
    set_prior(*prior)
    before = np.random.get_state()
    h0 = MON.helper_seed_calls
    draws = {"n": 0}
    import numpy.random as npr
    orig_normal = npr.normal

    def counting_normal(*a, **k):
        draws["n"] += 1
        return orig_normal(*a, **k)
    npr.normal = counting_normal
    try:
        pulse_processing(det, wavelength=0.5, responsivity=1.0)
        res["outcome"] = "returned"
    except Exception as exc:  # noqa: BLE001
        res["outcome"] = f"raised {type(exc).__name__}"
        res["error"] = str(exc)[:200]
    finally:
        npr.normal = orig_normal
    after = np.random.get_state()
    res["state_same"] = same_state(before, after)
    res["state_change"] = None if res["state_same"] else describe_state_change(before, after)
    res["helper_sections"] = MON.helper_seed_calls - h0
    res["draws"] = draws["n"]
    res["leaks"] = MON.collect()
    res["reached"] = bool(res["helper_sections"] or res["draws"] or res["leaks"])
    with open(out_file, "w") as fh:
        json.dump(res, fh)


def pulse_shard(spec, rec):
    tier = spec["tier"]
    real_limit = 30 if tier == "quick" else 1500
    env = dict(os.environ)
    jobs = []
    n_fast = spec["n"]
    for i in range(n_fast + 1):
        if not rec.wanted(i):
            continue
        rng = rec.rng(i)
        with_table = i < n_fast
        shape = [rng.randint(1, 3), rng.randint(1, 3)] if with_table else [1, 1]
        arg = {"with_table": with_table, "shape": shape, "charge": rng.choice([0.0, 10.0, 1000.0, 1.0e5]),
               "prior": [rng.randint(0, 2), rng.randint(0, 2**31)]}
        out = os.path.join(rec.tmp, f"pulse_{i}.json")
        proc = subprocess.Popen([sys.executable, "-m", "vf.checks.c04", "pulse", out, json.dumps(arg)], env=env, cwd=rec.tmp,
                                stdout=subprocess.DEVNULL, stderr=subprocess.PIPE)
        jobs.append((i, arg, out, proc))
        if with_table:   # the fast children one after the other, the slow one alongside the last
            if i < n_fast - 1:
                finish_pulse(rec, i, arg, out, proc, 300)
                jobs.pop()
    for i, arg, out, proc in jobs:
        finish_pulse(rec, i, arg, out, proc, 300 if arg["with_table"] else real_limit)


def finish_pulse(rec, i, arg, out, proc, limit):
    qual = "pyxel.models.phasing.pulse_processing.pulse_processing"
    label = "gap table supplied" if arg["with_table"] else "unmodified"
    try:
        _, err = proc.communicate(timeout=limit)
    except subprocess.TimeoutExpired:
        proc.kill()
        proc.communicate()
        rec.count("pulse_timeouts")
        rec.observe("skipped_models", f"{qual} ({label}): no result after {limit} s (hard timeout)")
        return
    try:
        with open(out) as fh:
            res = json.load(fh)
    except Exception:  # noqa: BLE001
        rec.count("pulse_child_failed")
        rec.observe("skipped_models", f"{qual} ({label}): child failed: {(err or b'').decode('utf8', 'replace')[-300:]}")
        return
    case = {"function": qual, **arg}
    rec.count("pulse_runs_completed")
    rec.observe("pulse_outcomes", f"{label}: {res.get('outcome')}")
    if res.get("reached"):
        rec.count("pulse_seeded_section_reached")
    else:
        rec.observe("skipped_models", f"{qual} ({label}): the seeded section was not reached ({res.get('outcome')}: {res.get('error', '')[:80]}; table {res.get('table')})")
    rec.count("recorder_helper_seed_calls", res.get("helper_sections", 0))
    raised = str(res.get("outcome", "")).startswith("raised")
    rec.count("model_error_state_checks" if raised else "model_state_checks")
    if not res.get("state_same"):
        report(rec, "C04:model:pulse_processing:global-state-changed" + (":on-error" if raised else ""),
               f"{qual} {res.get('outcome')} and left the global generator changed ({res.get('state_change')})", case, i)
    for ev in res.get("leaks", []):
        rec.count("leak_events")
        what = ev["what"].replace("_", "-")
        report(rec, f"C04:leak:{ev['who']}:bare-{what}-call",
               f"numpy.random.{ev['what']}({ev.get('args', '')}) called by {ev['who']} outside pyxel's seeding helper and never undone", case, i)
    rec.case(("pulse", arg["with_table"], arg["shape"], arg["charge"]), bool(res.get("reached")),
             sample={"function": qual, **arg, "outcome": res.get("outcome")})


# =============================================================================== plan / dispatch
def plan(tier, seed):
    q = tier == "quick"
    specs = [{"shard": 15, "seed": seed, "kind": "pulse", "n": 1 if q else 4, "tier": tier}]   # slowest first
    parts = 7
    for p in (3, 0, 1, 2, 4, 5, 6):
        specs.append({"shard": p, "seed": seed, "kind": "models", "part": p, "of": parts, "n": 0, "tier": tier})
    specs += [{"shard": 7 + s, "seed": seed, "kind": "exposure", "n": 6 if q else 150, "tier": tier} for s in range(2)]
    specs += [{"shard": 9 + s, "seed": seed, "kind": "observation", "n": 2 if q else 30, "tier": tier} for s in range(3)]
    specs += [{"shard": 12 + s, "seed": seed, "kind": "calibration", "n": 1 if q else 14, "tier": tier, "stratum": s} for s in range(3)]
    return specs


def run_shard(spec, rec):
    if spec["kind"] == "models":
        model_shard(spec, rec)
    elif spec["kind"] == "pulse":
        pulse_shard(spec, rec)
    else:
        mode_shard(spec, rec)


def finalize(counters, sets, tier):
    out = []
    n = len(sets.get("models_exercised", []))
    if n < MIN_MODELS:
        out.append(f"only {n} seed-taking model functions were exercised (need >= {MIN_MODELS}); skipped: {sets.get('skipped_models', [])[:6]}")
    return out


def coverage_extra(counters, sets, tier):
    return {"models_exercised": sets.get("models_exercised", []),
            "skipped_models": sets.get("skipped_models", []),
            "open_findings_reproduced": sets.get("open_findings", []),
            "leak_events": counters.get("leak_events", 0)}


if __name__ == "__main__":  # child entry: python -m vf.checks.c04 pulse <out.json> <json-args>
    if len(sys.argv) >= 4 and sys.argv[1] == "pulse":
        a = json.loads(sys.argv[3])
        try:
            pulse_child(sys.argv[2], a["with_table"], a["shape"], a["charge"], tuple(a["prior"]))
        except BaseException:  # noqa: BLE001
            traceback.print_exc()
            sys.exit(3)
        sys.stdout.flush()
        os._exit(0)

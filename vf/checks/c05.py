"""C05 -- observation runs exactly the requested parameter space, correctly labelled.

Monitor: the probe model `enc` records the argument values (and detector fields) it actually
received and writes an injective encoding of them into the pixel bucket.  Oracle: an
independent enumerator of the three modes; a layout-agnostic label resolver maps every
position of the result back to an assignment; executed runs (exactly-once) and labelled
data (bijection, right content) are both compared with the oracle.
"""
from __future__ import annotations

import itertools
import os
import threading

import numpy as np

from vf import build

ID = "C05"
LEVEL = "exploration"
REGISTER = True
TECHNIQUE = "runtime monitoring: probe log of received parameters (exactly-once / no-loss) + label-resolved result contents vs. independent parameter-space enumerator"
RULE = ("random parameter spaces: 1-4 parameters over probe arguments (scalar int/float/string, vector) of two models "
        "sharing argument names and over detector fields, lists of length 1-4 given literally or as numpy "
        "expressions, enabled/disabled mix, product / sequential / custom mode, sequential and dask execution; "
        "non-trivial = >=2 runs and >=1 enabled parameter of which one differs between runs; distinct = distinct "
        "(mode, exec, parameter specification) signatures")
ASSUMPTIONS = ["in the dask path pyxel executes the first assignment one extra time for metadata; the bucket dataset "
               "is loaded in one compute so that every task runs once",
               "custom tables are generated with exactly the needed columns (column_range end is label-inclusive)"]
REQUIRED_COUNTERS = ["spaces", "runs_expected", "runs_observed", "positions_resolved", "cells_compared",
                     "mode_product", "mode_sequential", "mode_custom", "exec_dask", "exec_seq",
                     "vector_params", "colliding_short_names", "unique_before_colliding_dask", "disabled_params", "numpy_expressions",
                     "second_runs_on_same_objects"]
TIMEOUT = {"quick": 900, "thorough": 3600}
LEVEL_TEXT = ("Exploration by runtime monitoring: each generated parameter space is executed by the real Observation "
              "(sequentially and through dask); the probe log gives the multiset of assignments actually applied and the "
              "result is read back through its own coordinate labels; both are compared with an independent enumeration "
              "of product / sequential / custom mode.")
LEVEL_NOTE = ("Trusted: xarray label selection on the returned tree; the enc probe (writes through the public pixel setter). "
              "Known finding: sequential mode + with_dask zips the parameter lists (KNOWN_FINDINGS.json).")

VOCAB = ["alpha.fits", "beta.fits", "gamma.npy", "delta", "eps ilon"]
ROWS, COLS = 3, 7
LOG: list = []
_LOCK = threading.Lock()
_KEEP: list = []


def enc(detector, **kw):
    """Probe model: log what was received, encode it into the pixel bucket."""
    row = kw["row"]
    vals = [float(kw.get("a", 0)), float(kw.get("b", 0))] + [float(x) for x in kw.get("v", [])]
    svals = float(VOCAB.index(kw["s"])) if kw.get("s") in VOCAB else -1.0
    gval = float((kw.get("cfg") or {}).get("g", -1.0))   # an entry of a dictionary-valued argument
    det_fields = [float(detector.environment.temperature), float(detector.characteristics.quantum_efficiency),
                  float(detector.characteristics.full_well_capacity)]
    with _LOCK:
        _KEEP.append(detector)
        LOG.append({"model": detector.current_running_model_name, "det": id(detector), "row": row,
                    "vals": vals, "s": svals, "g": gval, "det_fields": det_fields, "thread": threading.get_ident()})
    try:
        arr = detector.pixel.array.copy()
    except ValueError:
        arr = np.zeros(detector.geometry.shape)
    arr[row, :len(vals)] = vals
    arr[row, 5] = svals
    arr[row, 6] = gval
    arr[2, :3] = det_fields
    detector.pixel.array = arr
    if kw.get("img"):
        detector.image.array = np.full(detector.geometry.shape, 7, dtype=np.uint16)


def plan(tier, seed):
    n = 14 if tier == "quick" else 170
    return [{"shard": s, "seed": seed, "kind": "random", "n": n} for s in range(16)]


# ------------------------------------------------------------------ specification
DEFAULTS = {
    "pipeline.{g1}.m1.arguments.a": 1, "pipeline.{g1}.m1.arguments.b": 2.5,
    "pipeline.{g1}.m1.arguments.v": [0.5, 0.25, 0.125], "pipeline.{g1}.m1.arguments.s": "delta",
    "pipeline.{g1}.m1.arguments.cfg.g": 0.5,
    "pipeline.{g2}.m2.arguments.a": 3, "pipeline.{g2}.m2.arguments.b": 4.5,
    "pipeline.{g2}.m2.arguments.v": [9.0, 8.0, 7.0],
    "detector.environment.temperature": 300.0,
    "detector.characteristics.quantum_efficiency": 0.9,
    "detector.characteristics.full_well_capacity": 100000.0,
}


def gen_values(rng, key, n):
    short = key.split(".")[-1]
    if short == "v":
        return [[float(rng.randint(1, 50)), rng.choice([0.5, 1.5, 2.25]) * rng.randint(1, 9), float(rng.randint(-9, 9))]
                for _ in range(n)], None
    if short == "s":
        return rng.sample(VOCAB, min(n, len(VOCAB))), None
    if short == "quantum_efficiency":
        return rng.sample([0.0, 0.1, 0.25, 0.5, 0.75, 1.0], n), None
    if short == "temperature":
        if rng.random() < 0.4:
            a, b = rng.randint(50, 150), rng.randint(160, 400)
            expr = f"numpy.linspace({a}, {b}, {n})"
            return [float(x) for x in np.linspace(a, b, n)], expr
        return rng.sample([77.0, 100.0, 150.5, 273.15, 300.0, 350.0], n), None
    if short == "full_well_capacity":
        return rng.sample([100.0, 2000.0, 5e4, 1e6, 3.5e6], n), None
    if short == "g":
        return rng.sample([0.0, 1.5, 2.5, 4.0, 6.25, 8.0], n), None
    if short == "a":
        if rng.random() < 0.25:
            # an expression that yields many more values than its text has characters
            big = rng.randint(18, 40)
            return [int(x) for x in np.arange(big)], f"numpy.arange({big})"
        if rng.random() < 0.4:
            a0, step = rng.randint(1, 9), rng.randint(1, 3)
            expr = f"numpy.arange({a0}, {a0 + n * step}, {step})"
            return [int(x) for x in np.arange(a0, a0 + n * step, step)], expr
        return rng.sample(range(10, 60), n), None
    return rng.sample([0.125, 0.75, 1.5, 2.25, 10.5, 33.0, -4.5], n), None


def gen_space(rng, layout=None):
    """layout='unique-first': a product space whose colliding pair (m1.a, m2.a) is listed AFTER a parameter
    with a unique short name, all enabled - the layout in which the order of the dimension-name mapping and the
    order of 'parameters' can drift apart."""
    groups = rng.sample([g for g in build.GROUPS], 2) if rng.random() < 0.5 else [rng.choice(build.GROUPS)] * 2
    g1, g2 = groups
    keys_all = [k.format(g1=g1, g2=g2) for k in DEFAULTS]
    defaults = {k.format(g1=g1, g2=g2): v for k, v in DEFAULTS.items()}
    mode = rng.choice(["product", "product", "sequential", "custom"])
    k = rng.randint(1, 4)
    if layout == "unique-first":
        mode = "product"
        pair = [x for x in keys_all if x.endswith(".a")]
        uniq = rng.choice([x for x in keys_all if x.endswith((".b", ".cfg.g")) and ".m1." in x])
        keys = [uniq, *pair] if rng.random() < 0.5 else [pair[0], uniq, pair[1]]
    elif rng.random() < 0.35:  # force colliding short names
        pair = [x for x in keys_all if x.endswith(".a")]
        rest = rng.sample([x for x in keys_all if x not in pair], max(0, k - 2))
        keys = pair + rest
        rng.shuffle(keys)
    else:
        keys = rng.sample(keys_all, k)
    params = []
    for key in keys:
        n = rng.randint(2, 3) if layout else rng.randint(1, 5)
        vals, expr = gen_values(rng, key, n)
        params.append({"key": key, "values": vals, "expr": expr, "enabled": layout is not None or rng.random() < 0.8})
    if not any(p["enabled"] for p in params):
        params[0]["enabled"] = True
    if mode == "product":  # keep the Cartesian product below ~48 runs
        while np.prod([len(p["values"]) for p in params if p["enabled"]]) > 48:
            lit = [p for p in params if p["enabled"] and p["expr"] is None and len(p["values"]) > 1]
            big = max(lit or [p for p in params if p["enabled"]], key=lambda p: len(p["values"]))
            big["values"] = big["values"][:-1]
            big["expr"] = None
    if mode == "custom":
        nrows = rng.randint(1, 5)
        for p in params:
            vals, _ = gen_values(rng, p["key"], min(nrows, 4))
            vals = vals[:nrows]
            while len(vals) < nrows:
                vals.append(vals[-1] if not isinstance(vals[-1], list) else list(vals[-1]))
            p["values"], p["expr"] = vals, None
            if p["key"].endswith(".s"):
                p["enabled"] = False  # tables are numeric
        if not any(p["enabled"] for p in params):
            params.append({"key": f"pipeline.{g2}.m2.arguments.b", "values": [0.5 + i for i in range(nrows)],
                           "expr": None, "enabled": True})
    return {"g1": g1, "g2": g2, "defaults": defaults, "mode": mode, "params": params,
            "dask": layout is not None or rng.random() < 0.5, "two_steps": rng.random() < 0.2}


# ------------------------------------------------------------------ oracle (no pyxel)
def unique_before_colliding(space):
    """True when an enabled parameter with a unique short name is listed before one whose short name collides."""
    en = [p["key"].split(".")[-1] for p in space["params"] if p["enabled"]]
    dup = {n for n in en if en.count(n) > 1}
    seen_unique = False
    for n in en:
        if n in dup and seen_unique:
            return True
        seen_unique = seen_unique or n not in dup
    return False


def enumerate_runs(space):
    en = [p for p in space["params"] if p["enabled"]]
    if space["mode"] == "product":
        return [dict(zip([p["key"] for p in en], combo)) for combo in itertools.product(*[p["values"] for p in en])]
    if space["mode"] == "sequential":
        base = {p["key"]: space["defaults"][p["key"]] for p in en}
        return [{**base, p["key"]: v} for p in en for v in p["values"]]
    nrows = len(en[0]["values"])
    return [{p["key"]: p["values"][r] for p in en} for r in range(nrows)]


def encode(space, assignment):
    """Expected pixel content for one run (the injective encoding the probe writes)."""
    full = dict(space["defaults"])
    full.update(assignment)
    g1, g2 = space["g1"], space["g2"]
    arr = np.zeros((ROWS, COLS))
    for row, (g, m) in enumerate(((g1, "m1"), (g2, "m2"))):
        pre = f"pipeline.{g}.{m}.arguments."
        vals = [float(full[pre + "a"]), float(full[pre + "b"])] + [float(x) for x in full[pre + "v"]]
        arr[row, :len(vals)] = vals
        s = full.get(pre + "s")
        arr[row, 5] = float(VOCAB.index(s)) if s in VOCAB else -1.0
        arr[row, 6] = float(full.get(pre + "cfg.g", -1.0))
    arr[2, :3] = [float(full["detector.environment.temperature"]),
                  float(full["detector.characteristics.quantum_efficiency"]),
                  float(full["detector.characteristics.full_well_capacity"])]
    return arr


def dim_names(space):
    en = [p["key"] for p in space["params"] if p["enabled"]]
    shorts = [k.split(".")[-1] for k in en]
    out = {}
    for k, s in zip(en, shorts):
        if shorts.count(s) > 1 and k.startswith("pipeline."):
            parts = k.split(".")
            out[k] = f"{parts[2]}.{parts[4]}"
        else:
            out[k] = s
    return out


def norm(v):
    if isinstance(v, (list, tuple, np.ndarray)):
        return tuple(float(x) for x in np.asarray(v, dtype=object).ravel().tolist())
    if isinstance(v, (str, np.str_)):
        return str(v)
    if isinstance(v, (np.generic,)):
        v = v.item()
    if isinstance(v, (int, float)):
        return float(v)
    return v


CORE = {"time", "y", "x", "wavelength"}


def resolve_positions(ds, names):
    """Yield (position indexers, {short name: value}) for every run position of the result."""
    var = ds["pixel"]
    run_dims = [d for d in var.dims if d not in CORE]
    sizes = [var.sizes[d] for d in run_dims]
    for idx in itertools.product(*[range(n) for n in sizes]):
        sel = dict(zip(run_dims, idx))
        sub = ds.isel(sel)
        assignment = {}
        for short in names:
            if short not in sub.coords:
                assignment[short] = "<no coordinate>"
                continue
            val = sub.coords[short].values
            if val.dtype == object and val.ndim == 0:
                val = val.item()
            elif val.ndim == 0:
                val = val.item()
            assignment[short] = norm(val)
        yield sel, assignment, sub


def probe_pipeline(space, func="vf.checks.c05.enc", extra=None):
    """The two-model probe pipeline of a parameter space (shared with C07)."""
    g1, g2 = space["g1"], space["g2"]
    d = space["defaults"]
    img = bool(space.get("two_steps"))
    extra = extra or {}
    pspec = {}
    pspec.setdefault(g1, []).append({"name": "m1", "func": func, "arguments": {
        "a": d[f"pipeline.{g1}.m1.arguments.a"], "b": d[f"pipeline.{g1}.m1.arguments.b"],
        "v": list(d[f"pipeline.{g1}.m1.arguments.v"]), "s": d[f"pipeline.{g1}.m1.arguments.s"], "row": 0, "img": img,
        "cfg": {"g": d[f"pipeline.{g1}.m1.arguments.cfg.g"], "other": [1, 2]}, **extra}})
    pspec.setdefault(g2, []).append({"name": "m2", "func": func, "arguments": {
        "a": d[f"pipeline.{g2}.m2.arguments.a"], "b": d[f"pipeline.{g2}.m2.arguments.b"],
        "v": list(d[f"pipeline.{g2}.m2.arguments.v"]), "row": 1, "img": img, **extra}})
    return pspec


def run_space(rec, index, space):
    import pyxel
    from pyxel.exposure import Readout
    from pyxel.observation import Observation, ParameterValues

    mode, dask = space["mode"], space["dask"]
    en = [p for p in space["params"] if p["enabled"]]
    tag = f"{mode}:{'dask' if dask else 'seq'}"
    case = {k: space[k] for k in ("g1", "g2", "mode", "params", "dask", "two_steps")}
    sig = (mode, dask, [(p["key"], p["values"], p["enabled"], p["expr"]) for p in space["params"]])
    expected = enumerate_runs(space)
    names = dim_names(space)
    nontrivial = len(expected) >= 2

    pspec = probe_pipeline(space)
    dspec = build.default_detector_spec("ccd", ROWS, COLS)
    detector = build.make_detector(dspec)
    kwargs = {}
    pv = []
    if mode == "custom":
        cols = []
        for p in en:
            if p["key"].endswith(".v"):
                cols.extend([[row[j] for row in p["values"]] for j in range(3)])
            else:
                cols.append(p["values"])
        table = np.array(cols, dtype=float).T
        path = os.path.join(rec.tmp, f"custom_{index}.txt")
        with open(path, "w") as fh:
            for row in table.reshape(len(en[0]["values"]), -1):
                fh.write(" ".join(repr(float(x)) for x in row) + "\n")
        kwargs = {"from_file": path, "column_range": (0, table.shape[1])}
        for p in space["params"]:
            vals = ["_", "_", "_"] if p["key"].endswith(".v") else "_"
            pv.append(ParameterValues(key=p["key"], values=vals, enabled=p["enabled"]))
    else:
        for p in space["params"]:
            pv.append(ParameterValues(key=p["key"], values=p["expr"] or p["values"], enabled=p["enabled"]))
    times = [1.0, 2.5] if space["two_steps"] else [1.0]
    with _LOCK:
        LOG.clear()
        _KEEP.clear()
    rec.count("spaces")
    rec.count(f"mode_{mode}")
    rec.count("exec_dask" if dask else "exec_seq")
    rec.count("vector_params", sum(1 for p in en if p["key"].endswith(".v")))
    rec.count("unique_before_colliding_dask" if dask else "unique_before_colliding_seq", int(unique_before_colliding(space)))
    rec.count("colliding_short_names", 1 if len(set(k.split('.')[-1] for k in names)) < len(names) else 0)
    rec.count("disabled_params", sum(1 for p in space["params"] if not p["enabled"]))
    rec.count("numpy_expressions", sum(1 for p in en if p["expr"]))
    try:
        obs = Observation(parameters=pv, readout=Readout(times=times), mode=mode, with_dask=dask, **kwargs)
        pipe = build.make_pipeline(pspec)
        tree = pyxel.run_mode(mode=obs, detector=detector, pipeline=pipe, with_inherited_coords=True)
        ds = tree["/bucket"].to_dataset()
        if dask:
            ds = ds.load()
    except Exception as exc:  # noqa: BLE001
        import traceback
        zipped = mode == "sequential" and dask and len(en) >= 2
        mech = "C05:sequential-mode+with_dask:parameters-zipped" if zipped else f"C05:{tag}:run-failed"
        rec.violation(mech, f"{type(exc).__name__}: {exc} :: {traceback.format_exc()[-700:]}", case, index)
        rec.case(sig, nontrivial)
        return

    # ---- (1) exactly-once: assignments actually applied, from the probe log
    with _LOCK:
        log = list(LOG)
    runs: dict[int, dict] = {}
    for ev in log:
        runs.setdefault(ev["det"], {}).setdefault(ev["model"], []).append(ev)
    observed = []
    for det, models in runs.items():
        arr = np.zeros((ROWS, COLS))
        n_calls = {m: len(evs) for m, evs in models.items()}
        for m, evs in models.items():
            ev = evs[-1]
            arr[ev["row"], :len(ev["vals"])] = ev["vals"]
            arr[ev["row"], 5] = ev["s"]
            arr[ev["row"], 6] = ev.get("g", -1.0)
            arr[2, :3] = ev["det_fields"]
        observed.append((arr, n_calls))
    rec.count("runs_observed", len(observed))
    rec.count("runs_expected", len(expected))
    exp_arrays = [encode(space, a) for a in expected]
    remaining = list(range(len(exp_arrays)))
    extra = []
    for arr, n_calls in observed:
        hit = next((j for j in remaining if np.array_equal(exp_arrays[j], arr)), None)
        if hit is None:
            extra.append(arr)
        else:
            remaining.remove(hit)
    problem = None
    if dask:
        # exactly one extra execution (metadata), equal to one of the requested assignments
        # (which one is "first" depends on the index order of the parameter array, e.g. sorted labels)
        if len(extra) == 1 and any(np.array_equal(extra[0], e) for e in exp_arrays) and not remaining:
            rec.count("dask_metadata_run_seen")
        else:
            problem = f"{len(remaining)} expected runs never executed, {len(extra)} executions beyond the expected ones (one metadata run allowed)"
    elif remaining or extra:
        problem = f"{len(remaining)} expected runs never executed, {len(extra)} unexpected executions"
    zipped_class = mode == "sequential" and dask and len(en) >= 2
    if problem:
        mech = f"C05:{tag}:executed-runs-differ"
        if zipped_class:
            zl = list(zip(*[p["values"] for p in en]))
            zexp = [encode(space, dict(zip([p["key"] for p in en], combo))) for combo in zl]
            obs_arrays = [a for a, _ in observed]
            rem = list(range(len(obs_arrays)))
            okz = True
            for za in zexp + zexp[:1]:
                hit = next((j for j in rem if np.array_equal(obs_arrays[j], za)), None)
                if hit is None:
                    okz = False
                    break
                rem.remove(hit)
            if okz and not rem:
                mech = "C05:sequential-mode+with_dask:parameters-zipped"
        rec.violation(mech, f"{problem}; expected {len(expected)} runs, observed {len(observed)} executions", case, index)
        rec.case(sig, nontrivial)
        return

    # ---- (2) labels: every position of the result maps to exactly one expected run with the right data
    short_of = names
    exp_short = [{short_of[k]: norm(v) for k, v in a.items()} for a in expected]
    remaining = list(range(len(expected)))
    npos = 0
    for sel, assignment, sub in resolve_positions(ds, list(short_of.values())):
        npos += 1
        rec.count("positions_resolved")
        hits = [j for j in remaining if exp_short[j] == assignment]
        if not hits:
            rec.violation(f"C05:{tag}:position-label-unknown",
                          f"position {sel} is labelled {assignment}, which is not a requested (or is a duplicated) assignment; "
                          f"first expected {exp_short[0]}", case, index)
            continue
        pix = np.asarray(sub["pixel"].isel(time=-1).values)
        want = [j for j in hits if np.array_equal(exp_arrays[j], pix)]
        rec.count("cells_compared", pix.size)
        if not want:
            rec.violation(f"C05:{tag}:label-data-mismatch",
                          f"entry labelled {assignment} holds data of another run: pixel={pix.tolist()} expected={exp_arrays[hits[0]].tolist()}",
                          case, index)
            remaining.remove(hits[0])
            continue
        j = want[0]
        if "id" in sel and sel["id"] != j and not any(np.array_equal(exp_arrays[j2], pix) and exp_short[j2] == assignment
                                                       for j2 in [sel["id"]] if j2 < len(expected)):
            rec.violation(f"C05:{tag}:run-index-label", f"entry id={sel['id']} holds the data of run #{j}", case, index)
        remaining.remove(j)
    if remaining:
        rec.violation(f"C05:{tag}:runs-missing-from-result",
                      f"{len(remaining)} of {len(expected)} requested runs have no entry in the result ({npos} positions)", case, index)
    # ---- (3) history: the very same objects run once more must execute the very same assignments
    if index % 3 == 0 and not (mode == "sequential" and dask and len(en) >= 2):
        with _LOCK:
            LOG.clear()
            _KEEP.clear()
        try:
            tree2 = pyxel.run_mode(mode=obs, detector=detector, pipeline=pipe, with_inherited_coords=True)
            ds2 = tree2["/bucket"].to_dataset()
            if dask:
                ds2 = ds2.load()
        except Exception as exc:  # noqa: BLE001
            rec.violation(f"C05:{tag}:second-run-on-same-objects:failed", f"{type(exc).__name__}: {exc}", case, index)
        else:
            rec.count("second_runs_on_same_objects")
            with _LOCK:
                log2 = list(LOG)
            runs2: dict[int, dict] = {}
            for ev in log2:
                runs2.setdefault(ev["det"], {}).setdefault(ev["model"], []).append(ev)
            obs2 = []
            for det, models in runs2.items():
                arr = np.zeros((ROWS, COLS))
                for m, evs in models.items():
                    ev = evs[-1]
                    arr[ev["row"], :len(ev["vals"])] = ev["vals"]
                    arr[ev["row"], 5] = ev["s"]
                    arr[ev["row"], 6] = ev.get("g", -1.0)
                    arr[2, :3] = ev["det_fields"]
                obs2.append(arr)
            rem = list(range(len(exp_arrays)))
            extra2 = 0
            for arr in obs2:
                hit = next((j for j in rem if np.array_equal(exp_arrays[j], arr)), None)
                if hit is None:
                    extra2 += 1
                else:
                    rem.remove(hit)
            if rem or extra2 > (1 if dask else 0):
                rec.violation(f"C05:{tag}:second-run-on-same-objects:executed-runs-differ",
                              f"running the same observation objects a second time: {len(rem)} requested runs not executed, "
                              f"{extra2} executions with other values (a value of the first run leaked into the configuration?)",
                              case, index)
    rec.observe("modes_exec", tag)
    rec.observe("n_runs", len(expected))
    rec.case(sig, nontrivial, sample=case)


def run_shard(spec, rec):
    for i in range(spec["n"]):
        if not rec.wanted(i):
            continue
        run_space(rec, i, gen_space(rec.rng(i), layout="unique-first" if i == 0 else None))

"""C06 -- parameter runs are isolated from each other and from the caller's objects.

Monitors: (1) deep structural snapshot (vf.snapshot) of the caller's detector / pipeline /
readout before and after run_mode; (2) every labelled entry of the observation result is
compared with a *standalone exposure built independently from the specification* with that
run's values baked in; (3) the same labels must hold the same data when the other runs are
permuted or removed.  Hostile models mutate their own list argument, keep a counter on the
detector object, and the real simple_persistence model keeps trapped charge on the detector.
"""
from __future__ import annotations

import copy
import threading

import numpy as np

from vf import build, probes, snapshot
from vf.checks import c05

ID = "C06"
LEVEL = "exploration"
REGISTER = True
TECHNIQUE = "runtime monitoring: before/after deep snapshots of caller objects + per-run differential against independently built standalone exposures + permutation/subset metamorphic runs"
RULE = ("random observation sweeps (1-2 parameters, 2-4 values) over hostile pipelines (argument-mutating probe, "
        "detector-state counter, real simple_persistence on CMOS, in-place pixel accumulation) on detectors that "
        "carry leftovers of an earlier exposure; sequential and dask execution; non-trivial = >=2 runs; distinct = "
        "distinct (pipeline features, parameter values, exec, preload) signatures")
ASSUMPTIONS = ["caches that are not settings are excluded from the snapshot: ModelFunction._func, _numbytes, "
               "current_running_model_name, loggers",
               "the standalone oracle starts from an identically pre-loaded detector (the caller's detector memory is "
               "part of the user's configuration)"]
REQUIRED_COUNTERS = ["observations", "snapshots_compared", "snapshot_leaves", "standalone_exposures",
                     "entries_vs_standalone", "permutation_pairs", "subset_pairs", "persistence_cases",
                     "preloaded_cases", "dask_cases", "readout_sweeps", "calibrations",
                     "calibration_champion_vs_standalone", "sequential_list_cases", "seeded_thread_observations",
                     "second_calls_after_config_edit", "type_changing_sweeps_seq", "type_changing_sweeps_dask"]
TIMEOUT = {"quick": 900, "thorough": 3600}
LEVEL_TEXT = ("Exploration by runtime monitoring: hostile stateful models are swept by the real Observation; the caller's "
              "objects are snapshotted structurally before and after; every labelled entry is compared bucket by bucket "
              "with a standalone exposure the harness builds from the specification; permuted and reduced sweeps must "
              "give identical entries.")
LEVEL_NOTE = "Trusted: vf.snapshot walker, xarray label selection, determinism of the hostile probes."

_LOCK = threading.Lock()


def append_arg(detector, lst=None, k=0.0, cfg=None, **kw):
    """Hostile: mutates its own list argument and a container nested two levels deep inside another
    argument, in place; encodes both into the photon bucket."""
    lst.append(float(k))
    nested = 0.0
    if cfg is not None:
        cfg["layers"][0]["level"] += float(k)
        cfg["layers"][-1]["hist"].append(float(k))
        nested = cfg["layers"][0]["level"] * 1000.0 + len(cfg["layers"][-1]["hist"])
    shape = detector.geometry.shape
    arr = np.zeros(shape)
    arr.flat[0] = float(sum(lst)) + nested
    arr.flat[1] = float(len(lst))
    arr.flat[2] = float(k)
    arr.flat[3] = float(detector.environment.temperature)
    detector.photon.array = arr


def adc_image(detector, seed=0, **kw):
    """Digitised image whose unsigned type follows detector.characteristics.adc_bit_resolution (as simple_adc does);
    content: the full range of that type."""
    from vf.probes import gen_array
    bits = int(detector.characteristics.adc_bit_resolution)
    dt = "uint8" if bits <= 8 else ("uint16" if bits <= 16 else "uint32")
    detector.image.array = gen_array(detector.geometry.shape, dt, (int(seed), int(detector.pipeline_count), 5))


def counter(detector, **kw):
    """Hostile: keeps a call counter as state on the detector object; writes it into the signal bucket."""
    n = getattr(detector, "_vf_counter", 0) + 1
    detector._vf_counter = n
    detector.signal.array = np.full(detector.geometry.shape, float(n))


def plan(tier, seed):
    n = 5 if tier == "quick" else 60
    return [{"shard": s, "seed": seed, "kind": "random", "n": n} for s in range(16)]


def gen_case(rng):
    kind = rng.choice(["cmos", "cmos", "ccd", "apd", "mkid"])
    persistence = kind == "cmos" and rng.random() < 0.7
    n_steps = rng.choice([1, 2, 3])
    values = sorted(rng.sample([0.5, 1.5, 2.0, 3.25, 4.0, 7.5, 11.0], rng.randint(2, 4)))
    rng.shuffle(values)
    temps = rng.sample([100.0, 200.0, 300.0], 2) if rng.random() < 0.4 else None
    second = "temperature"
    if rng.random() < 0.3:
        # a swept detector setting that changes the *type* of a bucket: the ADC resolution (uint8/uint16/uint32 image)
        second, temps = "adc_bit_resolution", rng.sample([8, 16, 32], rng.randint(2, 3))
    return {"second": second, "kind": kind, "persistence": persistence, "n_steps": n_steps, "values": values, "temps": temps,
            "non_destructive": rng.random() < 0.6, "preload": rng.random() < 0.6, "dask": rng.random() < 0.5,
            "seed": rng.randint(0, 999), "rows": rng.randint(2, 3), "cols": rng.randint(2, 4)}


SECOND = {"temperature": "detector.environment.temperature",
          "adc_bit_resolution": "detector.characteristics.adc_bit_resolution"}


def pipeline_spec(case, k=None, lst=None):
    """k=None: the caller's pipeline (k at its configured value 1.0); else value baked in."""
    pspec = {
        "photon_collection": [{"name": "app", "func": "vf.checks.c06.append_arg",
                               "arguments": {"lst": [1.0, 2.0] if lst is None else list(lst), "k": 1.0 if k is None else k,
                                             "cfg": {"layers": [{"level": 1.0, "hist": []}, {"level": 2.0, "hist": [0.5]}]}}}],
        "charge_generation": [{"name": "wc", "func": "vf.probes.writer2",
                               "arguments": {"plan": {"*": ["charge"]}, "seed": case["seed"]}}],
        "charge_collection": [{"name": "wp", "func": "vf.probes.writer2",
                               "arguments": {"plan": {"*": ["pixel+"]}, "seed": case["seed"] + 1}}],
        "charge_measurement": [{"name": "cnt", "func": "vf.checks.c06.counter", "arguments": {}}],
        "readout_electronics": [{"name": "wi", "func": "vf.checks.c06.adc_image", "arguments": {"seed": case["seed"] + 2}}],
    }
    if case["persistence"]:
        pspec["charge_collection"].append({
            "name": "pers", "func": "pyxel.models.charge_collection.simple_persistence",
            "arguments": {"trap_time_constants": [1.0, 10.0], "trap_densities": [0.1, 0.2]}})
    return pspec


def times_of(case):
    return [float(t) for t in range(1, case["n_steps"] + 1)]


def make_preloaded_detector(case, temperature=None):
    """Deterministic construction of the caller's detector, including leftovers of an earlier exposure."""
    import pyxel
    from pyxel.exposure import Exposure, Readout
    dspec = build.default_detector_spec(case["kind"], case["rows"], case["cols"])
    if temperature is not None:
        dspec["environment"]["temperature"] = temperature
    detector = build.make_detector(dspec)
    if case["preload"]:
        pre = copy.deepcopy(case)
        pre["seed"] = case["seed"] + 50
        pyxel.run_mode(mode=Exposure(readout=Readout(times=[1.0, 2.0], non_destructive=True)), detector=detector,
                       pipeline=build.make_pipeline(pipeline_spec(pre, k=9.0)), with_inherited_coords=True)
    return detector


def standalone(case, k, temperature, lst=None):
    """'temperature' is the value of the case's second swept key (temperature or ADC resolution), or None."""
    import pyxel
    from pyxel.exposure import Exposure, Readout
    det = make_preloaded_detector(case, temperature=None)
    if temperature is not None:
        if case.get("second", "temperature") == "adc_bit_resolution":
            det.characteristics.adc_bit_resolution = int(temperature)
        else:
            det.environment.temperature = temperature
    tree = pyxel.run_mode(mode=Exposure(readout=Readout(times=times_of(case), non_destructive=case["non_destructive"])),
                          detector=det, pipeline=build.make_pipeline(pipeline_spec(case, k=k, lst=lst)),
                          with_inherited_coords=True)
    return tree["/bucket"].to_dataset()


def seeded_threads_case(rec, index, case):
    """Runs of a seeded stochastic pipeline executed by the thread scheduler: every run must equal a seeded
    standalone exposure with that run's value (a run must not see the random stream of another run)."""
    import dask
    import pyxel
    from pyxel.exposure import Exposure, Readout
    from pyxel.observation import Observation, ParameterValues

    def pipeline(level):
        return build.make_pipeline({
            "photon_collection": [
                {"name": "illumination", "func": "pyxel.models.photon_collection.illumination", "arguments": {"level": level}},
                {"name": "pause", "func": "vf.probes.trace", "arguments": {"sleep": 0.002}},
                {"name": "shot_noise", "func": "pyxel.models.photon_collection.shot_noise", "arguments": {}}],
            "charge_generation": [{"name": "conv", "func": "pyxel.models.charge_generation.simple_conversion", "arguments": {}}],
            "charge_collection": [{"name": "coll", "func": "pyxel.models.charge_collection.simple_collection", "arguments": {}}],
            "charge_measurement": [{"name": "meas", "func": "pyxel.models.charge_measurement.simple_measurement", "arguments": {}}],
            "readout_electronics": [{"name": "adc", "func": "pyxel.models.readout_electronics.simple_adc", "arguments": {}}]})

    levels = [100.0, 300.0, 900.0, 2700.0, 5000.0, 7000.0]
    seed = 1000 + index
    times = [1.0, 2.0]
    spec = build.default_detector_spec("ccd", 6, 6)
    obs = Observation(parameters=[ParameterValues(key="pipeline.photon_collection.illumination.arguments.level", values=levels)],
                      readout=Readout(times=times), with_dask=True, pipeline_seed=seed)
    try:
        lazy = pyxel.run_mode(mode=obs, detector=build.make_detector(spec), pipeline=pipeline(1.0), with_inherited_coords=True)
        with dask.config.set(scheduler="threads", num_workers=6):
            ds = lazy["/bucket"].to_dataset().compute()
    except Exception as exc:  # noqa: BLE001
        rec.violation("C06:dask:seeded-threads:run-failed", f"{type(exc).__name__}: {exc}", case, index)
        return
    rec.count("seeded_thread_observations")
    for level in levels:
        ref = pyxel.run_mode(mode=Exposure(readout=Readout(times=times), pipeline_seed=seed), detector=build.make_detector(spec),
                             pipeline=pipeline(level), with_inherited_coords=True)["/bucket"].to_dataset()
        got = ds.sel(level=level)
        rec.count("entries_vs_standalone")
        d = same_entry(got, ref)
        if d:
            rec.violation("C06:dask:seeded-threads:entry-differs-from-standalone",
                          f"level={level}: {d} -- a seeded run computed by the thread scheduler differs from the seeded "
                          f"standalone exposure (runs interleave on the process-wide generator)", case, index)
            return


def sequential_list_case(rec, index, case):
    """Sequential mode, two keys, one of them a list-valued argument the model mutates in place: the runs that
    vary the other key must equal standalone exposures, and the caller's pipeline must stay unchanged."""
    import pyxel
    from pyxel.exposure import Readout
    from pyxel.observation import Observation, ParameterValues
    detector = make_preloaded_detector(case)
    pipe = build.make_pipeline(pipeline_spec(case))
    readout = Readout(times=times_of(case), non_destructive=case["non_destructive"])
    ks = list(case["values"])[:3]
    lists = [[4.0, 5.0], [6.0, 7.5]]
    obs = Observation(parameters=[ParameterValues(key="pipeline.photon_collection.app.arguments.k", values=ks),
                                  ParameterValues(key="pipeline.photon_collection.app.arguments.lst", values=lists)],
                      readout=readout, mode="sequential", with_dask=False)
    before = snapshot.snap({"detector": detector, "pipeline": pipe, "readout": readout})
    try:
        tree = pyxel.run_mode(mode=obs, detector=detector, pipeline=pipe, with_inherited_coords=True)
        ds = tree["/bucket"].to_dataset()
    except Exception as exc:  # noqa: BLE001
        rec.violation("C06:seq:sequential-mode-list-argument:run-failed",
                      f"a valid sequential sweep over a scalar and a list-valued argument failed: {type(exc).__name__}: {exc}", case, index)
        return
    rec.count("sequential_list_cases")
    changed = snapshot.diff(before, snapshot.snap({"detector": detector, "pipeline": pipe, "readout": readout}))
    if changed:
        rec.violation("C06:seq:caller-objects-changed:sequential-mode-list-argument",
                      f"{len(changed)} leaves of the caller's objects changed: {changed[:5]}", case, index)
    # run #j (j < len(ks)) varies k with the configured list [1.0, 2.0]
    for j, k in enumerate(ks):
        got = ds.isel(id=j)
        ref = standalone(case, k, None)
        rec.count("entries_vs_standalone")
        d = same_entry(got, ref)
        if d:
            rec.violation("C06:seq:entry-differs-from-standalone:sequential-mode-list-argument",
                          f"sequential run #{j} (k={k}, list at its configured value): {d}", case, index)
            return
    # history: the user edits the configuration and runs the SAME observation object again -- the runs that vary
    # the list must now be standalone exposures of the edited configuration (k at its new configured value)
    new_k = 2.75
    pipe.photon_collection.app.arguments["k"] = new_k
    try:
        ds2 = pyxel.run_mode(mode=obs, detector=detector, pipeline=pipe, with_inherited_coords=True)["/bucket"].to_dataset()
    except Exception as exc:  # noqa: BLE001
        rec.violation("C06:seq:second-call-on-same-observation:run-failed", f"{type(exc).__name__}: {exc}", case, index)
        return
    rec.count("second_calls_after_config_edit")
    for j, lst in enumerate(lists):
        got = ds2.isel(id=len(ks) + j)
        ref = standalone(case, new_k, None, lst=lst)
        rec.count("entries_vs_standalone")
        d = same_entry(got, ref)
        if d:
            rec.violation("C06:seq:second-call-on-same-observation:entry-differs-from-standalone",
                          f"after editing the configured k to {new_k} and running the same Observation object again, run "
                          f"#{len(ks) + j} (list={lst}, k at its configured value) is not the standalone exposure of the "
                          f"edited configuration: {d}", case, index)
            return


def observe(case, values, temps, dask, detector=None, pipe=None, readout=None):
    import pyxel
    from pyxel.exposure import Readout
    from pyxel.observation import Observation, ParameterValues
    detector = detector or make_preloaded_detector(case)
    pipe = pipe or build.make_pipeline(pipeline_spec(case))
    readout = readout or Readout(times=times_of(case), non_destructive=case["non_destructive"])
    params = [ParameterValues(key="pipeline.photon_collection.app.arguments.k", values=list(values))]
    if temps:
        params.append(ParameterValues(key=SECOND[case.get("second", "temperature")], values=list(temps)))
    obs = Observation(parameters=params, readout=readout, with_dask=dask)
    tree = pyxel.run_mode(mode=obs, detector=detector, pipeline=pipe, with_inherited_coords=True)
    ds = tree["/bucket"].to_dataset()
    if dask:
        ds = ds.load()
    return ds, detector, pipe, readout


BUCKETS = ("photon", "charge", "pixel", "signal", "image")


def entries(ds, with_temp, second="temperature"):
    names = ["k"] + ([second] if with_temp else [])
    out = {}
    for sel, assignment, sub in c05.resolve_positions(ds, names):
        key = (assignment["k"], assignment.get(second))
        out[key] = sub
    return out


def same_entry(a, b):
    for name in BUCKETS:
        if (name in a) != (name in b):
            return f"bucket '{name}' present on one side only"
        if name in a:
            va, vb = np.asarray(a[name].values), np.asarray(b[name].values)
            if va.shape != vb.shape:
                return f"'{name}' shape {va.shape} vs {vb.shape}"
            if not np.array_equal(va.astype(float), vb.astype(float), equal_nan=True):
                return f"'{name}' values differ (max abs diff {float(np.nanmax(np.abs(va.astype(float) - vb.astype(float))))})"
    return None


WRAP_KEY = "C06:dask:type-changing-sweep:image-cast-to-dtype-of-metadata-run"


def image_wrap_explained(sub, ref):
    """The entry's image is the standalone image cast (wrapped) into a narrower unsigned type, or is that image."""
    if "image" not in sub or "image" not in ref:
        return False
    g, r = np.asarray(sub["image"].values), np.asarray(ref["image"].values)
    if g.shape != r.shape:
        return False
    if np.array_equal(g.astype(float), r.astype(float)):
        return True
    if g.dtype.kind != "u" or r.dtype.kind != "u" or g.dtype.itemsize >= r.dtype.itemsize:
        return False
    return bool(np.array_equal(g, r.astype(g.dtype)))


def readout_sweep_case(rec, index, case):
    """Sweeping the readout times (honoured by the dask path) must not change the caller's Readout."""
    import pyxel
    from pyxel.exposure import Readout
    from pyxel.observation import Observation, ParameterValues
    detector = make_preloaded_detector(case)
    pipe = build.make_pipeline(pipeline_spec(case))
    readout = Readout(times=[9.0], non_destructive=case["non_destructive"])
    obs = Observation(parameters=[ParameterValues(key="observation.readout.times", values=[1.5, 2.5, 4.0])],
                      readout=readout, with_dask=True)
    before = snapshot.snap({"detector": detector, "pipeline": pipe, "readout": readout})
    try:
        tree = pyxel.run_mode(mode=obs, detector=detector, pipeline=pipe, with_inherited_coords=True)
        tree["/bucket"].to_dataset().load()
    except Exception as exc:  # noqa: BLE001
        rec.count("readout_sweep_refused")
        rec.observe("readout_sweep_errors", f"{type(exc).__name__}: {str(exc)[:80]}")
        return
    rec.count("readout_sweeps")
    after = snapshot.snap({"detector": detector, "pipeline": pipe, "readout": readout})
    changed = snapshot.diff(before, after)
    if changed:
        rec.violation("C06:dask:caller-objects-changed:readout-times-sweep",
                      f"{len(changed)} leaves of the caller's objects changed by a sweep of the readout times: {changed[:5]}", case, index)


def calibration_case(rec, index, case):
    """A toy calibration over the hostile pipeline: the caller's detector / pipeline must keep their
    settings and contents, and the champion re-simulation must equal a standalone exposure."""
    import os

    import pyxel
    from pyxel.calibration import Algorithm, Calibration
    from pyxel.observation import ParameterValues
    from pyxel.pipelines import FitnessFunction

    detector = make_preloaded_detector(case)
    pipe = build.make_pipeline(pipeline_spec(case))
    rows, cols = case["rows"], case["cols"]
    path = os.path.join(rec.tmp, f"target_{index}.npy")
    np.save(path, np.random.default_rng(index).random((rows, cols)) * 1000)
    cal = Calibration(target_data_path=[path],
                      fitness_function=FitnessFunction(func="pyxel.calibration.fitness.sum_of_abs_residuals"),
                      algorithm=Algorithm(type="sade", generations=1, population_size=7),
                      parameters=[ParameterValues(key="pipeline.photon_collection.app.arguments.k", values="_", boundaries=(0.5, 9.5))],
                      result_type="pixel", result_fit_range=(0, rows, 0, cols), target_fit_range=(0, rows, 0, cols),
                      pygmo_seed=7 + index, num_islands=2, num_evolutions=1)
    before = snapshot.snap({"detector": detector, "pipeline": pipe})
    try:
        tree = pyxel.run_mode(mode=cal, detector=detector, pipeline=pipe, with_inherited_coords=True)
        k_all = [float(v) for v in np.asarray(tree["/champion/parameters"].isel(evolution=-1).values).ravel()]
        sims = [np.asarray(tree["/simulated/pixel"].compute().values).reshape(len(k_all), rows, cols) for _ in range(2)]
    except Exception as exc:  # noqa: BLE001
        import traceback
        rec.violation("C06:calibration:run-failed", f"{type(exc).__name__}: {exc} :: {traceback.format_exc()[-500:]}", case, index)
        return
    rec.count("calibrations")
    after = snapshot.snap({"detector": detector, "pipeline": pipe})
    changed = snapshot.diff(before, after)
    if changed:
        rec.violation("C06:calibration:caller-objects-changed",
                      f"{len(changed)} leaves of the caller's objects changed by a calibration: {changed[:5]}", case, index)
    single = dict(case, n_steps=1, non_destructive=False)
    for isl, k_best in enumerate(k_all):
        ref = standalone(single, k_best, None)
        want = np.asarray(ref["pixel"].isel(time=-1).values)
        for attempt, sim_all in enumerate(sims):   # the lazy champion simulation is computed twice
            sim = sim_all[isl]
            rec.count("calibration_champion_vs_standalone")
            if want.shape != sim.shape or not np.allclose(want, sim, rtol=1e-12, atol=0):
                rec.violation("C06:calibration:champion-simulation-differs-from-standalone",
                              f"island {isl}, computation #{attempt}: re-simulated champion (k={k_best}) differs from a "
                              f"standalone exposure with that value: max abs diff "
                              f"{float(np.max(np.abs(want - sim))) if want.shape == sim.shape else 'shape'}", case, index)
                return


def run_case(rec, index, case):
    if index % 2 == 1:
        sequential_list_case(rec, index, case)
    if index == 2:
        seeded_threads_case(rec, index, case)
    if index == 0:
        calibration_case(rec, index, dict(case, n_steps=1, non_destructive=False))
    if case["dask"] and index % 3 == 0:
        readout_sweep_case(rec, index, case)
    sig = (case["kind"], case["persistence"], case["n_steps"], case["values"], case["second"], case["temps"],
           case["non_destructive"], case["preload"], case["dask"])
    tag = "dask" if case["dask"] else "seq"
    rec.count("persistence_cases", int(case["persistence"]))
    rec.count("preloaded_cases", int(case["preload"]))
    rec.count("dask_cases", int(case["dask"]))
    rec.count("type_changing_sweeps_dask" if case["dask"] else "type_changing_sweeps_seq", int(case["second"] == "adc_bit_resolution"))
    # ---- (1) the caller's objects keep their settings and contents
    detector = make_preloaded_detector(case)
    from pyxel.exposure import Readout
    pipe = build.make_pipeline(pipeline_spec(case))
    readout = Readout(times=times_of(case), non_destructive=case["non_destructive"])
    before = snapshot.snap({"detector": detector, "pipeline": pipe, "readout": readout})
    try:
        ds, _, _, _ = observe(case, case["values"], case["temps"], case["dask"], detector, pipe, readout)
    except Exception as exc:  # noqa: BLE001
        import traceback
        rec.violation(f"C06:{tag}:run-failed", f"{type(exc).__name__}: {exc} :: {traceback.format_exc()[-600:]}", case, index)
        rec.case(sig, True)
        return
    rec.count("observations")
    after = snapshot.snap({"detector": detector, "pipeline": pipe, "readout": readout})
    rec.count("snapshots_compared")
    rec.count("snapshot_leaves", len(before))
    changed = snapshot.diff(before, after)
    if changed:
        where = sorted({c.split(".")[0].split("[")[1].strip("']") + ":" + (c.split(":")[0].split(".")[1] if "." in c.split(":")[0] else "") for c in changed})
        rec.violation(f"C06:{tag}:caller-objects-changed:{'+'.join(where)[:80]}",
                      f"{len(changed)} leaves of the caller's objects changed: {changed[:6]}", case, index)
    # ---- (2) every entry equals an independently built standalone exposure
    type_sweep_dask = bool(case["dask"] and case["second"] == "adc_bit_resolution" and case["temps"])

    def wrap_class(key, a, b, d):
        """both sides of an order/subset pair are the standalone image, possibly cast into a narrower type"""
        if not (type_sweep_dask and d.startswith("'image' values differ")):
            return False
        ref = standalone(case, key[0], key[1])
        return image_wrap_explained(a, ref) and image_wrap_explained(b, ref)
    ents = entries(ds, bool(case["temps"]), case["second"])
    want = [(float(k), (float(t) if t is not None else None)) for k in case["values"] for t in (case["temps"] or [None])]
    if sorted(ents, key=str) != sorted(want, key=str):
        rec.violation(f"C06:{tag}:entries-differ-from-request", f"labels {sorted(ents, key=str)} vs requested {sorted(want, key=str)}", case, index)
    for (k, t) in want:
        if (k, t) not in ents:
            continue
        ref = standalone(case, k, t)
        rec.count("standalone_exposures")
        rec.count("entries_vs_standalone")
        d = same_entry(ents[(k, t)], ref)
        if d and type_sweep_dask and d.startswith("'image' values differ") and image_wrap_explained(ents[(k, t)], ref):
            # (same_entry names the first differing bucket and 'image' is the last one: the others are equal)
            rec.violation(WRAP_KEY, f"run k={k}, {case['second']}={t}: the image of the parallel run is the standalone image "
                          f"cast to {np.asarray(ents[(k, t)]['image'].values).dtype} (the type the first run produced); "
                          f"standalone type {np.asarray(ref['image'].values).dtype}", case, index)
        elif d:
            bucket = d.split("'")[1] if "'" in d else "?"
            rec.violation(f"C06:{tag}:entry-differs-from-standalone:{bucket}",
                          f"run k={k}, {case['second']}={t}: {d} -- the run was influenced by another run or by shared state", case, index)
    # ---- (3) order / subset independence
    rev = list(reversed(case["values"]))
    ds_r, _, _, _ = observe(case, rev, case["temps"], case["dask"])
    rec.count("observations")
    rec.count("permutation_pairs")
    ents_r = entries(ds_r, bool(case["temps"]), case["second"])
    for key, sub in ents.items():
        if key in ents_r:
            d = same_entry(sub, ents_r[key])
            if d and wrap_class(key, sub, ents_r[key], d):
                rec.violation(WRAP_KEY, f"label {key}: {d} after reversing the value list (another first run, another image type)", case, index)
            elif d:
                rec.violation(f"C06:{tag}:entry-depends-on-run-order", f"label {key}: {d} after reversing the value list", case, index)
    sub_values = case["values"][1:]
    ds_s, _, _, _ = observe(case, sub_values, case["temps"], case["dask"])
    rec.count("observations")
    rec.count("subset_pairs")
    ents_s = entries(ds_s, bool(case["temps"]), case["second"])
    for key, sub in ents_s.items():
        if key in ents:
            d = same_entry(sub, ents[key])
            if d and wrap_class(key, sub, ents[key], d):
                rec.violation(WRAP_KEY, f"label {key}: {d} after removing the first run (another first run, another image type)", case, index)
            elif d:
                rec.violation(f"C06:{tag}:entry-depends-on-other-runs", f"label {key}: {d} after removing the first run", case, index)
    rec.observe("detectors", case["kind"])
    rec.case(sig, True, sample=case)


def run_shard(spec, rec):
    for i in range(spec["n"]):
        if not rec.wanted(i):
            continue
        run_case(rec, i, gen_case(rec.rng(i)))

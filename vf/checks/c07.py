"""C07 -- parallel execution yields the same results as sequential execution.

Monitors: results read *by label* from the dask result computed under several schedulers
(synchronous, thread pools of 1..16 workers, process pools) versus the sequential result;
task start/end events recorded by the probe give the completion orders and overlapping
pairs actually observed (data-dependent delays permute them between repetitions).  Seeded
stochastic pipelines of real models are compared bit for bit, and the process-wide generator
state is compared before/after.  Calibration with fixed seeds is repeated under different
scheduler / worker configurations and must report the same champions.
"""
from __future__ import annotations

import itertools
import os
import threading
import time

import numpy as np

from vf import build
from vf.checks import c05

ID = "C07"
LEVEL = "exploration"
REGISTER = True
TECHNIQUE = "runtime monitoring under perturbed schedules: label-wise differential (dask schedulers vs sequential), observed completion orders/overlaps, RNG-state monitor, calibration repeated across worker counts"
RULE = ("random parameter spaces (as C05) with deterministic probes and seeded stochastic pipelines of real models; "
        "schedulers synchronous / threads(1,2,4,8,16) / processes(2,4); every configuration recomputed with different "
        "data-dependent delays so that several completion orders are observed; toy calibrations repeated under "
        "different dask configurations; non-trivial = >=2 runs computed under a multi-worker scheduler; distinct = "
        "distinct (space, scheduler, workers, repetition) signatures")
ASSUMPTIONS = ["CPython has no happens-before race detector: races are decided by their observable effect "
               "(values, generator state) under perturbed schedules",
               "the dask path executes one extra metadata run per observation (allowed)"]
REQUIRED_COUNTERS = ["spaces", "computes", "labels_compared", "threads_computes", "processes_computes",
                     "synchronous_computes", "overlapping_task_pairs", "stochastic_labels_compared",
                     "rng_state_checks", "calibration_pairs", "unique_before_colliding",
                     "bag_computes", "bag_files_compared", "bag_overlapping_task_pairs",
                     "bag_first_combination_not_first_to_finish"]
TIMEOUT = {"quick": 1200, "thorough": 5400}
LEVEL_TEXT = ("Exploration by runtime monitoring under schedule perturbation: the same observation is executed "
              "sequentially and through dask under thread and process pools of different sizes, repeatedly, with "
              "data-dependent delays inside the models; results are compared by label, the evidence reports the distinct "
              "completion orders and overlapping task pairs that were actually observed; seeded stochastic pipelines and "
              "calibrations are compared bit for bit across schedulers.")
LEVEL_NOTE = ("Trusted: dask schedulers as installed; the probe's monotonic clock. A race that never changes an observable "
              "value in the explored schedules is invisible.")

SALT = [0]


def slow_enc(detector, **kw):
    """c05.enc plus task start/end events and a data-dependent delay (M7a)."""
    t0 = time.monotonic_ns()
    c05.enc(detector, **{k: v for k, v in kw.items() if k != "delay"})
    salt = int(os.environ.get("VF_SALT", SALT[0]))
    h = hash((round(float(kw.get("a", 0)) * 8), round(float(kw.get("b", 0)) * 8), salt))
    if kw.get("delay"):
        time.sleep((h % 5) * 0.0015)
    slow = os.environ.get("VF_SLOW")   # "a,b|a,b" (per probe row) of the run that has to finish last (bag case)
    if slow and slow.split("|")[kw.get("row", 0)] == f"{float(kw.get('a', 0))!r},{float(kw.get('b', 0))!r}":
        time.sleep(0.06)   # only the target run matches in both rows and sleeps twice
    with c05._LOCK:
        c05.LOG[-1]["t0"] = t0
        c05.LOG[-1]["t1"] = time.monotonic_ns()


def plan(tier, seed):
    n = 3 if tier == "quick" else 26
    specs = [{"shard": s, "seed": seed, "kind": "deterministic", "n": n} for s in range(9)]
    specs += [{"shard": 9 + s, "seed": seed, "kind": "stochastic", "n": 3 if tier == "quick" else 24} for s in range(4)]
    specs += [{"shard": 13 + s, "seed": seed, "kind": "calibration", "n": 2 if tier == "quick" else 10} for s in range(3)]
    specs += [{"shard": 16 + s, "seed": seed, "kind": "bagfiles", "n": 2 if tier == "quick" else 12} for s in range(3)]
    return specs


SCHEDULERS = [("synchronous", None), ("threads", 1), ("threads", 2), ("threads", 4), ("threads", 8),
              ("threads", 16), ("processes", 2), ("processes", 4)]


def label_map(ds, names):
    out = {}
    for sel, assignment, sub in c05.resolve_positions(ds, names):
        key = tuple(sorted((k, str(v)) for k, v in assignment.items()))
        out.setdefault(key, []).append({b: np.asarray(sub[b].values) for b in ("photon", "charge", "pixel", "signal", "image") if b in sub})
    return out


def compare_maps(ref, got):
    if sorted(ref) != sorted(got):
        return f"label sets differ: only-sequential={[k for k in ref if k not in got][:3]} only-parallel={[k for k in got if k not in ref][:3]}"
    for key in ref:
        a, b = ref[key], got[key]
        if len(a) != len(b):
            return f"label {key}: {len(a)} vs {len(b)} entries"
        for ea, eb in zip(a, b):
            for name in ea:
                if name not in eb:
                    return f"label {key}: bucket {name} missing in the parallel result"
                va, vb = ea[name].astype(float), eb[name].astype(float)
                if va.shape != vb.shape or not np.array_equal(va, vb, equal_nan=True):
                    return f"label {key}: bucket '{name}' differs"
    return None


def completion_stats(log):
    """Distinct completion order and number of overlapping task pairs from the probe events."""
    runs = {}
    for ev in log:
        r = runs.setdefault(ev["det"], {"t0": ev.get("t0", 0), "t1": ev.get("t1", 0), "vals": None})
        r["t0"] = min(r["t0"], ev.get("t0", r["t0"]))
        r["t1"] = max(r["t1"], ev.get("t1", r["t1"]))
        if ev["row"] == 0:
            r["vals"] = tuple(ev["vals"])
    items = sorted(runs.values(), key=lambda r: r["t1"])
    order = tuple(r["vals"] for r in items)
    overlaps = sum(1 for a, b in itertools.combinations(items, 2) if a["t0"] < b["t1"] and b["t0"] < a["t1"])
    threads = len({ev["thread"] for ev in log})
    return order, overlaps, threads


# ------------------------------------------------------------------ (A) deterministic spaces
def det_case(rec, index, rng, tier):
    import dask
    import pyxel
    from pyxel.exposure import Readout
    from pyxel.observation import Observation, ParameterValues

    space = c05.gen_space(rng, layout="unique-first" if index == 0 else None)
    space["two_steps"] = False
    en = [p for p in space["params"] if p["enabled"]]
    if space["mode"] == "custom":
        # custom tables are C05's business; here the same parameters are swept as a product.
        # (value lists are de-duplicated: the dask path refuses duplicated labels with an error)
        space["mode"] = "product"
        for p in space["params"]:
            uniq = []
            for v in p["values"]:
                if v not in uniq:
                    uniq.append(v)
            p["values"] = uniq[:3]
    zipped_class = space["mode"] == "sequential" and len(en) >= 2
    names = c05.dim_names(space)
    short = list(names.values())
    pspec = c05.probe_pipeline(space, func="vf.checks.c07.slow_enc", extra={"delay": True})
    case = {k: space[k] for k in ("g1", "g2", "mode", "params")}

    def observation(dask_on):
        pv = [ParameterValues(key=p["key"].replace(".m1.", ".m1.").replace(".m2.", ".m2."), values=p["expr"] or p["values"],
                              enabled=p["enabled"]) for p in space["params"]]
        return Observation(parameters=pv, readout=Readout(times=[1.0]), mode=space["mode"], with_dask=dask_on)

    rec.count("spaces")
    rec.count("unique_before_colliding", int(c05.unique_before_colliding(space) and not zipped_class))
    try:
        det = build.make_detector(build.default_detector_spec("ccd", c05.ROWS, c05.COLS))
        tree = pyxel.run_mode(mode=observation(False), detector=det, pipeline=build.make_pipeline(pspec), with_inherited_coords=True)
        ref = label_map(tree["/bucket"].to_dataset(), short)
        det = build.make_detector(build.default_detector_spec("ccd", c05.ROWS, c05.COLS))
        lazy = pyxel.run_mode(mode=observation(True), detector=det, pipeline=build.make_pipeline(pspec), with_inherited_coords=True)
        lazy_ds = lazy["/bucket"].to_dataset()
    except Exception as exc:  # noqa: BLE001
        import traceback
        mech = "C07:sequential-mode+with_dask:parameters-zipped" if zipped_class else "C07:observation:run-failed"
        rec.violation(mech, f"{type(exc).__name__}: {exc} :: {traceback.format_exc()[-500:]}", case, index)
        return
    scheds = [SCHEDULERS[0]] + rng.sample(SCHEDULERS[1:6], 2 if tier == "quick" else 4) + [rng.choice(SCHEDULERS[6:])]
    n_runs = sum(len(v) for v in ref.values())
    for sched, workers in scheds:
        reps = 1 if sched in ("synchronous", "processes") else (2 if tier == "quick" else 3)
        for rep in range(reps):
            SALT[0] = rng.randint(0, 10**6)
            os.environ["VF_SALT"] = str(SALT[0])
            with c05._LOCK:
                c05.LOG.clear()
                c05._KEEP.clear()
            kwargs = {"scheduler": sched}
            if workers:
                kwargs["num_workers"] = workers
            try:
                with dask.config.set(**kwargs):
                    got_ds = lazy_ds.compute()
            except Exception as exc:  # noqa: BLE001
                import traceback
                rec.violation(f"C07:observation:{sched}:compute-failed", f"{type(exc).__name__}: {exc} :: {traceback.format_exc()[-500:]}", case, index)
                continue
            rec.count("computes")
            rec.count(f"{sched}_computes")
            got = label_map(got_ds, short)
            rec.count("labels_compared", len(got))
            diff = compare_maps(ref, got)
            if diff:
                mech = ("C07:sequential-mode+with_dask:parameters-zipped" if zipped_class
                        else f"C07:observation:{sched}:differs-from-sequential")
                rec.violation(mech, f"{sched}/{workers} workers, repetition {rep}: {diff}", case, index)
            if sched == "threads":
                with c05._LOCK:
                    log = list(c05.LOG)
                order, overlaps, nthreads = completion_stats(log)
                rec.count("overlapping_task_pairs", overlaps)
                rec.observe("completion_orders", f"{index}:{hash(order) % 10**8}")
                rec.observe("worker_threads_seen", nthreads)
                if workers and workers > 1 and n_runs > 1:
                    rec.count("multiworker_computes")
            rec.case((space["mode"], [(p["key"], p["values"], p["enabled"]) for p in space["params"]], sched, workers, rep),
                     n_runs >= 2 and sched != "synchronous",
                     sample={"space": case, "scheduler": sched, "workers": workers})


# ------------------------------------------------------------------ (B) seeded stochastic pipelines
def stochastic_pipeline():
    return {
        "photon_collection": [
            {"name": "illumination", "func": "pyxel.models.photon_collection.illumination", "arguments": {"level": 500.0}},
            {"name": "shot_noise", "func": "pyxel.models.photon_collection.shot_noise", "arguments": {}}],
        "charge_generation": [{"name": "conv", "func": "pyxel.models.charge_generation.simple_conversion", "arguments": {}}],
        "charge_collection": [{"name": "coll", "func": "pyxel.models.charge_collection.simple_collection", "arguments": {}}],
        "charge_measurement": [{"name": "meas", "func": "pyxel.models.charge_measurement.simple_measurement", "arguments": {}}],
        "readout_electronics": [{"name": "adc", "func": "pyxel.models.readout_electronics.simple_adc", "arguments": {}}],
    }


def rng_fingerprint():
    st = np.random.get_state()
    return (st[0], hash(st[1].tobytes()), st[2], st[3], st[4])


def stoch_case(rec, index, rng, tier):
    import dask
    import pyxel
    from pyxel.exposure import Readout
    from pyxel.observation import Observation, ParameterValues

    levels = sorted(rng.sample([50.0, 100.0, 200.0, 400.0, 800.0, 1600.0, 3200.0, 6400.0], rng.randint(4, 8)))
    seed = rng.randint(0, 10**6)
    rows, cols = rng.randint(4, 12), rng.randint(4, 12)
    times = [1.0] if rng.random() < 0.5 else [1.0, 2.0]
    case = {"levels": levels, "pipeline_seed": seed, "shape": [rows, cols], "times": times}

    def obs(dask_on):
        return Observation(parameters=[ParameterValues(key="pipeline.photon_collection.illumination.arguments.level", values=levels)],
                           readout=Readout(times=times), with_dask=dask_on, pipeline_seed=seed)

    def run(dask_on):
        det = build.make_detector(build.default_detector_spec("ccd", rows, cols))
        return pyxel.run_mode(mode=obs(dask_on), detector=det, pipeline=build.make_pipeline(stochastic_pipeline()),
                              with_inherited_coords=True)["/bucket"].to_dataset()

    np.random.seed(rng.randint(0, 2**31))
    try:
        ref = label_map(run(False), ["level"])
        lazy = run(True)
    except Exception as exc:  # noqa: BLE001
        import traceback
        rec.violation("C07:stochastic:run-failed", f"{type(exc).__name__}: {exc} :: {traceback.format_exc()[-500:]}", case, index)
        return
    for sched, workers in [("threads", 16), ("threads", rng.choice([2, 4, 8])), ("synchronous", None)]:
        for rep in range(2 if tier == "quick" else 4):
            before = rng_fingerprint()
            kwargs = {"scheduler": sched, **({"num_workers": workers} if workers else {})}
            with dask.config.set(**kwargs):
                got = label_map(lazy.compute(), ["level"])
            after = rng_fingerprint()
            rec.count("rng_state_checks")
            rec.count("stochastic_labels_compared", len(got))
            if before != after:
                rec.violation(f"C07:stochastic:{sched}:global-generator-not-restored",
                              f"numpy.random state changed across a seeded parallel compute ({sched}/{workers})", case, index)
            diff = compare_maps(ref, got)
            if diff:
                rec.violation(f"C07:{sched}:seeded-stochastic-differs-from-sequential",
                              f"{sched}/{workers} workers, repetition {rep}: {diff}", case, index)
            rec.case(("stochastic", levels, seed, rows, cols, sched, workers, rep), sched == "threads",
                     sample={"stochastic": case, "scheduler": sched, "workers": workers})


# ------------------------------------------------------------------ (D) files of pyxel.observation_mode (dask bag)
def bag_case(rec, index, rng, tier):
    """pyxel.observation_mode(with_dask=True) distributes the runs with a dask bag and every task saves its own
    files: the files (names and contents) must be those of the sequential run and correspond one-to-one to the
    parameter combinations, whichever task finishes first."""
    import dask
    import pyxel
    from pyxel.exposure import Readout
    from pyxel.observation import Observation, ParameterValues
    from pyxel.outputs import ObservationOutputs

    space = c05.gen_space(rng)
    space["mode"], space["two_steps"] = "product", False
    keep = []
    for p in space["params"]:
        if p["key"].endswith((".a", ".b")) and len(keep) < 2:
            uniq = []
            for v in p["values"]:
                if v not in uniq:
                    uniq.append(v)
            p.update(values=uniq[:4], expr=None, enabled=True)
            keep.append(p)
    if not keep:
        g1 = space["g1"]
        keep = [{"key": f"pipeline.{g1}.m1.arguments.a", "values": [float(x) for x in rng.sample(range(1, 60), rng.randint(2, 5))],
                 "expr": None, "enabled": True}]
    for p in keep:
        # (a single-valued parameter makes the deprecated entry point fail in xr.combine_by_coords, sequentially
        #  and in parallel alike: not this property's subject)
        if len(p["values"]) < 2:
            p["values"] = [p["values"][0], p["values"][0] + 7, p["values"][0] + 19]
    space["params"] = keep
    expected = c05.enumerate_runs(space)
    pspec = c05.probe_pipeline(space, func="vf.checks.c07.slow_enc", extra={"delay": True})
    case = {k: space[k] for k in ("g1", "g2", "mode", "params")}
    case["entry_point"] = "pyxel.observation_mode"
    n_exp = len(expected)
    oracle = [c05.encode(space, a) for a in expected]
    counter = [0]

    def run(dask_on, **sched):
        counter[0] += 1
        folder = os.path.join(rec.tmp, f"bag_{index}_{counter[0]}")
        pv = [ParameterValues(key=p["key"], values=p["values"], enabled=True) for p in space["params"]]
        obs = Observation(parameters=pv, readout=Readout(times=[1.0]), mode="product", with_dask=dask_on,
                          outputs=ObservationOutputs(output_folder=folder, save_data_to_file=[{"detector.pixel.array": ["npy"]}]))
        det = build.make_detector(build.default_detector_spec("ccd", c05.ROWS, c05.COLS))
        with dask.config.set(**sched):
            res = pyxel.observation_mode(observation=obs, detector=det, pipeline=build.make_pipeline(pspec))
        out = obs.outputs.current_output_folder
        files = {f: np.load(os.path.join(out, f)) for f in sorted(os.listdir(out)) if f.endswith(".npy")}
        return files, res.dataset

    def one_to_one(files):
        """every expected combination is the content of exactly one file and vice versa"""
        left = list(files.items())
        missing = 0
        for want in oracle:
            hit = next((i for i, (_, arr) in enumerate(left) if arr.shape == want.shape and np.array_equal(arr, want)), None)
            if hit is None:
                missing += 1
            else:
                left.pop(hit)
        return missing, [name for name, _ in left]

    rec.count("bag_spaces")
    os.environ.pop("VF_SLOW", None)
    try:
        ref_files, ref_ds = run(False, scheduler="synchronous")
    except Exception as exc:  # noqa: BLE001
        import traceback
        rec.violation("C07:observation_mode:sequential-run-failed", f"{type(exc).__name__}: {exc} :: {traceback.format_exc()[-500:]}", case, index)
        return
    missing, extra = one_to_one(ref_files)
    if missing or extra:
        rec.violation("C07:observation_mode:sequential:files-not-one-to-one",
                      f"{n_exp} combinations: {missing} without a file holding their pixel bucket, files matching no combination: {extra[:4]}", case, index)
    scheds = [("threads", rng.choice([2, 4])), ("threads", rng.choice([8, 16])), ("processes", rng.choice([2, 4]))]
    if tier == "quick" and index % 2:
        scheds = scheds[:2]
    for sched, workers in scheds:
        for rep in range(1 if sched == "processes" else 3):
            # rep 0: the first combination is the slowest one; rep 1: the last one; rep 2: hashed delays only
            slow = expected[0] if rep == 0 else (expected[-1] if rep == 1 else None)
            os.environ.pop("VF_SLOW", None)
            if slow is not None:
                full = {**space["defaults"], **slow}
                pres = [f"pipeline.{space['g1']}.m1.arguments.", f"pipeline.{space['g2']}.m2.arguments."]
                os.environ["VF_SLOW"] = "|".join(f"{float(full[pre + 'a'])!r},{float(full[pre + 'b'])!r}" for pre in pres)
            os.environ["VF_SALT"] = str(rng.randint(0, 10**6))
            with c05._LOCK:
                c05.LOG.clear()
                c05._KEEP.clear()
            try:
                files, ds = run(True, scheduler=sched, num_workers=workers)
            except Exception as exc:  # noqa: BLE001
                import traceback
                rec.violation(f"C07:observation_mode:{sched}:run-failed",
                              f"{sched}/{workers}: {type(exc).__name__}: {exc} :: {traceback.format_exc()[-500:]}", case, index)
                continue
            finally:
                os.environ.pop("VF_SLOW", None)
            rec.count("bag_computes")
            rec.count("bag_files_compared", len(files))
            missing, extra = one_to_one(files)
            if missing or extra:
                rec.violation(f"C07:observation_mode:{sched}:files-not-one-to-one",
                              f"{sched}/{workers} workers, {n_exp} combinations: {missing} without a file holding their pixel bucket, "
                              f"files matching no combination: {extra[:4]}; files: {sorted(files)}", case, index)
            elif sorted(files) != sorted(ref_files) or any(not np.array_equal(files[f], ref_files[f]) for f in files):
                moved = [f for f in files if f not in ref_files or not np.array_equal(files[f], ref_files[f])]
                rec.violation(f"C07:observation_mode:{sched}:files-differ-from-sequential",
                              f"{sched}/{workers} workers: the parallel run wrote {sorted(files)}, the sequential run {sorted(ref_files)}; "
                              f"files with another name or content: {moved[:4]}", case, index)
            try:
                same = bool(ds.equals(ref_ds))
            except Exception:  # noqa: BLE001
                same = False
            if not same:
                rec.violation(f"C07:observation_mode:{sched}:dataset-differs-from-sequential",
                              f"{sched}/{workers} workers: ObservationResult.dataset is not equal to the sequential one", case, index)
            if sched == "threads":
                with c05._LOCK:
                    log = list(c05.LOG)
                order, overlaps, _ = completion_stats(log)
                rec.count("bag_overlapping_task_pairs", overlaps)
                first = tuple(oracle[0][0, :5])
                if order and order[0] is not None and tuple(order[0][:5]) != first:
                    rec.count("bag_first_combination_not_first_to_finish")
                rec.observe("bag_completion_orders", f"{index}:{hash(order) % 10**8}")
            rec.case(("bag", [(p["key"], p["values"]) for p in space["params"]], sched, workers, rep), n_exp >= 2,
                     sample={"space": case, "scheduler": sched, "workers": workers})


# ------------------------------------------------------------------ (C) calibration across configurations
CAL_LOG: list = []


def calmodel(detector, a=1.0, v=(1.0, 1.0)):
    shape = detector.geometry.shape
    base = np.arange(shape[0] * shape[1], dtype=float).reshape(shape)
    h = hash((round(float(a) * 1000), SALT[0]))
    time.sleep((h % 4) * 0.0008)
    with c05._LOCK:
        CAL_LOG.append(threading.get_ident())
    detector.pixel.array = a * base + v[0] + 0.1 * v[1]


def cal_case(rec, index, rng, tier):
    import dask
    import pyxel
    from pyxel.calibration import Algorithm, Calibration
    from pyxel.observation import ParameterValues
    from pyxel.pipelines import FitnessFunction

    rows, cols = 3, 4
    path = os.path.join(rec.tmp, f"target_{index}.npy")
    np.save(path, np.random.default_rng(index).random((rows, cols)) * 20)
    pygmo_seed = rng.randint(1, 99999)
    islands = rng.choice([1, 2, 3])
    algo = rng.choice(["sade", "sga"])
    case = {"pygmo_seed": pygmo_seed, "islands": islands, "algorithm": algo}
    pspec = {"charge_collection": [{"name": "m", "func": "vf.checks.c07.calmodel", "arguments": {"a": 1.0, "v": [1.0, 1.0]}}]}

    def run(sched, workers):
        SALT[0] = rng.randint(0, 10**6)
        cal = Calibration(
            target_data_path=[path],
            fitness_function=FitnessFunction(func="pyxel.calibration.fitness.sum_of_abs_residuals"),
            algorithm=Algorithm(type=algo, generations=2, population_size=8),
            parameters=[ParameterValues(key="pipeline.charge_collection.m.arguments.a", values="_", boundaries=(0.0, 10.0)),
                        ParameterValues(key="pipeline.charge_collection.m.arguments.v", values=["_", "_"], logarithmic=True,
                                        boundaries=[(1e-2, 1e2), (1.0, 10.0)])],
            result_type="pixel", result_fit_range=(0, rows, 0, cols), target_fit_range=(0, rows, 0, cols),
            pygmo_seed=pygmo_seed, pipeline_seed=11, num_islands=islands, num_evolutions=2)
        det = build.make_detector(build.default_detector_spec("ccd", rows, cols))
        kwargs = {"scheduler": sched, **({"num_workers": workers} if workers else {})}
        with dask.config.set(**kwargs):
            tree = pyxel.run_mode(mode=cal, detector=det, pipeline=build.make_pipeline(pspec), with_inherited_coords=True)
            ch = tree["/champion"].to_dataset()
            return {k: np.asarray(ch[k].values) for k in ("fitness", "decision", "parameters")}

    configs = [("synchronous", None), ("threads", 1), ("threads", 4), ("threads", 16)]
    try:
        ref = run(*configs[0])
    except Exception as exc:  # noqa: BLE001
        import traceback
        rec.violation("C07:calibration:run-failed", f"{type(exc).__name__}: {exc} :: {traceback.format_exc()[-500:]}", case, index)
        return
    for sched, workers in rng.sample(configs[1:], 2 if tier == "quick" else 3) + [configs[0]]:
        got = run(sched, workers)
        rec.count("calibration_pairs")
        for k in ref:
            if ref[k].shape != got[k].shape or not np.array_equal(ref[k], got[k]):
                rec.violation(f"C07:calibration:champion-{k}-depends-on-workers",
                              f"/champion/{k} differs between synchronous and {sched}/{workers}: {ref[k].ravel()[:4]} vs {got[k].ravel()[:4]}", case, index)
                break
        rec.case(("calibration", pygmo_seed, islands, algo, sched, workers), True,
                 sample={"calibration": case, "scheduler": sched, "workers": workers})
    rec.observe("calibration_worker_threads", len(set(CAL_LOG)))


def run_shard(spec, rec):
    tier = "quick" if spec["n"] <= 4 else "thorough"
    for i in range(spec["n"]):
        if not rec.wanted(i):
            continue
        rng = rec.rng(i)
        if spec["kind"] == "deterministic":
            det_case(rec, i, rng, tier)
        elif spec["kind"] == "stochastic":
            stoch_case(rec, i, rng, tier)
        elif spec["kind"] == "bagfiles":
            bag_case(rec, i, rng, tier)
        else:
            cal_case(rec, i, rng, tier)


def finalize(counters, sets, tier):
    out = []
    if len(sets.get("completion_orders", [])) < 2:
        out.append("fewer than two distinct completion orders were observed under the thread schedulers")
    return out


def coverage_extra(counters, sets, tier):
    return {"distinct_completion_orders": len(sets.get("completion_orders", [])),
            "overlapping_task_pairs": counters.get("overlapping_task_pairs", 0)}

"""C08 -- a dotted parameter key addresses exactly one existing setting.

Monitors: (1) deep structural snapshot (vf.snapshot) of the whole Processor before/after every
assignment, (2) a *public* settings view (every public attribute of geometry / environment /
characteristics, every model's name / enabled flag / arguments) before/after, (3) the probe model
`probe` below which records, inside real runs, the arguments it received and the detector settings
it saw, (4) an audit hook that notices evaluated text.  Oracles (no pyxel imports): the catalogue
of settable fields per detector type (from the documentation), `ast.literal_eval` for textual
values, an exact-name resolver for keys, vf.build.expected_calls for what a run must execute.
"""
from __future__ import annotations

import ast
import collections.abc
import copy
import dataclasses
import inspect
import numbers
import sys

import numpy as np

from vf import build, probes, snapshot

ID = "C08"
LEVEL = "exploration"
REGISTER = True
TECHNIQUE = ("runtime monitoring: snapshot differencing of the processor object graph around every assignment, "
             "read-back, literal-conversion oracle, probe-model trace of runs started through every entry point")
RULE = ("random CCD/CMOS/MKID/APD processors with generated probe pipelines (1-4 groups, 1-3 models, 1-5 arguments, "
        "names that are prefixes of each other, model names shared between groups in half of the cases, dictionary-valued "
        "arguments whose entries are addressed with one more key component; environment.wavelength not given / one "
        "value / multi-wavelength {cut_on, cut_off, resolution} whose components are addressed with one more key "
        "component); every valid key x one value shape per case; "
        "sweep-like histories (2-5 copies of one processor through Processor.replace / deepcopy+set, valid observation "
        "sweeps seq/dask/YAML over 1-2 keys) judged after all points; ~60 tricky texts; "
        "~60 mutated keys per case (edit, abbreviation, truncation at each dot, extension, wrong group/model/argument, "
        "dots, root, case) through has/get/set, override_dct, pyxel.run(override=), observation (seq/dask/YAML), "
        "calibration; sweeps of undeclared arguments and of disabled models; sessions of 2-4 validations / runs of ONE "
        "Observation object while the swept model is switched off / on or another pipeline is handed in, every run "
        "judged against its own configuration; an evaluation = one (entry point, key, "
        "value) triple, non-trivial always; distinct = distinct triples")
ASSUMPTIONS = [
    "settable fields per detector type are those of the documented constructors (catalogue below); other public "
    "attributes of the same object (shape, system_gain, avalanche_bias ...) are derived and may follow",
    "APD avalanche_gain / pixel_reset_voltage / common_voltage are one linked triple (any two determine the third)",
    "list values: element-wise conversion of textual elements and verbatim storage are both accepted; list/tuple "
    "are interchangeable",
    "texts whose literal is not a number/list/string (None, dict, set, Ellipsis, bytes), empty text and texts that "
    "look quoted but are no valid literal may be refused",
    "geometry.row/col are not changed through run entry points (the buckets are already allocated)",
    "Arguments is probed directly (mapping/attribute assignment of an unknown name) because Processor.set masks it",
    "interpretation: a valid key with an in-range native value (number, text, list, ndarray) must be applied, not "
    "refused; has() must be True for every catalogued setting; a non-literal text without surrounding quotes must be "
    "kept verbatim (refusing it counts as a violation); has() answering True for a non-setting is only counted",
    "an entry of a dictionary-valued argument (pipeline.<g>.<m>.arguments.<a>.<entry>) may be refused as a whole (has() "
    "False / rejected before any pipeline); when it is accepted, everything demanded of a setting applies, except the "
    "read-back through Processor.get which is observe-only (reported finding: get raises AttributeError)",
    "a copy of a processor (Processor.replace, deepcopy) is how sweeps assign: assignments on a copy must leave the "
    "public settings of the original and of the other copies as configured; the dask path may run a point twice",
    "two swept keys with the same (model name, argument name) in two groups collide in the axis labels of the result: "
    "counted (layout of sweep results is another property)",
    "a field configured as a structured value (multi-wavelength environment) is addressed component by component; "
    "component values are generated in disjoint ranges so that cut_on < cut_off holds after every assignment; the "
    "field may also be re-assigned as a whole with a plain value",
    "an Observation object may be validated / run several times; what it accepted or refused before is irrelevant: "
    "each run is decided by the configuration handed in for that run",
    "an accepted key whose components all name existing objects exactly (e.g. 'detector', a private alias) is "
    "tolerated when it replaces exactly that object or the run then dies before any model; it is a violation when it "
    "adds an attribute / dict entry or changes nothing and the pipeline still runs",
]
REQUIRED_COUNTERS = [
    "valid_has_true", "valid_set_applied", "struct_diffs_checked", "public_diffs_checked", "readback_checked",
    "text_converted", "text_kept", "invalid_direct_rejected", "arguments_mapping_probed",
    "run_override_valid_applied", "run_cli_valid_applied", "run_override_invalid_rejected",
    "run_cli_invalid_rejected", "run_obs_seq_invalid_rejected", "run_obs_dask_invalid_rejected",
    "run_calib_invalid_rejected", "sweep_undeclared_seq", "sweep_undeclared_dask", "sweep_disabled_seq",
    "sweep_disabled_dask", "probe_events", "key_class_truncate", "key_class_edit", "key_class_abbrev",
    "entry_set_applied", "shared_name_pipelines", "sweep_disabled_namesake", "copy_original_unchanged",
    "copy_points_checked", "sweep_valid_seq", "sweep_valid_dask", "subfield_set_applied",
    "obs_reuse_valid_accepted", "obs_reuse_refused_after_accepted", "obs_reuse_accepted_after_refused",
]
TIMEOUT = {"quick": 600, "thorough": 3000}
LEVEL_TEXT = ("Exploration by runtime monitoring: thousands (quick) to tens of thousands (thorough) of (entry point, key, "
              "value) triples on generated processors; every assignment is bracketed by a full structural snapshot and a "
              "public settings view, runs started through overrides / CLI / observation / calibration are observed by probe "
              "models. Held = on the executions observed.")
LEVEL_NOTE = ("Trusted: vf.snapshot walker, ast.literal_eval, the field catalogue copied from the documentation, the probe "
              "model (reads public attributes only).")

# Fixed finding (134d9c9): Processor.get of an argument whose name collides with a Mapping method returned the
# bound method.  Still raised with exactly this mechanism, only for that input class, should it come back.
MAPPING_METHOD_MECH = "C08:get:argument-named-like-mapping-method"
MAPPING_NAMES = ("values", "keys", "items", "get", "update", "pop", "clear", "setdefault", "popitem")

PROBE = "vf.checks.c08.probe"
KINDS = ("ccd", "cmos", "mkid", "apd")

# ------------------------------------------------------------------ catalogue (from the documentation)
GEOMETRY = {"row": ("int", 1, 30), "col": ("int", 1, 30), "total_thickness": ("float", 0.0, 10000.0),
            "pixel_vert_size": ("float", 0.0, 1000.0), "pixel_horz_size": ("float", 0.0, 1000.0),
            "pixel_scale": ("float", 0.0, 1000.0)}
ENVIRONMENT = {"temperature": ("float", 0.5, 1000.0), "wavelength": ("float", 1.0, 2000.0)}
CHAR_COMMON = {"quantum_efficiency": ("float", 0.0, 1.0), "full_well_capacity": ("float", 0.0, 1.0e7),
               "adc_bit_resolution": ("int", 4, 64), "adc_voltage_range": ("pair", -20.0, 20.0)}
CHAR_STD = {"charge_to_volt_conversion": ("float", 0.0, 100.0), "pre_amplification": ("float", 0.0, 10000.0)}
CHAR_APD = {"avalanche_gain": ("float", 1.0, 1000.0), "pixel_reset_voltage": ("float", 6.0, 12.0),
            "common_voltage": ("float", -3.0, 3.0)}
APD_LINKED = ("avalanche_gain", "pixel_reset_voltage", "common_voltage")
SECTIONS = ("geometry", "environment", "characteristics")
# a field may be configured as a structured value (documentation: multi-wavelength environment
# `wavelength: {cut_on, cut_off, resolution}`); its components are then settings of their own, addressed with one more
# key component.  Disjoint ranges keep cut_on < cut_off whatever the order of the assignments.
STRUCTURED = {("environment", "wavelength"): {"cut_on": ("float", 100.0, 500.0), "cut_off": ("float", 600.0, 2000.0),
                                              "resolution": ("int", 1, 50)}}
SUBFIELD = "detector-subfield"
DET = ("detector-field", SUBFIELD)


def catalogue(kind: str) -> dict:
    ch = dict(CHAR_COMMON)
    ch.update(CHAR_APD if kind == "apd" else CHAR_STD)
    return {"geometry": dict(GEOMETRY), "environment": dict(ENVIRONMENT), "characteristics": ch}


# ------------------------------------------------------------------ probe model (M1)
def read_fields(detector) -> dict:
    """Every public, non-callable attribute of the three settings objects (raw values)."""
    out = {}
    for sec in SECTIONS:
        obj = getattr(detector, sec)
        for name in dir(obj):
            if name.startswith("_") or name == "numbytes":
                continue
            try:
                val = getattr(obj, name)
            except Exception as exc:  # noqa: BLE001
                out[f"detector.{sec}.{name}"] = f"<raises {type(exc).__name__}>"
                continue
            if callable(val):
                continue
            _flatten_field(out, f"detector.{sec}.{name}", val)
    return out


def is_structured(val) -> bool:
    """A settings object of its own (dataclass instance / plain object with public attributes), not a value."""
    if isinstance(val, (type, np.ndarray, np.generic, numbers.Number, str, bytes, list, tuple, dict, set, frozenset)):
        return False
    if val is None or callable(val):
        return False
    mod = type(val).__module__ or ""
    if mod.split(".")[0] in ("builtins", "numpy", "xarray", "pandas", "astropy", "collections", "pathlib"):
        return False
    return dataclasses.is_dataclass(val) or bool(getattr(val, "__dict__", None))


def sub_names(val) -> list:
    return [n for n in dir(val) if not n.startswith("_") and not callable(inspect.getattr_static(val, n, None))]


def _flatten_field(out, key, val, depth=0):
    """A structured field is shown component by component (each component is addressable by a key)."""
    if depth < 2 and is_structured(val):
        out[key + "/<type>"] = type(val).__name__
        for name in sub_names(val):
            try:
                sub = getattr(val, name)
            except Exception as exc:  # noqa: BLE001
                out[f"{key}.{name}"] = f"<raises {type(exc).__name__}>"
                continue
            if callable(sub):
                continue
            _flatten_field(out, f"{key}.{name}", sub, depth + 1)
    else:
        out[key] = copy.deepcopy(val)


def probe(detector, **kwargs) -> None:
    """Record the arguments received and the detector settings seen; never writes to the detector."""
    ev = {"kind": "call", "model": detector.current_running_model_name, "det": id(detector),
          "kwargs": copy.deepcopy(kwargs), "fields": read_fields(detector)}
    probes.keep(detector)
    probes.emit(ev)


# ------------------------------------------------------------------ audit monitor (text must never be executed)
_AUDIT = {"on": False, "hits": []}
_AUDIT_INSTALLED = []


def _audit_hook(event, args):
    if not _AUDIT["on"]:
        return
    if event in ("os.system", "subprocess.Popen", "os.posix_spawn", "os.exec"):
        _AUDIT["hits"].append(event)
    elif event == "exec":
        code = args[0] if args else None
        if getattr(code, "co_filename", "") == "<string>":
            _AUDIT["hits"].append("exec:<string>")


def audit_install():
    if not _AUDIT_INSTALLED:
        sys.addaudithook(_audit_hook)
        _AUDIT_INSTALLED.append(True)


# ------------------------------------------------------------------ value oracle (no pyxel)
def literal(text: str):
    try:
        return True, ast.literal_eval(text)
    except (ValueError, SyntaxError, TypeError, MemoryError, RecursionError):
        return False, None


def exotic(text: str) -> bool:
    """Non-literal texts that may be refused: empty/blank, or looking quoted without being a literal."""
    return text.strip() == "" or (text[0] == text[-1] and text[0] in "'\"")


def _plain_literal(v) -> bool:
    if isinstance(v, (bool, int, float, complex, str)):
        return True
    if isinstance(v, (list, tuple)):
        return True
    return False


def expectation(value, convert: bool):
    """-> (kind, alternatives).  kind 'exact': the stored value must equal one alternative;
    'undefined': a refusal is fine, otherwise one of the alternatives."""
    if not convert:
        return "exact", [value]
    if isinstance(value, str):
        ok, lit = literal(value)
        if ok and _plain_literal(lit):
            return "exact", [lit]
        if ok:
            return "undefined", [lit, value]
        if exotic(value):
            return "undefined", [value]
        return "exact", [value]
    if isinstance(value, (list, tuple)):
        conv, kind = [], "exact"
        for e in value:
            if isinstance(e, str) and e:
                k, alts = expectation(e, True)
                if k != "exact":
                    kind = "undefined"
                conv.append(alts[0])
            else:
                conv.append(e)
        return kind, [conv, list(value)]
    if isinstance(value, np.ndarray):
        return "exact", [value]
    if isinstance(value, numbers.Number) and not isinstance(value, np.bool_):
        return "exact", [value]
    return "undefined", [value]


def same(a, b) -> bool:
    """Value equality that distinguishes text / number / bool / sequence / array, int from float;
    list and tuple are interchangeable; NaN equals NaN."""
    if isinstance(a, np.ndarray) or isinstance(b, np.ndarray):
        if not (isinstance(a, np.ndarray) and isinstance(b, np.ndarray)):
            return False
        if a.shape != b.shape or a.dtype.kind != b.dtype.kind:
            return False
        try:
            return bool(np.array_equal(a, b, equal_nan=a.dtype.kind in "fc"))
        except TypeError:
            return bool(np.array_equal(a, b))
    if isinstance(a, (list, tuple)) or isinstance(b, (list, tuple)):
        if not (isinstance(a, (list, tuple)) and isinstance(b, (list, tuple))):
            return False
        return len(a) == len(b) and all(same(x, y) for x, y in zip(a, b))
    if isinstance(a, (bool, np.bool_)) or isinstance(b, (bool, np.bool_)):
        return isinstance(a, (bool, np.bool_)) and isinstance(b, (bool, np.bool_)) and bool(a) == bool(b)
    if isinstance(a, (str, bytes)) or isinstance(b, (str, bytes)):
        return type(a) is type(b) and a == b
    if isinstance(a, numbers.Number) and isinstance(b, numbers.Number):
        if isinstance(a, numbers.Integral) != isinstance(b, numbers.Integral):
            return False
        if isinstance(a, numbers.Complex) and not isinstance(a, numbers.Real) or \
                isinstance(b, numbers.Complex) and not isinstance(b, numbers.Real):
            return complex(a) == complex(b)
        if a != a and b != b:
            return True
        return a == b
    if a is None or b is None:
        return a is None and b is None
    if isinstance(a, dict) and isinstance(b, dict):
        return list(a) == list(b) and all(same(a[k], b[k]) for k in a)
    try:
        return bool(a == b)
    except Exception:  # noqa: BLE001
        return False


def _detuple(v):
    if isinstance(v, (list, tuple)):
        return [_detuple(x) for x in v]
    if isinstance(v, dict):
        return {k: _detuple(x) for k, x in v.items()}
    return v


def norm(v) -> str:
    """Canonical deep value (type-sensitive except that list and tuple are interchangeable)."""
    return repr(sorted(snapshot.snap(_detuple(v)).items()))


def text_class(t: str) -> str:
    ok, lit = literal(t)
    if ok:
        if isinstance(lit, (bool, int, float, complex)):
            return "numeric-text"
        if isinstance(lit, (list, tuple)):
            return "sequence-text"
        if isinstance(lit, str):
            return "quoted-text"
        return "other-literal-text"
    if "\\" in t:
        return "backslash-text"
    if "'" in t or '"' in t:
        return "embedded-quote-text"
    if "(" in t or "+" in t:
        return "code-like-text"
    return "plain-text"


def value_class(v) -> str:
    if isinstance(v, str):
        return text_class(v)
    if isinstance(v, np.ndarray):
        return "ndarray"
    if isinstance(v, np.generic):
        return "numpy-scalar"
    if isinstance(v, bool):
        return "bool"
    if isinstance(v, (int, float, complex)):
        return type(v).__name__
    if isinstance(v, (list, tuple)):
        return type(v).__name__
    return type(v).__name__


def report(rec, mech, detail, case, index):
    rec.violation(mech, detail, case, index)


# ------------------------------------------------------------------ generators
ARG_NAMES = ["a", "ab", "abc", "level", "lev", "file", "gain", "x_y", "enabled", "arguments", "name", "row", "k0"]
EXT = ["zz9", "foo", "real", "value", "0", "arguments", "enabled", "name", "x"]
ALPHA = "abcdefghijklmnopqrstuvwxyz_0"
ENTRY_NAMES = ["k0", "k1", "threshold", "seed", "enabled", "name", "n", "shape", "arguments", "lev"]
ENTRY = "argument-entry"  # an entry inside a dictionary-valued argument: pipeline.<g>.<m>.arguments.<a>.<entry>[.<entry>]


def rand_value(rng, depth=0):
    kind = rng.choice(["int", "float", "str", "bool", "none", "list", "nested"] if depth < 2
                      else ["int", "float", "str", "bool"])
    if kind == "int":
        return rng.randint(-1000, 1000)
    if kind == "float":
        return rng.choice([0.5, 1.25, -3.75, 1e-3, 2.5e6]) * rng.randint(1, 9)
    if kind == "str":
        return rng.choice(["alpha", "beta", "x y", "file.fits", "true-ish", "0x10", "a.b.c"])
    if kind == "bool":
        return rng.random() < 0.5
    if kind == "none":
        return None
    if kind == "list":
        return [rand_value(rng, depth + 1) for _ in range(rng.randint(0, 3))]
    return {"k" + str(i): rand_value(rng, depth + 1) for i in range(rng.randint(1, 2))}


def rand_dict(rng, depth=0) -> dict:
    """A dictionary-valued argument (nested configuration): 1-3 entries, sometimes a dictionary again."""
    out = {}
    for nm in rng.sample(ENTRY_NAMES, rng.randint(1, 3)):
        out[nm] = rand_dict(rng, depth + 1) if depth < 1 and rng.random() < 0.25 else rand_value(rng, depth + 1)
    return out


def gen_pipeline(rng, mapping_names=False, shared_names=False) -> dict:
    """shared_names: model names carry no group prefix, so that several groups hold a model of the same name
    (a key addresses a model through its group; names are only unique inside a group)."""
    groups = rng.sample(build.GROUPS, rng.randint(1, 4))
    pspec = {}

    def nm(g, short):
        return short if shared_names else f"{g}_{short}"

    for g in groups:
        models = []
        for j in range(rng.randint(1, 3)):
            args = {an: rand_value(rng) for an in rng.sample(ARG_NAMES, rng.randint(0, 4))}
            if rng.random() < 0.35:  # a nested configuration: its entries are addressed with one more component
                args[rng.choice(ARG_NAMES)] = rand_dict(rng)
            args["n"] = rng.randint(0, 5)
            models.append({"name": nm(g, f"m{j}"), "func": PROBE, "arguments": args, "enabled": rng.random() < 0.7})
        if rng.random() < 0.5:  # a model whose name extends another model's name
            models.insert(rng.randint(0, len(models)),
                          {"name": nm(g, "m0x"), "func": PROBE, "arguments": {"a": rng.randint(0, 9), "n": 1},
                           "enabled": rng.random() < 0.7})
        pspec[g] = models
    allm = [m for ms in pspec.values() for m in ms]
    if not any(m["enabled"] for m in allm):
        rng.choice(allm)["enabled"] = True
    if not any(not m["enabled"] for m in allm):
        g = rng.choice(list(pspec))
        pspec[g].append({"name": nm(g, "off"), "func": PROBE, "arguments": {"a": 1, "n": 2, "lev": 0.5}, "enabled": False})
    if mapping_names:
        m = rng.choice([m for ms in pspec.values() for m in ms])
        m["arguments"][rng.choice(MAPPING_NAMES[:5])] = rng.randint(1, 9)
    return pspec


def structured_fields(dspec) -> list:
    """(section, field) pairs that the specification configures as a structured value."""
    return [(sec, f) for (sec, f) in STRUCTURED if isinstance((dspec or {}).get(sec, {}).get(f), dict)]


def valid_keys(kind: str, pspec: dict, dspec: dict | None = None) -> dict:
    """key -> info.  The oracle's notion of 'existing setting', built from the specification only."""
    out = {}
    for sec, fields in catalogue(kind).items():
        for f, spec in fields.items():
            out[f"detector.{sec}.{f}"] = {"cls": "detector-field", "sec": sec, "field": f, "spec": spec}
    for sec, f in structured_fields(dspec):
        for sub, spec in STRUCTURED[(sec, f)].items():
            out[f"detector.{sec}.{f}.{sub}"] = {"cls": SUBFIELD, "sec": sec, "field": f, "sub": sub, "spec": spec}
    for g, models in pspec.items():
        for m in models:
            out[f"pipeline.{g}.{m['name']}.enabled"] = {"cls": "enabled-flag", "group": g, "model": m["name"]}
            for a, v in m["arguments"].items():
                out[f"pipeline.{g}.{m['name']}.arguments.{a}"] = {"cls": "model-argument", "group": g,
                                                                  "model": m["name"], "arg": a}
                for path in dict_entries(v):
                    out[f"pipeline.{g}.{m['name']}.arguments.{a}." + ".".join(path)] = {
                        "cls": ENTRY, "group": g, "model": m["name"], "arg": a, "path": list(path)}
    return out


def dict_entries(value, prefix=()):
    """Paths of the entries reachable from an argument value through dictionaries only."""
    if isinstance(value, dict):
        for k, v in value.items():
            if isinstance(k, str) and k and "." not in k:
                yield prefix + (k,)
                yield from dict_entries(v, prefix + (k,))


def with_entry(value, path, new):
    """Reference model: a deep copy of the argument value with the entry at `path` replaced."""
    out = copy.deepcopy(value)
    if not path:
        return copy.deepcopy(new)
    box = out
    for p in path[:-1]:
        box = box[p]
    box[path[-1]] = copy.deepcopy(new)
    return out


def gen_field_value(rng, spec):
    """(value handed to pyxel, is_native)"""
    typ, lo, hi = spec
    if typ == "int":
        v = rng.randint(lo, hi)
        form = rng.choice(["native", "text", "padded", "hex", "underscore", "plus", "np"])
        return {"native": v, "text": str(v), "padded": f" {v} ", "hex": hex(v), "underscore": f"{v:_}",
                "plus": f"+{v}", "np": np.int64(v)}[form], form != "np"
    if typ == "float":
        span = hi - lo
        v = round(rng.uniform(lo + 0.01 * span, hi - 0.01 * span), rng.choice([0, 1, 3, 6]))
        v = min(max(v, lo + 0.005 * span), hi - 0.005 * span)
        form = rng.choice(["native", "text", "exp", "int-text", "padded", "np"])
        if form == "int-text":
            iv = int(v)
            if lo < iv <= hi:
                return str(iv), True
            form = "text"
        return {"native": v, "text": repr(v), "exp": f"{v:.3e}", "padded": f"  {v!r}", "np": np.float64(v)}[form], form != "np"
    a = round(rng.uniform(lo, 0.0), 2)
    b = round(rng.uniform(0.5, hi), 2)
    form = rng.choice(["list", "tuple", "text-list", "text-tuple", "text-bare"])
    return {"list": [a, b], "tuple": (a, b), "text-list": f"[{a}, {b}]", "text-tuple": f"({a}, {b})",
            "text-bare": f"{a}, {b}"}[form], True


LITS = ["1e3", "0x10", "True", "False", "1,2", "(1, 2)", "[1, 'a']", "-5", " 7 ", "1_000", "'quoted'", '"dq"', "3",
        "2.5", "[1, 2]", "'abc'", "1+2j", "+3", "1.", "()", "[]", "''", "0b11", "0o17", "\t5", "5 # c", "[1,\n2]",
        "'\\x41'", "\"a'b\"", "1e400", "[[1, 2], [3, 4]]", "'a' 'b'", "-1e-3", "[1.5, 'x', [2]]", "0", "0.0",
        "'data/file.fits'", "' spaced '", "1e-320", "123456789012345678901234567890"]
WORDS = ["alpha", "file.fits", "data/file.fits", "x y", "a.b", "true", "none", "nan", "inf", "-inf",
         "C:\\new\\file.fits", "dir\\table.txt", "a\\", "it's", 'say "hi"', 'x" "y', "'unbalanced", "1+1", "2*3",
         "__import__('os').getcwd()", "__import__('os').system('true')", "[", "1__0", "07", "\u00b2", "Ellipsis",
         "1if 1else 2", "a,b", "lambda: 1", "open('x')", "numpy.arange(3)", "1 2", "3.4.5", "1e", "--", "[1, 2",
         "$HOME/x.fits", "~/x.fits", "%d", "{name}", "a=b" ]
UNDEFINED = ["None", "{1: 2}", "{1, 2}", "...", "", "'", '"', "'a'b'", "'a'+'b'", "b'ab'", " ", "[None]"]


def gen_text(rng):
    r = rng.random()
    if r < 0.4:
        return rng.choice(LITS)
    if r < 0.75:
        return rng.choice(WORDS)
    if r < 0.85:
        return rng.choice(UNDEFINED)
    k = rng.choice(["int", "float", "list", "ident", "path", "qstr"])
    if k == "int":
        return str(rng.randint(-10**6, 10**6))
    if k == "float":
        return repr(rng.uniform(-1e3, 1e3))
    if k == "list":
        return repr([rng.choice([rng.randint(0, 9), round(rng.random(), 3), "s" + str(rng.randint(0, 9))])
                     for _ in range(rng.randint(0, 4))])
    if k == "ident":
        return "".join(rng.choice("abcxyz_") for _ in range(rng.randint(1, 6))) or "q"
    if k == "path":
        return "/".join("".join(rng.choice("abcdef") for _ in range(3)) for _ in range(rng.randint(1, 3))) + ".fits"
    return repr("".join(rng.choice("ab c.") for _ in range(rng.randint(0, 5))))


def gen_arg_value(rng):
    r = rng.random()
    if r < 0.45:
        return gen_text(rng)
    k = rng.choice(["int", "float", "bool", "npf", "npi", "arr1", "arr2", "list", "mixlist", "tuple", "nested",
                    "empty", "zero", "big", "nan", "inf", "textlist"])
    return {
        "int": rng.randint(-99, 99), "float": rng.uniform(-5, 5), "bool": rng.random() < 0.5,
        "npf": np.float64(rng.uniform(0, 9)), "npi": np.int64(rng.randint(0, 9)),
        "arr1": np.arange(rng.randint(1, 4)) * 1.5, "arr2": np.arange(6).reshape(2, 3),
        "list": [rng.randint(0, 9) for _ in range(rng.randint(1, 4))],
        "mixlist": [1, 2.5, "x", 0, ""], "tuple": (rng.randint(0, 9), 2.5), "nested": [[1, 2], [3.5, 4]],
        "empty": [], "zero": 0, "big": 2 ** 70, "nan": float("nan"), "inf": float("inf"),
        "textlist": ["1", "2.5", "abc", "[1]"],
    }[k]


def edit_component(rng, comp: str) -> str:
    op = rng.choice("sid")
    if op == "d" and len(comp) > 1:
        p = rng.randrange(len(comp))
        return comp[:p] + comp[p + 1:]
    if op == "i" or not comp:
        p = rng.randrange(len(comp) + 1)
        return comp[:p] + rng.choice(ALPHA) + comp[p:]
    p = rng.randrange(len(comp))
    c = rng.choice([x for x in ALPHA if x != comp[p]])
    return comp[:p] + c + comp[p + 1:]


def mutate_keys(rng, kind, pspec, vkeys) -> list:
    out = []
    keys = list(vkeys)
    bases = rng.sample(keys, min(5, len(keys)))
    argkeys = [k for k in keys if vkeys[k]["cls"] == "model-argument"]
    if argkeys and not any(k in argkeys for k in bases):
        bases.append(rng.choice(argkeys))
    subkeys = [k for k in keys if vkeys[k]["cls"] == SUBFIELD]
    if subkeys and not any(k in subkeys for k in bases):
        bases.append(rng.choice(subkeys))
    for k in bases:
        parts = k.split(".")
        ci = rng.randrange(len(parts))
        q = list(parts)
        q[ci] = edit_component(rng, parts[ci])
        out.append(("edit", ".".join(q)))
        ci = rng.randrange(len(parts))
        if len(parts[ci]) > 1:
            q = list(parts)
            q[ci] = parts[ci][:-rng.randint(1, min(2, len(parts[ci]) - 1))]
            out.append(("abbrev", ".".join(q)))
        for j in range(1, len(parts)):
            out.append(("truncate", ".".join(parts[:j])))
        out.append(("extend", k + "." + rng.choice(EXT)))
        j = rng.randrange(1, len(parts))
        out.append(("double-dot", ".".join(parts[:j]) + ".." + ".".join(parts[j:])))
        out.append(("leading-dot", "." + k))
        out.append(("trailing-dot", k + "."))
        out.append(("wrong-root", rng.choice(["detectr", "pipelin", "processor", "detectors", "Pipeline", "self"]) + "." + ".".join(parts[1:])))
        q = list(parts)
        ci = rng.randrange(len(parts))
        q[ci] = q[ci].upper() if rng.random() < 0.5 else q[ci].capitalize()
        out.append(("case", ".".join(q)))
        out.append(("space", rng.choice([" " + k, k + " ", k.replace(".", ". ", 1)])))
        out.append(("separator", k.replace(".", rng.choice(["/", ":", "__"]))))
    for k in rng.sample(argkeys, min(3, len(argkeys))):
        info = vkeys[k]
        g, m, a = info["group"], info["model"], info["arg"]
        others = [x for x in build.GROUPS if x != g]
        out.append(("wrong-group", f"pipeline.{rng.choice(others)}.{m}.arguments.{a}"))
        ing = [x for x in pspec if x != g]
        if ing:
            out.append(("wrong-group", f"pipeline.{rng.choice(ing)}.{m}.arguments.{a}"))
        out.append(("unknown-model", f"pipeline.{g}.{m}z.arguments.{a}"))
        out.append(("unknown-model", f"pipeline.{g}.nomodel.arguments.{a}"))
        out.append(("unknown-argument", f"pipeline.{g}.{m}.arguments.{a}_undeclared"))
        out.append(("unknown-argument", f"pipeline.{g}.{m}.arguments.zz"))
        out.append(("no-arguments-component", f"pipeline.{g}.{m}.{a}"))
        out.append(("arguments-misspelt", f"pipeline.{g}.{m}.argument.{a}"))
        out.append(("unknown-group", f"pipeline.no_such_group.{m}.arguments.{a}"))
    foreign = CHAR_STD if kind == "apd" else CHAR_APD
    out.append(("foreign-field", f"detector.characteristics.{rng.choice(list(foreign))}"))
    f = rng.choice(list(GEOMETRY))
    out.append(("wrong-section", f"detector.environment.{f}"))
    out.append(("wrong-section", f"detector.geometry.{rng.choice(list(ENVIRONMENT))}"))
    out.append(("unknown-field", "detector.geometry.rows"))
    out.append(("unknown-field", "detector.environment.temperatur"))
    out.append(("unknown-field", f"detector.{rng.choice(SECTIONS)}.{rng.choice(EXT[:2])}"))
    # components of a structured value: unknown component names; the components of a field that this configuration
    # holds as a plain value (or not at all) name nothing
    for (sec, f), subs in STRUCTURED.items():
        sub = rng.choice(list(subs))
        if f"detector.{sec}.{f}.{sub}" in vkeys:
            out.append(("unknown-subfield", f"detector.{sec}.{f}.{sub}{rng.choice(['s', '_nm', '2'])}"))
            out.append(("unknown-subfield", f"detector.{sec}.{f}.{rng.choice(['step', 'cut', 'width'])}"))
            other = rng.choice([x for x in catalogue(kind)[sec] if x != f])
            out.append(("subfield-of-plain-field", f"detector.{sec}.{other}.{sub}"))
        else:
            out.append(("subfield-of-plain-field", f"detector.{sec}.{f}.{sub}"))
    for k in ("", ".", "..", " ", "detector.", "pipeline."):
        out.append(("empty", k))
    seen, res = set(), []
    for cls, k in out:
        if k in vkeys or k in seen:
            continue
        seen.add(k)
        res.append((cls, k))
    return res


# ------------------------------------------------------------------ exact-name resolver (oracle, never calls pyxel's __getattr__)
def names_exactly(root, key: str) -> bool:
    """True when every component of the key is exactly the name of something that exists below root:
    an instance/class attribute (static lookup), a mapping key, a list index or a model of a group."""
    if key == "":
        return False
    obj = root
    for part in key.split("."):
        if part == "":
            return False
        if isinstance(obj, collections.abc.Mapping):
            try:
                keys = list(obj.keys())
            except Exception:  # noqa: BLE001
                keys = []
            if part in keys:
                obj = obj[part]
                continue
        if isinstance(obj, (list, tuple)) and part.isdigit() and int(part) < len(obj):
            obj = obj[int(part)]
            continue
        try:
            inspect.getattr_static(obj, part)
        except AttributeError:
            models = getattr(obj, "__dict__", {}).get("models")
            hit = None
            if isinstance(models, (list, tuple)):
                for m in models:
                    try:
                        if m.name == part:
                            hit = m
                            break
                    except Exception:  # noqa: BLE001
                        pass
            if hit is None:
                return False
            obj = hit
            continue
        try:
            obj = getattr(obj, part)
        except Exception:  # noqa: BLE001
            return True  # exists (a property that cannot be read now); deeper parts cannot be judged
    return True


# ------------------------------------------------------------------ observation helpers
def find_model(pipeline, group, name):
    grp = getattr(pipeline, group)
    for m in grp.models:
        if m.name == name:
            return m
    raise LookupError(name)


def view(detector, pipeline) -> dict:
    """Public settings view: dotted key -> normalised value."""
    out = {k: norm(v) for k, v in read_fields(detector).items()}
    for g in build.GROUPS:
        grp = getattr(pipeline, g, None)
        if grp is None:
            continue
        models = list(grp.models)
        out[f"pipeline.{g}/<models>"] = repr([m.name for m in models])
        for m in models:
            base = f"pipeline.{g}.{m.name}"
            out[base + ".enabled"] = norm(m.enabled)
            args = dict(m.arguments)
            out[base + ".arguments/<names>"] = repr(list(args))
            for a, v in args.items():
                _view_value(out, f"{base}.arguments.{a}", v)
    return out


def _view_value(out, key, v):
    """A dictionary-valued argument is shown entry by entry (each entry is addressable by a key)."""
    if isinstance(v, dict) and all(isinstance(k, str) for k in v):
        out[key + "/<entries>"] = repr(list(v))
        for k, x in v.items():
            _view_value(out, f"{key}.{k}", x)
    else:
        out[key] = norm(v)


_UNSET = object()


def read_direct(pr, info):
    """Read the addressed setting through the public object API (not through Processor.get)."""
    if info["cls"] in DET:
        try:
            v = getattr(getattr(pr.detector, info["sec"]), info["field"])
        except ValueError:
            return _UNSET  # documented: reading a field that was never specified raises
        return getattr(v, info["sub"]) if info["cls"] == SUBFIELD else v
    m = find_model(pr.pipeline, info["group"], info["model"])
    if info["cls"] == "enabled-flag":
        return m.enabled
    v = dict(m.arguments)[info["arg"]]
    for p in info.get("path", ()):
        v = v[p]
    return v


def sub_container(pr, info):
    """The structured value that holds the addressed component in the current state, or None (the field was
    re-assigned as a whole with a plain value)."""
    try:
        v = getattr(getattr(pr.detector, info["sec"]), info["field"])
    except Exception:  # noqa: BLE001
        return None
    return v if is_structured(v) and info["sub"] in sub_names(v) else None


def entry_container(pr, info):
    """The dictionary that holds the addressed entry in the current state, or None (an ancestor was re-assigned)."""
    try:
        v = dict(find_model(pr.pipeline, info["group"], info["model"]).arguments)[info["arg"]]
        for p in info["path"][:-1]:
            if not isinstance(v, dict):
                return None
            v = v[p]
    except (KeyError, LookupError):
        return None
    return v if isinstance(v, dict) and info["path"][-1] in v else None


def inside(path: str, prefix: str) -> bool:
    return path.startswith(prefix) and (len(path) == len(prefix) or path[len(prefix)] in "./[")


def grew(s0: dict, s1: dict) -> list:
    """Attribute sets / dict key lists that gained a name."""
    out = []
    for p, b in s1.items():
        if p.endswith("/<attrs>") or p.endswith("/<keys>"):
            a = s0.get(p)
            if a is not None and a != b:
                try:
                    new = set(ast.literal_eval(b)) - set(ast.literal_eval(a))
                except Exception:  # noqa: BLE001
                    new = {"?"}
                if new:
                    out.append(f"{p}: +{sorted(new)}")
    return out


def allowed_public(kind, key, info, names) -> set:
    out = {key} | {n for n in names if n.startswith((key + ".", key + "/"))}  # the setting and what it contained
    if info["cls"] in DET:
        sec = info["sec"]
        settable = set(catalogue(kind)[sec])
        pre = f"detector.{sec}."
        # derived attributes of the same object: names whose first component is no settable field
        out |= {n for n in names if n.startswith(pre) and n[len(pre):].split(".")[0].split("/")[0] not in settable}
        if info["field"] in APD_LINKED:
            out |= {pre + f for f in APD_LINKED}
        if info["cls"] == SUBFIELD:  # derived attributes of the structured value itself
            sub_pre = f"{pre}{info['field']}."
            own = set(STRUCTURED[(sec, info["field"])])
            out |= {n for n in names if n.startswith(sub_pre) and n[len(sub_pre):].split(".")[0].split("/")[0] not in own}
    return out


# ------------------------------------------------------------------ the assignment oracle (direct entry point)
def snap_all(pr, seen=None) -> dict:
    """Full structural snapshot of the processor.  xarray containers are summarised by their repr: the
    generic walker creates temporary datasets whose recycled ids would show up as spurious '<ref>' changes."""
    names, extra = set(), {}
    det = getattr(pr, "detector", None)
    holders = [("detector", det)] + [(f"detector.{k}", v) for k, v in getattr(det, "__dict__", {}).items()
                                     if hasattr(v, "__dict__")]
    for hpath, holder in holders:
        for k, v in getattr(holder, "__dict__", {}).items():
            if (type(v).__module__ or "").startswith("xarray"):
                names.add(k)
                extra[f"<xarray>{hpath}.{k}"] = repr(v)
    out = snapshot.snap({"proc": pr}, seen=seen, skip=set(snapshot.SKIP_ATTRS) | names)
    out.update(extra)
    return expand_tuple_refs(out)


def expand_tuple_refs(snap: dict) -> dict:
    """The walker prints a second reference to the same object as '<ref path>'.  Tuples are immutable and
    CPython shares them (the empty tuple is a singleton), so two settings holding equal tuples are not an
    aliasing fact: replace such references by the content they point to."""
    for _ in range(4):
        refs = [(p, v[5:-1]) for p, v in snap.items() if isinstance(v, str) and v.startswith("<ref ")
                and snap.get(v[5:-1] + "/<len>", "").startswith("tuple:")]
        if not refs:
            break
        for p, target in refs:
            del snap[p]
            for k in [k for k in snap if k.startswith(target) and k[len(target):][:1] in ("/", "[", ".")]:
                snap[p + k[len(target):]] = snap[k]
    return snap


def make_detector(dspec):
    """build.make_detector + the structured layouts of a field (given as a mapping in the specification / YAML)."""
    todo = structured_fields(dspec)
    if not todo:
        return build.make_detector(dspec)
    from pyxel.detectors import WavelengthHandling
    spec = copy.deepcopy(dspec)
    for sec, f in todo:
        spec[sec][f] = {("environment", "wavelength"): WavelengthHandling}[(sec, f)](**dspec[sec][f])
    return build.make_detector(spec)


def make_processor(dspec, pspec):
    from pyxel.pipelines import Processor
    return Processor(detector=make_detector(dspec), pipeline=build.make_pipeline(pspec))


def owner_prefixes(pr, info, seen):
    if info["cls"] == SUBFIELD:
        box = sub_container(pr, info)
        return (seen.get(id(box)) if box is not None else None), None, None
    if info["cls"] in DET:
        return seen.get(id(getattr(pr.detector, info["sec"]))), None, None
    m = find_model(pr.pipeline, info["group"], info["model"])
    if info["cls"] == "enabled-flag":
        return seen.get(id(m)), seen.get(id(m.arguments)), None
    if info["cls"] == ENTRY:
        box = entry_container(pr, info)
        return (seen.get(id(box)) if box is not None else None), None, f"[{info['path'][-1]!r}]"
    return seen.get(id(m.arguments)), None, f"[{info['arg']!r}]"


def judge_value(got, _kind, alts):
    return any(same(got, alt) for alt in alts)


def check_assignment(rec, pr, kind, key, info, given, convert, case, index, native=True):
    """has -> set -> snapshots -> get on one valid key.  Returns True when applied."""
    cls = info["cls"]
    vcls = value_class(given)
    tag = f"C08:set:{cls}"
    case = dict(case, entry="Processor.set", key=key, value=repr(given), convert=convert)
    rec.case(["set", key, repr(given), convert, kind], True, sample=case)
    rec.observe("value_classes", vcls)
    try:
        h = pr.has(key)
    except Exception as exc:  # noqa: BLE001
        report(rec, f"C08:has:{cls}:raised-on-existing-setting", f"has({key!r}) raised {type(exc).__name__}: {exc}", case, index)
        return False
    if h is not True:
        if cls == ENTRY:  # an entry of a nested configuration may be no setting of its own: then it must be refused
            rec.count("entry_key_not_a_setting")
            s0 = snap_all(pr)
            try:
                pr.set(key, given)
            except Exception:  # noqa: BLE001
                pass
            if snapshot.diff(s0, snap_all(pr)):
                report(rec, f"{tag}:has-false-but-assigned", f"has({key!r}) is {h!r} but set changed the processor", case, index)
            return False
        report(rec, f"C08:has:{cls}:false-on-existing-setting", f"has({key!r}) returned {h!r}", case, index)
        return False
    rec.count("valid_has_true")
    ekind, alts = expectation(given, convert is not False)
    old = read_direct(pr, info)
    v0 = view(pr.detector, pr.pipeline)  # also warms lazily cached derived values
    seen = {}
    s0 = snap_all(pr, seen=seen)
    owner, excl, token = owner_prefixes(pr, info, seen)
    armed = isinstance(given, str)
    _AUDIT["hits"].clear()
    _AUDIT["on"] = armed
    try:
        if convert is None:
            pr.set(key, given)
        else:
            pr.set(key, given, convert_value=convert)
    except Exception as exc:  # noqa: BLE001
        _AUDIT["on"] = False
        s1 = snap_all(pr)
        if snapshot.diff(s0, s1):
            report(rec, f"{tag}:refused-but-changed", f"set({key!r}, {given!r}) raised {type(exc).__name__} and changed "
                   f"{snapshot.diff(s0, s1)[:4]}", case, index)
        elif ekind == "exact" and native and cls != ENTRY:
            what = "refused" if not isinstance(given, str) else f"convert:{vcls}:refused"
            report(rec, f"{tag}:{what}", f"set({key!r}, {given!r}) raised {type(exc).__name__}: {str(exc)[:200]}", case, index)
        else:
            rec.count("valid_set_refused_tolerated")
            rec.observe("tolerated_refusals", f"{vcls}:{type(exc).__name__}")
            if isinstance(given, str):
                rec.count("text_refused")
        return False
    finally:
        _AUDIT["on"] = False
    if _AUDIT["hits"]:
        report(rec, f"{tag}:convert:text-executed", f"set({key!r}, {given!r}) triggered {_AUDIT['hits'][:3]}", case, index)
    s1 = snap_all(pr)
    v1 = view(pr.detector, pr.pipeline)
    rec.count("valid_set_applied")
    if cls == ENTRY:
        rec.count("entry_set_applied")
    if cls == SUBFIELD:
        rec.count("subfield_set_applied")
    ok = True

    # (1) the value that is now stored (read through the public objects)
    new = read_direct(pr, info)
    if not judge_value(new, ekind, alts):
        what = f"convert:{vcls}:wrong-value" if isinstance(given, str) and convert is not False else "value-not-stored"
        report(rec, f"{tag}:{what}", f"set({key!r}, {given!r}, convert={convert}) stored {new!r}; expected one of {alts!r}",
               case, index)
        ok = False
    elif isinstance(given, str) and convert is not False:
        rec.count("text_converted" if not isinstance(new, str) or new != given else "text_kept")

    # (2) structural diff: inside the owner object only, no attribute / dict key appears or disappears
    d = [p for p in set(s0) | set(s1) if s0.get(p) != s1.get(p)]
    rec.count("struct_diffs_checked")
    unchanged_value = judge_value(old, "exact", [new]) and type(old) is type(new)
    # a field re-assigned as a whole from / to a structured value: the attribute lists below the owner follow
    deep_ok = cls == "detector-field" and (is_structured(old) or is_structured(new))
    if owner is None:
        rec.count("owner_not_in_snapshot")
    else:
        bad = []
        for p in d:
            rest = p[len(owner):]
            below_leaf = False
            if token is not None:
                br = rest.find("[")
                below_leaf = br >= 0 and rest[br:].startswith(token) and rest[:br].count(".") <= 1
            if not inside(p, owner):
                bad.append(("changed-outside-setting", p))
            elif excl and inside(p, excl):
                bad.append(("changed-outside-setting", p))
            elif token is not None and not below_leaf:
                bad.append(("new-attribute" if p.endswith(("/<attrs>", "/<keys>")) else "changed-outside-setting", p))
            elif p.endswith(("/<attrs>", "/<keys>")) and not below_leaf and not (deep_ok and p != owner + "/<attrs>"):
                bad.append(("new-attribute", p))
        for what, p in bad[:3]:
            report(rec, f"{tag}:{what}", f"set({key!r}, {given!r}): {p}: {s0.get(p, '<absent>')} -> {s1.get(p, '<absent>')}",
                   case, index)
            ok = False
        if not d and not unchanged_value and ok:
            report(rec, f"{tag}:nothing-changed", f"set({key!r}, {given!r}) accepted, old value {old!r}, no change anywhere",
                   case, index)
            ok = False

    # (3) public diff: the addressed setting (+ derived values of the same object), nothing else
    changed = {k for k in set(v0) | set(v1) if v0.get(k) != v1.get(k)}
    rec.count("public_diffs_checked")
    extra = sorted(changed - allowed_public(kind, key, info, set(v0) | set(v1)))
    if extra:
        report(rec, f"{tag}:other-setting-changed", f"set({key!r}, {given!r}) also changed {extra[:4]}", case, index)
        ok = False

    # (4) read-back through Processor.get
    # (entries of dictionary arguments are read back like every other setting since fix 134d9c9 in /repo)
    try:
        got = pr.get(key)
    except Exception as exc:  # noqa: BLE001
        report(rec, f"C08:get:{cls}:raised-after-set", f"get({key!r}) raised {type(exc).__name__}: {exc}", case, index)
        return ok
    rec.count("readback_checked")
    if not judge_value(got, ekind, alts) and not same(got, new):
        if cls == "model-argument" and info["arg"] in MAPPING_NAMES and judge_value(new, ekind, alts):
            report(rec, MAPPING_METHOD_MECH, f"get({key!r}) -> {got!r} after set(.., {given!r}); stored {new!r}", case, index)
        else:
            report(rec, f"C08:get:{cls}:readback-differs", f"get({key!r}) -> {got!r} after set(.., {given!r}); stored {new!r}",
                   case, index)
        ok = False
    return ok


def phase_direct_valid(rec, rng, kind, dspec, pspec, vkeys, case, index):
    pr = make_processor(dspec, pspec)
    keys = list(vkeys)
    rng.shuffle(keys)
    for key in keys:
        info = vkeys[key]
        native = True
        if info["cls"] == ENTRY and entry_container(pr, info) is None:
            pr = make_processor(dspec, pspec)  # an earlier assignment replaced the dictionary that held this entry
            rec.count("entry_key_fresh_processor")
        if info["cls"] == SUBFIELD and sub_container(pr, info) is None:
            pr = make_processor(dspec, pspec)  # an earlier assignment replaced the structured value as a whole
            rec.count("subfield_key_fresh_processor")
        if info["cls"] in DET:
            given, native = gen_field_value(rng, info["spec"])
        elif info["cls"] == "enabled-flag":
            given = rng.choice([True, False, "True", "False", 0, 1, "0", "1"])
        else:
            given = gen_arg_value(rng)
            native = not isinstance(given, np.generic)
        convert = rng.choice([None, None, True])
        if not check_assignment(rec, pr, kind, key, info, given, convert, case, index, native=native):
            pr = make_processor(dspec, pspec)  # continue from a clean state after a refusal / violation
    rec.count("phase_direct_valid")


def phase_text(rec, rng, kind, dspec, pspec, vkeys, case, index, n_texts):
    argkeys = [k for k in vkeys if vkeys[k]["cls"] in ("model-argument", ENTRY) and vkeys[k]["arg"] not in MAPPING_NAMES]
    pr = make_processor(dspec, pspec)
    pool = LITS + WORDS + UNDEFINED
    texts = rng.sample(pool, min(n_texts, len(pool))) + [gen_text(rng) for _ in range(4)]
    for t in texts:
        key = rng.choice(argkeys)
        if vkeys[key]["cls"] == ENTRY and entry_container(pr, vkeys[key]) is None:
            pr = make_processor(dspec, pspec)
        convert = rng.choice([None, True, True, False])
        if not check_assignment(rec, pr, kind, key, vkeys[key], t, convert, case, index):
            pr = make_processor(dspec, pspec)
    # textual values for an enabled flag and verbatim storage of non-text values with convert_value=False
    key = rng.choice([k for k in argkeys if vkeys[k]["cls"] == "model-argument"])
    for v in (np.arange(3), [1, "2"], 7, "[1, 2]"):
        check_assignment(rec, pr, kind, key, vkeys[key], v, False, case, index)


# ------------------------------------------------------------------ invalid keys, direct entry point
def confirm_run(pr):
    """Does the processor still run?  -> (ran, n_events)"""
    import pyxel
    from pyxel.exposure import Exposure, Readout
    probes.reset()
    try:
        pyxel.run_mode(mode=Exposure(readout=Readout(times=[1.0])), detector=pr.detector, pipeline=pr.pipeline)
    except Exception:  # noqa: BLE001
        return False, len(probes.events())
    return True, len(probes.events())


def phase_invalid_direct(rec, rng, kind, dspec, pspec, bad_keys, case, index):
    for cls, key in bad_keys:
        rec.count(f"key_class_{cls}")
        pr = make_processor(dspec, pspec)
        value = rng.choice([5, "5", 2.5, "abc", [1, 2], True])
        c = dict(case, entry="Processor.has/get/set", key=key, key_class=cls, value=repr(value))
        rec.case(["invalid", key, repr(value), kind], True, sample=None)
        exact = names_exactly(pr, key)
        try:
            if pr.has(key) is True:
                rec.count("invalid_has_true_existing" if exact else "invalid_has_true_names_nothing")
            else:
                rec.count("invalid_has_false")
        except Exception:  # noqa: BLE001
            rec.count("invalid_has_raised")
        try:
            got = pr.get(key)
        except Exception:  # noqa: BLE001
            rec.count("invalid_get_raised")
        else:
            if not exact:
                report(rec, f"C08:get:{cls}:value-for-key-that-names-nothing", f"get({key!r}) returned {got!r}", c, index)
            else:
                rec.count("invalid_get_existing_object")
        try:
            pr.get(key, default=None)
        except Exception:  # noqa: BLE001
            pass
        s0 = snap_all(pr)
        try:
            pr.set(key, value)
        except Exception:  # noqa: BLE001
            s1 = snap_all(pr)
            if snapshot.diff(s0, s1):
                report(rec, f"C08:set:{cls}:rejected-but-changed", f"set({key!r}) raised but changed {snapshot.diff(s0, s1)[:4]}",
                       c, index)
            else:
                rec.count("invalid_direct_rejected")
            continue
        s1 = snap_all(pr)
        d = snapshot.diff(s0, s1)
        new_names = grew(s0, s1)
        if not exact:
            report(rec, f"C08:set:{cls}:accepted-key-that-names-nothing",
                   f"set({key!r}, {value!r}) accepted; diff={d[:4]}", c, index)
            continue
        if not d or new_names:
            ran, n_ev = confirm_run(pr)
            if ran:
                report(rec, f"C08:set:{cls}:accepted-noop-or-new-attribute",
                       f"set({key!r}, {value!r}) accepted, diff={d[:3]}, new names={new_names[:3]}, and the pipeline ran "
                       f"({n_ev} model calls)", c, index)
            else:
                rec.count("invalid_direct_accepted_then_unrunnable")
        else:
            rec.count("invalid_direct_accepted_existing_object")
            rec.observe("accepted_existing_keys", f"{cls}")


def phase_arguments_mapping(rec, rng, kind, dspec, pspec, case, index):
    """The Arguments object a key resolves to must refuse names the configuration does not declare."""
    pr = make_processor(dspec, pspec)
    g = rng.choice(list(pspec))
    m = rng.choice(pspec[g])
    args = find_model(pr.pipeline, g, m["name"]).arguments
    for how in ("item", "attr"):
        name = rng.choice(["zz", "undeclared", "n_", "N", (list(m["arguments"]) or ["a"])[0] + "x"])
        if name in m["arguments"]:
            continue
        c = dict(case, entry=f"Arguments[{how}]", key=f"pipeline.{g}.{m['name']}.arguments.{name}")
        rec.case(["arguments-mapping", how, c["key"], kind], True)
        s0 = snap_all(pr)
        try:
            if how == "item":
                args[name] = 5
            else:
                setattr(args, name, 5)
        except Exception:  # noqa: BLE001
            accepted = False
        else:
            accepted = True
        s1 = snap_all(pr)
        rec.count("arguments_mapping_probed")
        if accepted or snapshot.diff(s0, s1):
            report(rec, f"C08:arguments-mapping:{how}:unknown-name-accepted",
                   f"arguments of {m['name']} accepted the undeclared name {name!r}: {snapshot.diff(s0, s1)[:3]}", c, index)
            pr = make_processor(dspec, pspec)
            args = find_model(pr.pipeline, g, m["name"]).arguments


# ------------------------------------------------------------------ run entry points
def yaml_doc(dspec, pspec, mode_section: dict) -> dict:
    doc = dict(mode_section)
    doc.update(build.detector_yaml_dict(dspec))
    doc["pipeline"] = build.pipeline_yaml_dict(pspec)
    return doc


def write_yaml(rec, name, doc) -> str:
    import os
    path = os.path.join(rec.tmp, name)
    with open(path, "w") as fh:
        fh.write(build.dump_yaml(doc))
    return path


def settings_objects(detector, pipeline) -> dict:
    return {"geometry": detector.geometry, "environment": detector.environment,
            "characteristics": detector.characteristics, "pipeline": pipeline}


def baseline_fields(dspec) -> dict:
    return {k: norm(v) for k, v in read_fields(make_detector(dspec)).items()}


def events_vs_expected(events, pspec_expected, base_fields, allowed_fields, field_key=None, field_alts=None,
                       arg_at=None, arg_alts=None, addressed=None):
    """Compare the probe trace of ONE run with the reference.  -> list of (what, detail).
    addressed: {(group, model, argument): [acceptable values]} for several assigned arguments."""
    out = []
    addressed = dict(addressed or {})
    if arg_at is not None:
        addressed[arg_at] = arg_alts
    exp = build.expected_calls(pspec_expected, 1)
    got_names = [e["model"] for e in events]
    exp_names = [n for (_s, _g, n, _a) in exp]
    if got_names != exp_names:
        out.append(("executed-models-differ", f"executed {got_names}, expected {exp_names}"))
        return out
    for ev, (_s, grp, name, args) in zip(events, exp):
        kw = ev["kwargs"]
        if list(kw) != list(args):
            out.append(("argument-names-differ", f"{name}: received {list(kw)}, declared {list(args)}"))
            continue
        for a in args:
            if (grp, name, a) in addressed:  # the group counts: another group may hold a model of the same name
                if not any(same(kw[a], alt) for alt in addressed[(grp, name, a)]):
                    out.append(("addressed-argument-wrong",
                                f"{grp}.{name}.{a}: received {kw[a]!r}, expected one of {addressed[(grp, name, a)]!r}"))
            elif norm(kw[a]) != norm(args[a]):
                out.append(("other-argument-changed", f"{name}.{a}: received {kw[a]!r}, configured {args[a]!r}"))
        fields = {k: norm(v) for k, v in ev["fields"].items()}
        changed = {k for k in set(fields) | set(base_fields) if fields.get(k) != base_fields.get(k)}
        extra = sorted(changed - allowed_fields)
        if extra:
            out.append(("other-setting-changed", f"{name} saw {extra[:4]} differ from the configuration"))
        if field_key is not None and not any(same(ev["fields"].get(field_key), alt) for alt in field_alts):
            out.append(("addressed-field-wrong", f"{name} saw {field_key}={ev['fields'].get(field_key)!r}, expected one of {field_alts!r}"))
    return out


def run_with_override(rec, entry, dspec, pspec, key, value, index):
    """entry in {'override','cli'} -> (exception|None, events, struct diff info)"""
    import pyxel
    from pyxel.exposure import Exposure, Readout
    probes.reset()
    info = {"grew": [], "diff": None}
    exc = None
    try:
        if entry == "override":
            det, pipe = make_detector(dspec), build.make_pipeline(pspec)
            s0 = snapshot.snap(settings_objects(det, pipe))
            try:
                pyxel.run_mode(mode=Exposure(readout=Readout(times=[1.0])), detector=det, pipeline=pipe,
                               override_dct={key: value})
            finally:
                try:
                    s1 = snapshot.snap(settings_objects(det, pipe))
                    info["grew"] = grew(s0, s1)
                    info["diff"] = snapshot.diff(s0, s1)
                except Exception:  # noqa: BLE001
                    pass
        else:
            path = write_yaml(rec, f"cfg_{index}.yaml", yaml_doc(dspec, pspec, {"exposure": {"readout": {"times": [1.0]}}}))
            pyxel.run(path, override=[f"{key}={value}"])
    except Exception as e:  # noqa: BLE001
        exc = e
    return exc, probes.events(), info


def phase_run_valid(rec, rng, kind, dspec, pspec, vkeys, case, index):
    base = baseline_fields(dspec)
    keys = [k for k in vkeys if not k.endswith((".row", ".col")) or vkeys[k]["cls"] not in DET]
    for entry in ("override", "cli"):
        picked = rng.sample(keys, min(3, len(keys)))
        subkeys = [k for k in keys if vkeys[k]["cls"] == SUBFIELD]
        if subkeys and rng.random() < 0.5 and not any(k in subkeys for k in picked):
            picked[0] = rng.choice(subkeys)
        for key in picked:
            info = vkeys[key]
            cls = info["cls"]
            native = True
            if cls in DET:
                given, native = gen_field_value(rng, info["spec"])
            elif cls == "enabled-flag":
                given = rng.choice([True, False, "True", "False", 0, 1])
            else:
                given = gen_arg_value(rng)
            if entry == "cli":  # the command line only carries text
                if not isinstance(given, str):
                    given = repr(given.tolist()) if isinstance(given, np.ndarray) else repr(given)
                    if isinstance(given, str) and ("nan" in given or "inf" in given or "np." in given):
                        given = "2.5"
                if "=" in given:
                    given = "x.fits"
            c = dict(case, entry=entry, key=key, value=repr(given))
            rec.case([entry, key, repr(given), kind], True, sample=c)
            ekind, alts = expectation(given, True)
            exc, events, sinfo = run_with_override(rec, entry, dspec, pspec, key, given, index)
            rec.count("probe_events", len(events))
            tag = f"C08:{entry}:{cls}"
            if exc is not None:
                if events:
                    report(rec, f"{tag}:failed-after-models-ran", f"{key}={given!r}: {type(exc).__name__}: {exc}", c, index)
                elif ekind == "exact" and native and not isinstance(given, np.generic) and cls != ENTRY:
                    report(rec, f"{tag}:refused", f"{key}={given!r}: {type(exc).__name__}: {str(exc)[:200]}", c, index)
                else:
                    rec.count(f"run_{entry}_valid_refused_tolerated")
                continue
            ps2 = copy.deepcopy(pspec)
            kw = {}
            allowed = set()
            if cls in DET:
                allowed = allowed_public(kind, key, info, set(base))
                kw = {"field_key": key, "field_alts": alts}
            else:
                for m in ps2[info["group"]]:
                    if m["name"] == info["model"]:
                        if cls == "enabled-flag":
                            m["enabled"] = bool(alts[0])
                        else:  # the whole argument the model must receive (an entry key replaces one entry of it)
                            kw = {"arg_at": (info["group"], m["name"], info["arg"]),
                                  "arg_alts": [with_entry(m["arguments"][info["arg"]], info.get("path", []), alt)
                                               for alt in alts]}
            problems = events_vs_expected(events, ps2, base, allowed, **kw)
            for what, detail in problems[:3]:
                report(rec, f"{tag}:{what}", f"{key}={given!r}: {detail}", c, index)
            if sinfo["grew"]:
                report(rec, f"{tag}:new-attribute", f"{key}={given!r}: {sinfo['grew'][:3]}", c, index)
            if not problems:
                rec.count(f"run_{entry}_valid_applied")


def classify_invalid_run(rec, entry, cls, key, exact, exc, events, noop, new_names, c, index, what_ran="the pipeline ran"):
    tag = f"C08:{entry}:{cls}"
    if exc is not None and not events:
        rec.count(f"run_{entry}_invalid_rejected")
        return
    if not exact:
        report(rec, f"{tag}:accepted-key-that-names-nothing",
               f"{key!r}: {what_ran} ({len(events)} model calls){' then ' + type(exc).__name__ if exc else ''}", c, index)
        return
    if new_names or noop:
        report(rec, f"{tag}:accepted-noop-or-new-attribute",
               f"{key!r} names an existing object that is no setting; {what_ran} unchanged ({len(events)} model calls), "
               f"new names={new_names[:3]}", c, index)
        return
    rec.count(f"run_{entry}_invalid_accepted_existing_object")


def phase_run_invalid(rec, rng, kind, dspec, pspec, bad_keys, case, index, with_calib):
    import pyxel
    from pyxel.exposure import Readout
    from pyxel.observation import Observation, ParameterValues
    base = baseline_fields(dspec)
    ref = make_processor(dspec, pspec)
    picks = {}
    pool = list(bad_keys)
    rng.shuffle(pool)
    trunc_model = [bk for bk in bad_keys if bk[0] == "truncate" and bk[1].count(".") == 2 and bk[1].startswith("pipeline.")]
    entries = ["override", "cli", "obs_seq", "obs_dask", "obs_yaml"] + (["calib_parameters", "calib_input_arguments"] if with_calib else [])
    for n, entry in enumerate(entries):
        chosen = pool[2 * n: 2 * n + 2] if entry in ("override", "cli") else pool[10 + n: 11 + n]
        if entry in ("override", "cli") and trunc_model:
            chosen = chosen + [rng.choice(trunc_model)]
        picks[entry] = chosen
    for entry, chosen in picks.items():
        for cls, key in chosen:
            value = rng.choice(["5", "2.5", "abc", "[1, 2]"]) if entry == "cli" else rng.choice([5, "5", 2.5, "abc"])
            if entry == "cli" and "=" in key:
                continue
            c = dict(case, entry=entry, key=key, key_class=cls, value=repr(value))
            rec.case([entry, key, repr(value), kind], True)
            exact = names_exactly(ref, key)
            exc, events, new_names, noop = None, [], [], False
            if entry in ("override", "cli"):
                exc, events, sinfo = run_with_override(rec, entry, dspec, pspec, key, value, index)
                new_names = sinfo["grew"]
                noop = exc is None and not events_vs_expected(events, pspec, base, set())
            elif entry.startswith("obs"):
                probes.reset()
                values = [3, 4] if not isinstance(value, str) or entry == "obs_yaml" else [value, "7"]
                try:
                    if entry == "obs_yaml":
                        doc = yaml_doc(dspec, pspec, {"observation": {"readout": {"times": [1.0]}, "with_dask": rng.random() < 0.5,
                                                                      "parameters": [{"key": key, "values": values}]}})
                        pyxel.run(write_yaml(rec, f"obs_{index}.yaml", doc))
                    else:
                        obs = Observation(parameters=[ParameterValues(key=key, values=values)], readout=Readout(times=[1.0]),
                                          with_dask=entry == "obs_dask")
                        tree = pyxel.run_mode(mode=obs, detector=make_detector(dspec), pipeline=build.make_pipeline(pspec))
                        if entry == "obs_dask":
                            tree.load()
                except Exception as e:  # noqa: BLE001
                    exc = e
                events = probes.events()
                runs = {}
                for ev in events:
                    runs.setdefault(ev["det"], []).append(ev)
                noop = exc is None and all(not events_vs_expected(r, pspec, base, set()) for r in runs.values())
            else:
                exc, events = run_calibration(rec, dspec, pspec, key, where=entry.split("_", 1)[1])
                noop = exc is None
            rec.count("probe_events", len(events))
            ent = {"obs_yaml": "obs_seq"}.get(entry, entry)
            ent = "calib" if ent.startswith("calib") else ent
            classify_invalid_run(rec, ent, cls, key, exact, exc, events, noop, new_names, c, index)


_CALIB = {}


def run_calibration(rec, dspec, pspec, key, where):
    import os
    import pyxel
    from pyxel.calibration import Algorithm, Calibration
    from pyxel.exposure import Readout
    from pyxel.observation import ParameterValues
    from pyxel.pipelines import FitnessFunction
    rows, cols = dspec["geometry"]["row"], dspec["geometry"]["col"]
    target = os.path.join(rec.tmp, f"target_{rows}x{cols}.npy")
    if not os.path.exists(target):
        np.save(target, np.ones((rows, cols)))
    good = None
    for g, ms in pspec.items():
        for m in ms:
            if m["enabled"]:
                good = f"pipeline.{g}.{m['name']}.arguments.n"
    kw = {}
    params = [ParameterValues(key=key, values="_", boundaries=(1.0, 5.0))]
    if where == "input_arguments":
        kw["result_input_arguments"] = [ParameterValues(key=key, values=[1.0, 2.0])]
        params = [ParameterValues(key=good, values="_", boundaries=(1.0, 5.0))]
    probes.reset()
    exc = None
    try:
        cal = Calibration(target_data_path=[target],
                          fitness_function=FitnessFunction(func="pyxel.calibration.fitness.sum_of_abs_residuals"),
                          algorithm=Algorithm(type="sade", generations=1, population_size=8), parameters=params,
                          readout=Readout(), result_type="image", result_fit_range=(0, rows, 0, cols),
                          target_fit_range=(0, rows, 0, cols), num_islands=1, num_evolutions=1, pygmo_seed=1, **kw)
        pyxel.run_mode(mode=cal, detector=make_detector(dspec), pipeline=build.make_pipeline(pspec))
    except Exception as e:  # noqa: BLE001
        exc = e
    return exc, probes.events()


# ------------------------------------------------------------------ sweeps that must be errors
def phase_sweeps(rec, rng, kind, dspec, pspec, vkeys, case, index):
    import pyxel
    from pyxel.exposure import Readout
    from pyxel.observation import Observation, ParameterValues
    enabled_args, disabled_args, undeclared, namesake_args = [], [], [], []
    for g, ms in pspec.items():
        for m in ms:
            # a disabled model whose name is also the name of an enabled model of another group
            namesake = not m["enabled"] and any(m2["enabled"] and m2["name"] == m["name"]
                                                for g2, ms2 in pspec.items() if g2 != g for m2 in ms2)
            for a in m["arguments"]:
                (enabled_args if m["enabled"] else disabled_args).append(f"pipeline.{g}.{m['name']}.arguments.{a}")
                if namesake:
                    namesake_args.append(f"pipeline.{g}.{m['name']}.arguments.{a}")
            junk = rng.choice(["undeclared", "zz", "N", "n_", "level2"])
            if junk not in m["arguments"]:
                undeclared.append(f"pipeline.{g}.{m['name']}.arguments.{junk}")
    plans = []
    for dask in (False, True):
        plans.append(("undeclared", rng.choice(undeclared), dask))
        if disabled_args:
            plans.append(("disabled", rng.choice(namesake_args if namesake_args and rng.random() < 0.6 else disabled_args), dask))
    for what, key, dask in plans:
        mode = rng.choice(["product", "product", "sequential"])
        params = [{"key": key, "values": rng.choice([[1, 2], [0.5], ["a.fits", "b.fits"], [3, 4, 5]])}]
        if enabled_args and rng.random() < 0.5:  # a valid parameter first: the bad one must still be noticed
            good = rng.choice([k for k in enabled_args if not k.endswith(tuple("." + n for n in MAPPING_NAMES))] or enabled_args)
            params.insert(0, {"key": good, "values": [1, 2]})
        via_yaml = rng.random() < 0.3
        c = dict(case, entry=f"observation:{'dask' if dask else 'seq'}:{'yaml' if via_yaml else 'api'}", mode=mode,
                 parameters=params, swept=what)
        rec.case(["sweep", what, dask, via_yaml, mode, params, kind], True, sample=c)
        probes.reset()
        exc = None
        try:
            if via_yaml:
                doc = yaml_doc(dspec, pspec, {"observation": {"readout": {"times": [1.0]}, "mode": mode, "with_dask": dask,
                                                              "parameters": params}})
                pyxel.run(write_yaml(rec, f"sweep_{index}.yaml", doc))
            else:
                obs = Observation(parameters=[ParameterValues(key=p["key"], values=p["values"]) for p in params],
                                  readout=Readout(times=[1.0]), mode=mode, with_dask=dask)
                tree = pyxel.run_mode(mode=obs, detector=make_detector(dspec), pipeline=build.make_pipeline(pspec),
                                      with_inherited_coords=True)
                if dask:
                    tree.load()
        except Exception as e:  # noqa: BLE001
            exc = e
        events = probes.events()
        rec.count("probe_events", len(events))
        path = "dask" if dask else "seq"
        if exc is None or events:
            report(rec, f"C08:observation-{path}:sweep-of-{what}-argument:not-an-error",
                   f"sweep of {key!r} ({what}): exception={type(exc).__name__ if exc else None}, {len(events)} model calls",
                   c, index)
        else:
            rec.count(f"sweep_{what}_{path}")
            if what == "disabled" and key in namesake_args:
                rec.count("sweep_disabled_namesake")
            rec.observe("sweep_refusal_types", type(exc).__name__)


# ------------------------------------------------------------------ sweeps of valid keys: every point is a copy
def gen_point_value(rng, info, avoid=(), shape=None):
    """A native value with exactly one expected stored form (no conversion alternatives).
    shape: 'int' | 'float' | 'text' for an argument (one axis of a sweep holds one kind of value)."""
    shape = shape or rng.choice(["int", "float", "text"])
    for _ in range(20):
        if info["cls"] in DET:
            typ, lo, hi = info["spec"]
            if typ == "int":
                v = rng.randint(lo, hi)
            elif typ == "float":
                v = round(rng.uniform(lo + 0.05 * (hi - lo), hi - 0.05 * (hi - lo)), 3)
            else:
                v = [round(rng.uniform(lo, 0.0), 2), round(rng.uniform(0.5, hi), 2)]
        elif info["cls"] == "enabled-flag":
            v = rng.random() < 0.5
        else:
            v = {"int": rng.randint(-99, 999), "float": round(rng.uniform(-5, 5), 3),
                 "text": rng.choice(["alpha", "b.fits", "x y", "dir/c.fits", "beta", "f0.txt"])}[shape]
        if not any(same(v, x) for x in avoid):
            return v
    return v


def independent(keys) -> bool:
    """No key addresses something inside what another key addresses."""
    return not any(b.startswith(a + ".") for a in keys for b in keys)


def pick_swept(rng, vkeys, candidates, n):
    entries = [k for k in candidates if vkeys[k]["cls"] == ENTRY]
    for _ in range(10):
        ks = rng.sample(candidates, min(n, len(candidates)))
        if entries and rng.random() < 0.5 and not any(k in entries for k in ks):
            ks[0] = rng.choice(entries)
        linked = [k for k in ks if vkeys[k].get("field") in APD_LINKED]  # one linked triple: any two set the third
        if len(set(ks)) == len(ks) and independent(ks) and len(linked) <= 1:
            return ks
    return ks[:1]


def expected_pspec(pspec, vkeys, assignments) -> dict:
    """Reference model: the specification with the assignments of one sweep point applied (arguments / flags)."""
    ps2 = copy.deepcopy(pspec)
    for key, value in assignments.items():
        info = vkeys[key]
        if info["cls"] in DET:
            continue
        for m in ps2[info["group"]]:
            if m["name"] == info["model"]:
                if info["cls"] == "enabled-flag":
                    m["enabled"] = bool(value)
                else:
                    m["arguments"][info["arg"]] = with_entry(m["arguments"][info["arg"]], info.get("path", []), value)
    return ps2


def phase_copies(rec, rng, kind, dspec, pspec, vkeys, case, index):
    """What a sweep / a calibration does: several copies of ONE processor, each with its own assignments
    (Processor.replace, or deepcopy + Processor.set).  Judged after all copies were made: the original shows what was
    configured, every copy shows the configuration + exactly its own assignments."""
    pr0 = make_processor(dspec, pspec)
    keys = list(vkeys)
    swept = pick_swept(rng, vkeys, keys, rng.randint(1, 2))
    points, used = [], {k: [] for k in swept}
    for _ in range(rng.randint(2, 4)):
        pt = {}
        for k in swept:
            pt[k] = gen_point_value(rng, vkeys[k], avoid=used[k])
            used[k].append(pt[k])
        points.append(pt)
    other = [k for k in keys if independent(swept + [k]) and k not in swept and vkeys[k].get("field") not in APD_LINKED]
    if other:  # one more copy that assigns something else: the swept settings keep their configured value there
        k = rng.choice(other)
        points.insert(rng.randint(0, len(points)), {k: gen_point_value(rng, vkeys[k])})
    v0 = view(pr0.detector, pr0.pipeline)
    names = set(v0)
    copies = []
    for pt in points:
        how = rng.choice(["replace", "deepcopy+set"])
        if how == "replace" and not callable(getattr(pr0, "replace", None)):
            how = "deepcopy+set"
        c = dict(case, entry=f"copy:{how}", point={k: repr(v) for k, v in pt.items()},
                 points=[{k: repr(v) for k, v in p.items()} for p in points])
        rec.case(["copy", how, sorted((k, repr(v)) for k, v in pt.items()), kind], True, sample=c)
        try:
            if how == "replace":
                cp = pr0.replace(pt)
            else:
                cp = copy.deepcopy(pr0)
                for k, v in pt.items():
                    cp.set(k, v)
        except Exception as exc:  # noqa: BLE001
            if all(vkeys[k]["cls"] == ENTRY for k in pt):
                rec.count("copy_point_refused_tolerated")
            else:
                report(rec, f"C08:copy:{how}:refused", f"{pt!r}: {type(exc).__name__}: {str(exc)[:200]}", c, index)
            continue
        copies.append((how, pt, cp, c))
    v1 = view(pr0.detector, pr0.pipeline)
    moved = sorted(k for k in set(v0) | set(v1) if v0.get(k) != v1.get(k))
    if moved:
        report(rec, "C08:copy:original-changed", f"assignments on copies {points!r} changed the copied processor: "
               f"{[(k, v0.get(k), v1.get(k)) for k in moved[:3]]}", dict(case, entry="copy", points=repr(points)), index)
    else:
        rec.count("copy_original_unchanged")
    for how, pt, cp, c in copies:
        vc = view(cp.detector, cp.pipeline)
        changed = {k for k in set(v0) | set(vc) if v0.get(k) != vc.get(k)}
        allowed = set()
        for k in pt:
            allowed |= allowed_public(kind, k, vkeys[k], names | set(vc))
        extra = sorted(changed - allowed)
        ok = True
        if extra:
            report(rec, f"C08:copy:{how}:other-setting-changed", f"copy with {pt!r} (sweep {points!r}) also differs from "
                   f"the configuration in {[(k, v0.get(k), vc.get(k)) for k in extra[:3]]}", c, index)
            ok = False
        for k, v in pt.items():
            try:
                new = read_direct(cp, vkeys[k])
            except Exception as exc:  # noqa: BLE001
                new = f"<unreadable {type(exc).__name__}>"
            if not judge_value(new, *expectation(v, True)):
                report(rec, f"C08:copy:{how}:value-not-stored", f"copy with {pt!r} (sweep {points!r}) holds {k}={new!r}", c, index)
                ok = False
        if ok:
            rec.count("copy_points_checked")
            rec.observe("copy_key_classes", "+".join(sorted({vkeys[k]["cls"] for k in pt})))


def judge_sweep_runs(rec, tag, kind, pspec, vkeys, base, points, events, dask, params, c, index, lazy=False) -> bool:
    """Every pipeline of a sweep (the probe calls grouped by detector object) must have seen the configuration `pspec`
    + exactly one point of `points`; on the sequential path every point exactly once."""
    runs = {}
    for ev in events:
        runs.setdefault(ev["det"], []).append(ev)
    todo = list(range(len(points)))
    ok = True
    for run in runs.values():
        hit, why = None, None
        # the dask path may run a point once more (to learn the layout of a result): there every pipeline must be
        # some point of the sweep; on the sequential path every point is run exactly once
        for n in todo + ([n for n in range(len(points)) if n not in todo] if dask else []):
            pt = points[n]
            allowed, problems = set(), []
            for k, v in pt.items():
                if vkeys[k]["cls"] in DET:
                    allowed |= allowed_public(kind, k, vkeys[k], set(base))
                    problems += [("addressed-field-wrong", f"{k}: saw {ev['fields'].get(k)!r}, point {v!r}")
                                 for ev in run if not same(ev["fields"].get(k), v)]
            ps2 = expected_pspec(pspec, vkeys, pt)
            addressed = {}
            for k in pt:
                info = vkeys[k]
                if info["cls"] not in DET:
                    m2 = [m for m in ps2[info["group"]] if m["name"] == info["model"]][0]
                    addressed[(info["group"], info["model"], info["arg"])] = [m2["arguments"][info["arg"]]]
            problems += events_vs_expected(run, ps2, base, allowed, addressed=addressed)
            if not problems:
                hit = n
                break
            why = why or problems
        if hit is None:
            report(rec, f"{tag}:pipeline-matches-no-point", f"a pipeline of the sweep {params!r} saw settings that are no "
                   f"remaining point of it, e.g. {why[:2] if why else 'more pipelines than points'}", c, index)
            ok = False
        elif hit in todo:
            todo.remove(hit)
        else:
            rec.count("sweep_valid_dask_point_run_again")
    if todo and ok and lazy:
        rec.count("sweep_valid_lazy_result_not_loaded")  # pyxel.run does not hand out the lazy result
    elif todo and ok:
        report(rec, f"{tag}:point-not-run", f"sweep {params!r}: {len(runs)} pipelines, points never seen: "
               f"{[points[n] for n in todo][:3]}", c, index)
        ok = False
    return ok


def phase_sweep_valid(rec, rng, kind, dspec, pspec, vkeys, case, index):
    """An observation over existing settings of enabled models / of the detector: every pipeline of the sweep must see
    the configuration + exactly its own point, every point exactly once, and the objects handed in keep their settings."""
    import pyxel
    from pyxel.exposure import Readout
    from pyxel.observation import Observation, ParameterValues
    enabled = {(g, m["name"]) for g, ms in pspec.items() for m in ms if m["enabled"]}
    cands = []
    for k, info in vkeys.items():
        if info["cls"] in ("model-argument", ENTRY):
            if (info["group"], info["model"]) in enabled and info["arg"] not in MAPPING_NAMES:
                cands.append(k)
        elif info["cls"] in DET and (info["spec"][0] == "float" or info["cls"] == SUBFIELD) and info["field"] not in APD_LINKED \
                and info["field"] in dspec[info["sec"]]:  # a field the configuration specifies
            cands.append(k)
    base = baseline_fields(dspec)
    for dask in (False, True):
        path = "dask" if dask else "seq"
        swept = pick_swept(rng, vkeys, cands, rng.choice([1, 1, 2]))
        values = {}
        for k in swept:
            vals, shape = [], rng.choice(["int", "float", "text"])
            for _ in range(rng.randint(2, 3)):
                vals.append(gen_point_value(rng, vkeys[k], avoid=vals, shape=shape))
            values[k] = vals
        mode = "product" if len(swept) > 1 else rng.choice(["product", "sequential"])
        points = [{}]
        for k in swept:
            points = [dict(p, **{k: v}) for p in points for v in values[k]]
        via_yaml = rng.random() < 0.3
        params = [{"key": k, "values": values[k]} for k in swept]
        c = dict(case, entry=f"observation:{path}:{'yaml' if via_yaml else 'api'}", mode=mode, parameters=params, swept="valid")
        rec.case(["sweep-valid", dask, via_yaml, mode, params, kind], True, sample=c)
        has_entry = any(vkeys[k]["cls"] == ENTRY for k in swept)  # an entry key may be refused (before any pipeline)
        probes.reset()
        exc, before, after = None, None, None
        try:
            if via_yaml:
                doc = yaml_doc(dspec, pspec, {"observation": {"readout": {"times": [1.0]}, "mode": mode, "with_dask": dask,
                                                              "parameters": params}})
                pyxel.run(write_yaml(rec, f"sweepv_{index}.yaml", doc))
            else:
                det, pipe = make_detector(dspec), build.make_pipeline(pspec)
                before = view(det, pipe)
                obs = Observation(parameters=[ParameterValues(key=p["key"], values=p["values"]) for p in params],
                                  readout=Readout(times=[1.0]), mode=mode, with_dask=dask)
                tree = pyxel.run_mode(mode=obs, detector=det, pipeline=pipe, with_inherited_coords=True)
                if dask:
                    tree.load()
                after = view(det, pipe)
        except Exception as e:  # noqa: BLE001
            exc = e
        events = probes.events()
        rec.count("probe_events", len(events))
        tag = f"C08:observation-{path}:valid-sweep"
        # two models of the same name (in two groups) with an argument of the same name get the same axis label in
        # the result: the sweep then fails while the result is assembled.  Not a matter of key addressing (the
        # layout of sweep results is another property): counted and reported, not raised here.
        labels = [(vkeys[k].get("model"), k.rsplit(".", 1)[1]) for k in swept]
        if exc is not None and len(set(labels)) < len(labels):
            rec.count("sweep_valid_axis_label_collision")
            rec.observe("sweep_valid_axis_label_collisions", f"{path}:{type(exc).__name__}:{'after' if events else 'before'} pipelines")
            continue
        if exc is not None:
            if events:
                report(rec, f"{tag}:failed-after-models-ran", f"{params!r}: {type(exc).__name__}: {str(exc)[:200]}", c, index)
            elif has_entry:
                rec.count("sweep_valid_entry_refused_tolerated")
                rec.observe("sweep_valid_entry_refusals", f"{path}:{len(swept)} keys:{type(exc).__name__}")
            else:
                report(rec, f"{tag}:refused", f"{params!r}: {type(exc).__name__}: {str(exc)[:200]}", c, index)
            continue
        ok = judge_sweep_runs(rec, tag, kind, pspec, vkeys, base, points, events, dask, params, c, index,
                              lazy=via_yaml and dask)
        if before is not None and after is not None:
            moved = sorted(k for k in set(before) | set(after) if before.get(k) != after.get(k))
            if moved:
                report(rec, f"{tag}:original-changed", f"sweep {params!r} changed the settings of the objects handed in: "
                       f"{[(k, before.get(k), after.get(k)) for k in moved[:3]]}", c, index)
                ok = False
        if ok:
            rec.count(f"sweep_valid_{path}")
            rec.observe("sweep_valid_key_classes", "+".join(sorted({vkeys[k]["cls"] for k in swept})))


# ------------------------------------------------------------------ one Observation object, several runs
def phase_obs_history(rec, rng, kind, dspec, pspec, vkeys, case, index):
    """A session: ONE Observation object (sweeping one model argument) is validated / run 2-4 times while the
    configuration changes between the runs -- the swept model is switched off or on through its `enabled` key on the
    very objects of the previous run, or another pipeline is handed in where the model or the argument is absent.
    Every run is judged against the configuration it was started with, whatever the object has seen before: a declared
    argument of an enabled model is swept (every point seen), everything else is refused before any model runs."""
    import pyxel
    from pyxel.exposure import Readout
    from pyxel.observation import Observation, ParameterValues
    from pyxel.pipelines import Processor
    argkeys = [k for k, info in vkeys.items() if info["cls"] == "model-argument" and info["arg"] not in MAPPING_NAMES]
    if not argkeys:
        return
    key = rng.choice(argkeys)
    info = vkeys[key]
    g, name, arg = info["group"], info["model"], info["arg"]
    flag_key = f"pipeline.{g}.{name}.enabled"
    vals, shape = [], rng.choice(["int", "float", "text"])
    for _ in range(rng.randint(2, 3)):
        vals.append(gen_point_value(rng, info, avoid=vals, shape=shape))
    points = [{key: v} for v in vals]
    dask = rng.random() < 0.4
    path = "dask" if dask else "seq"
    mode = rng.choice(["product", "sequential"])
    params = [{"key": key, "values": vals}]
    obs = Observation(parameters=[ParameterValues(key=key, values=list(vals))], readout=Readout(times=[1.0]), mode=mode,
                      with_dask=dask)
    cur = copy.deepcopy(pspec)  # the configuration of the session objects (followed by the reference model)
    det, pipe = make_detector(dspec), build.make_pipeline(cur)
    base = baseline_fields(dspec)

    def model_of(ps):
        return [m for m in ps.get(g, []) if m["name"] == name]

    n_steps = rng.randint(2, 4)
    # the first run of half of the sessions is a good one (the usual way into such a session)
    if rng.random() < 0.5 and not model_of(cur)[0]["enabled"]:
        Processor(detector=det, pipeline=pipe).set(flag_key, True)
        model_of(cur)[0]["enabled"] = True
    history, accepted_before, refused_before = [], False, False
    for step in range(n_steps):
        op = "as-configured" if step == 0 else rng.choice(["toggle", "toggle", "toggle", "same", "model-absent",
                                                            "argument-undeclared"])
        ps_step, d_step, p_step = cur, det, pipe
        if op == "toggle":
            new_flag = not model_of(cur)[0]["enabled"]
            how = rng.choice(["key", "attribute"])
            if how == "key":
                Processor(detector=det, pipeline=pipe).set(flag_key, new_flag)
            else:
                find_model(pipe, g, name).enabled = new_flag
            model_of(cur)[0]["enabled"] = new_flag
            op = f"switch-{'on' if new_flag else 'off'}:{how}"
        elif op in ("model-absent", "argument-undeclared"):  # another pipeline for this run only
            ps_step = copy.deepcopy(cur)
            if op == "model-absent":
                ps_step[g] = [m for m in ps_step[g] if m["name"] != name]
                if not ps_step[g] and len(ps_step) > 1:
                    del ps_step[g]
            else:
                del model_of(ps_step)[0]["arguments"][arg]
            d_step, p_step = make_detector(dspec), build.make_pipeline(ps_step)
        ms = model_of(ps_step)
        what = ("absent-model" if not ms else "undeclared" if arg not in ms[0]["arguments"] else
                "disabled" if not ms[0]["enabled"] else None)
        entry = rng.choice(["run", "run", "validate"])
        history.append({"op": op, "entry": entry, "expected": what or "swept"})
        c = dict(case, entry=f"observation:{path}:reused-object", mode=mode, parameters=params, history=list(history))
        rec.case(["obs-history", path, mode, params, [(h["op"], h["entry"]) for h in history], kind], True, sample=c)
        probes.reset()
        exc = None
        try:
            if entry == "validate":
                obs.validate_steps(Processor(detector=d_step, pipeline=p_step))
            else:
                tree = pyxel.run_mode(mode=obs, detector=d_step, pipeline=p_step, with_inherited_coords=True)
                if dask:
                    tree.load()
        except Exception as e:  # noqa: BLE001
            exc = e
        events = probes.events()
        rec.count("probe_events", len(events))
        tag = f"C08:observation-{path}:reused-observation"
        hist = " -> ".join(f"{h['op']}/{h['entry']}" for h in history)
        if what is not None:
            if exc is None or events:
                report(rec, f"{tag}:sweep-of-{what}-argument:not-an-error",
                       f"run {step + 1} of one Observation object ({hist}): sweep of {key!r} ({what} in the configuration of "
                       f"this run): exception={type(exc).__name__ if exc else None}, {len(events)} model calls", c, index)
            else:
                rec.count("obs_reuse_invalid_rejected")
                rec.count(f"obs_reuse_{what.replace('-', '_')}_rejected")
                if accepted_before:
                    rec.count("obs_reuse_refused_after_accepted")
            refused_before = True
            continue
        if exc is not None:
            if events:
                report(rec, f"{tag}:valid-sweep:failed-after-models-ran", f"run {step + 1} ({hist}) {params!r}: "
                       f"{type(exc).__name__}: {str(exc)[:200]}", c, index)
            else:
                report(rec, f"{tag}:valid-sweep:refused", f"run {step + 1} of one Observation object ({hist}): the sweep of "
                       f"{key!r} is valid for the configuration of this run: {type(exc).__name__}: {str(exc)[:200]}", c, index)
            continue
        ok = True
        if entry == "run":
            ok = judge_sweep_runs(rec, f"{tag}:valid-sweep", kind, ps_step, vkeys, base, points, events, dask, params, c, index)
        elif events:
            report(rec, f"{tag}:validation-ran-models", f"validate_steps started {len(events)} model calls ({hist})", c, index)
            ok = False
        if ok:
            rec.count("obs_reuse_valid_accepted")
            if refused_before:
                rec.count("obs_reuse_accepted_after_refused")
        accepted_before = True
    rec.observe("obs_history_lengths", n_steps)


# ------------------------------------------------------------------ driver
def run_case(rec, i, spec):
    rng = rec.rng(i)
    kind = KINDS[(i + spec["shard"]) % 4] if rng.random() < 0.8 else rng.choice(KINDS)
    dspec = build.default_detector_spec(kind, rng.randint(2, 4), rng.randint(2, 4))
    shared = rng.random() < 0.5
    pspec = gen_pipeline(rng, mapping_names=(i % 3 == 0), shared_names=shared)
    if shared and len({m["name"] for ms in pspec.values() for m in ms}) < sum(len(ms) for ms in pspec.values()):
        rec.count("shared_name_pipelines")
    # layout of the environment: wavelength not given / one value / multi-wavelength (a structured value)
    layout = rng.choice(["unset", "plain", "structured", "structured"])
    if layout == "plain":
        dspec["environment"]["wavelength"] = round(rng.uniform(200.0, 1500.0), 1)
    elif layout == "structured":
        dspec["environment"]["wavelength"] = {"cut_on": round(rng.uniform(150.0, 450.0), 1),
                                              "cut_off": round(rng.uniform(650.0, 1900.0), 1),
                                              "resolution": rng.randint(2, 40)}
    rec.observe("field_layouts", f"environment.wavelength:{layout}")
    vkeys = valid_keys(kind, pspec, dspec)
    case = {"detector": dspec, "pipeline": pspec}
    rec.observe("kinds", kind)
    rec.observe("n_valid_keys", len(vkeys))
    bad = mutate_keys(rng, kind, pspec, vkeys)
    phase_direct_valid(rec, rng, kind, dspec, pspec, vkeys, case, i)
    phase_text(rec, rng, kind, dspec, pspec, vkeys, case, i, spec.get("n_texts", 14))
    phase_invalid_direct(rec, rng, kind, dspec, pspec, bad, case, i)
    phase_arguments_mapping(rec, rng, kind, dspec, pspec, case, i)
    phase_run_valid(rec, rng, kind, dspec, pspec, vkeys, case, i)
    phase_run_invalid(rec, rng, kind, dspec, pspec, bad, case, i, with_calib=bool(spec.get("calib")))
    phase_sweeps(rec, rng, kind, dspec, pspec, vkeys, case, i)
    phase_copies(rec, rng, kind, dspec, pspec, vkeys, case, i)
    phase_sweep_valid(rec, rng, kind, dspec, pspec, vkeys, case, i)
    phase_obs_history(rec, rng, kind, dspec, pspec, vkeys, case, i)


def warm_up():
    """First calls import lazily (dask, xarray backends ...): keep that out of the audited sections."""
    dspec = build.default_detector_spec("ccd", 2, 2)
    pspec = {"photon_collection": [{"name": "w", "func": PROBE, "arguments": {"a": 1}, "enabled": True}]}
    pr = make_processor(dspec, pspec)
    pr.set("pipeline.photon_collection.w.arguments.a", "[1, 'x']")
    pr.set("pipeline.photon_collection.w.arguments.a", "some text")
    confirm_run(pr)
    probes.reset()


def run_shard(spec, rec):
    audit_install()
    warm_up()
    for i in range(spec["n"]):
        if not rec.wanted(i):
            continue
        run_case(rec, i, spec)


def plan(tier, seed):
    n = 5 if tier == "quick" else 60
    return [{"shard": s, "seed": seed, "kind": "random", "n": n, "calib": tier != "quick" or s % 4 == 0,
             "n_texts": 14 if tier == "quick" else 30} for s in range(16)]


def finalize(counters, sets, tier):
    out = []
    kinds = set(sets.get("kinds", []))
    if kinds != set(KINDS):
        out.append(f"detector types observed: {sorted(kinds)}")
    for vc in ("numeric-text", "sequence-text", "quoted-text", "plain-text", "backslash-text", "embedded-quote-text",
               "code-like-text", "ndarray", "numpy-scalar", "int", "float", "bool", "list"):
        if vc not in set(sets.get("value_classes", [])):
            out.append(f"value class never assigned: {vc}")
    return out


def coverage_extra(counters, sets, tier):
    return {"exhaustive": False,
            "key_classes": sorted(k[len("key_class_"):] for k in counters if k.startswith("key_class_")),
            "entry_points": ["Processor.has/get/set", "Arguments mapping", "run_mode(override_dct=)", "pyxel.run(override=)",
                             "observation seq/dask/YAML", "calibration parameters/result_input_arguments"]}

"""C09 -- a failing model always fails the run, with its identity attached (fault enumeration).

Monitor: the probe model `faulty` raises a planned exception at exactly one enumerated fault
point (run, step, model position); the harness observes what the caller of pyxel.run_mode /
of .compute() sees (exception type, message, __notes__, chain) and the probe call log.
Every (run, step, position) point of each generated pipeline is injected, one at a time.
"""
from __future__ import annotations

import json
import os
import threading

import numpy as np

from vf import build

ID = "C09"
LEVEL = "fault_enumeration"
REGISTER = True
TECHNIQUE = "runtime fault injection at every enumerated (run, step, model) point + observation of the caller-visible exception and of the probe call log"
RULE = ("generated pipelines (2-4 groups, 1-2 probe models each, 1-3 readouts, 2-4 swept runs, with and without a pipeline seed, "
        "sequential observations also with a second swept setting holding a long string or a list of 24-40 numbers); a fault is injected at "
        "EVERY (run, step, model position) point, one per execution, cycling through the exception classes ValueError, "
        "KeyError, RuntimeError, ZeroDivisionError, OSError, AssertionError, StopIteration, TypeError, IndexError, "
        "AttributeError, NotImplementedError, Exception, FileNotFoundError, TimeoutError, FloatingPointError, ImportError, "
        "ExceptionGroup and a custom class with a non-standard constructor; modes exposure, sequential observation, dask observation (synchronous and threads; processes with "
        "picklable classes in thorough), calibration (initial-population and evolution phase by evaluation count); "
        "non-trivial = every injected fault; distinct = distinct (pipeline, mode, point, class) signatures")
ASSUMPTIONS = ["faults are exceptions raised by models; process kills are not injected",
               "under the process scheduler only picklable exception classes are injected (Python's pickling contract)",
               "inside the optimiser's worker threads only the message (not the type) must survive, as the statement says"]
REQUIRED_COUNTERS = ["fault_points_planned", "fault_points_hit", "faults_exposure", "faults_obs_seq", "faults_obs_dask",
                     "faults_obs_seq_at_configured_value", "faults_with_pipeline_seed", "faults_without_pipeline_seed",
                     "faults_obs_seq_with_long_value",
                     "faults_calibration_initial", "faults_calibration_evolution", "identity_checks", "no_events_after_fault_checks"]
TIMEOUT = {"quick": 1200, "thorough": 5400}
LEVEL_TEXT = ("Fault enumeration by runtime injection: for each generated pipeline every (run, step, model position) "
              "point is hit exactly once by a planned exception; the caller-side exception is inspected for the original "
              "message, type, group and model name, the failing run's parameter values (sequential observation) and the "
              "probe log must show no execution after the fault; in dask and calibration modes a compute/run that returns "
              "data is the violation. Exhaustive per pipeline (planned == hit), pipelines sampled.")
LEVEL_NOTE = "Trusted: the probe's fault trigger (exactly one raise per execution, verified by the hit counter)."

_LOCK = threading.Lock()
LOG: list = []
FAULT: dict = {}
EVALS = [0]


class Weird(Exception):
    """Custom exception class with a non-standard constructor."""

    def __init__(self, code, text):
        super().__init__(f"{text} [code={code}]")
        self.code = code


CLASSES = {"ValueError": ValueError, "KeyError": KeyError, "RuntimeError": RuntimeError,
           "ZeroDivisionError": ZeroDivisionError, "OSError": OSError, "AssertionError": AssertionError,
           "Weird": Weird,
           # classes with special treatment somewhere in Python (generators, lookups, imports, groups ...)
           "StopIteration": StopIteration, "TypeError": TypeError, "IndexError": IndexError,
           "AttributeError": AttributeError, "NotImplementedError": NotImplementedError,
           "Exception": Exception, "FileNotFoundError": FileNotFoundError, "TimeoutError": TimeoutError,
           "FloatingPointError": FloatingPointError, "ImportError": ImportError,
           "ExceptionGroup": ExceptionGroup}
PICKLABLE = ["ValueError", "KeyError", "RuntimeError", "ZeroDivisionError", "OSError", "AssertionError",
             "TypeError", "IndexError", "NotImplementedError", "Exception"]


def make_exc(name, token):
    if name == "Weird":
        return Weird(42, token)
    if name == "ExceptionGroup":
        return ExceptionGroup(f"group {token}", [ValueError(token)])
    if name == "FileNotFoundError":
        return FileNotFoundError(2, token)
    return CLASSES[name](token)


def faulty(detector, **kw):
    """Probe: logs the call; raises the planned exception when the fault point matches."""
    step = int(detector.pipeline_count)
    name = detector.current_running_model_name
    k = float(detector.environment.temperature) if kw.get("k") is None else kw.get("k")
    with _LOCK:
        EVALS[0] += 1 if kw.get("count_eval") else 0
        n_eval = EVALS[0]
        LOG.append({"model": name, "step": step, "k": k, "eval": n_eval, "thread": threading.get_ident()})
        f = dict(FAULT)
    if not f and os.environ.get("VF_C09_FAULT"):
        # worker processes of the dask process scheduler import this module afresh: the plan travels
        # through the environment they inherit
        f = json.loads(os.environ["VF_C09_FAULT"])
    hit = False
    if f:
        if "eval" in f:
            hit = kw.get("count_eval") and n_eval == f["eval"]
        else:
            hit = f["model"] == name and f["step"] == step and (f.get("k") is None or float(f["k"]) == float(k))
    if hit:
        with _LOCK:
            LOG[-1]["raised"] = True
        exc = make_exc(f["cls"], f["token"])
        if f.get("own_note"):
            # a model may annotate its own error (PEP 678), as pyxel's load_image does for a missing file
            exc.add_note("note attached by the failing model itself")
        raise exc
    if kw.get("image"):
        detector.image.array = np.full(detector.geometry.shape, 3, dtype=np.uint16)
    if kw.get("pixel"):
        detector.pixel.array = np.full(detector.geometry.shape, float(kw.get("a", 1.0)) * 2.0 + float(k or 0))


def plan(tier, seed):
    n = 1 if tier == "quick" else 8
    specs = [{"shard": s, "seed": seed, "kind": "pipelines", "n": n} for s in range(12)]
    specs += [{"shard": 12 + s, "seed": seed, "kind": "calibration", "n": 4 if tier == "quick" else 24} for s in range(4)]
    return specs


def gen_pipeline(rng):
    groups = sorted(rng.sample(range(len(build.GROUPS)), rng.randint(2, 4)))
    pspec = {}
    models = []
    for gi in groups:
        g = build.GROUPS[gi]
        pspec[g] = []
        for j in range(rng.randint(1, 2)):
            name = f"{g}_f{j}"
            pspec[g].append({"name": name, "func": "vf.checks.c09.faulty", "arguments": {"tag": rng.randint(0, 99)}})
            models.append((g, name))
    # the image must be written at every step of a multi-readout run: the last model does it
    last_g = build.GROUPS[groups[-1]]
    pspec[last_g][-1]["arguments"]["image"] = True
    return pspec, models


def find_all(exc):
    """Everything the caller can see: messages, notes, chain (cause/context), group exceptions."""
    texts, types, seen = [], [], set()
    stack = [exc]
    while stack:
        e = stack.pop()
        if e is None or id(e) in seen:
            continue
        seen.add(id(e))
        texts.append(str(e))
        texts.extend(getattr(e, "__notes__", []) or [])
        types.append(type(e))
        stack.extend([e.__cause__, e.__context__])
        stack.extend(getattr(e, "exceptions", []) or [])
    return "\n".join(texts), types


def judge(rec, exc, returned, mode, point, case, index, group, model, k_values=None, strict_type=True):
    """Decide one injected fault from what the caller observed."""
    cls, token = point["cls"], point["token"]
    tag = f"C09:{mode}"
    if exc is None:
        rec.violation(f"{tag}:fault-swallowed", f"a {cls} raised by model {model} at step {point['step']} (k={point.get('k')}) "
                      f"did not reach the caller; a result was returned: {returned!r:.120}", case, index)
        return
    text, types = find_all(exc)
    rec.count("identity_checks")
    if token not in text:
        rec.violation(f"{tag}:original-message-lost", f"caller saw {type(exc).__name__}: {str(exc)[:200]!r} without the original message {token!r}", case, index)
    if strict_type and not any(issubclass(t, CLASSES[cls]) for t in types[:1]):
        rec.violation(f"{tag}:exception-type-changed", f"model raised {cls}, caller saw {type(exc).__name__}", case, index)
    if group not in text or model not in text:
        rec.violation(f"{tag}:group-or-model-name-missing", f"neither message, notes nor chain name group '{group}' and model '{model}': {text[:300]!r}", case, index)
    if k_values is not None and repr(point["k"]) not in text and str(point["k"]) not in text:
        rec.violation(f"{tag}:parameter-values-missing", f"the failing run's parameter value {point['k']} is not attached to the error: {text[:300]!r}", case, index)


def events_after_fault(log):
    raised = [i for i, e in enumerate(log) if e.get("raised")]
    if not raised:
        return None
    return log[raised[0] + 1:]


def reset(fault):
    with _LOCK:
        LOG.clear()
        FAULT.clear()
        FAULT.update(fault)
        EVALS[0] = 0
    os.environ["VF_C09_FAULT"] = json.dumps(fault)


def pipeline_shard(rec, spec):
    import dask
    import pyxel
    from pyxel.exposure import Exposure, Readout
    from pyxel.observation import Observation, ParameterValues

    tier_thorough = spec["n"] > 2
    for i in range(spec["n"]):
        if not rec.wanted(i):
            continue
        rng = rec.rng(i)
        pspec, models = gen_pipeline(rng)
        n_steps = rng.randint(1, 3)
        times = [float(t) for t in range(1, n_steps + 1)]
        # the swept quantity is a detector field every model can read: each run is identifiable by all models
        k_values = [float(v) for v in rng.sample(range(100, 400), rng.randint(2, 4))]
        key = "detector.environment.temperature"
        # scans usually bracket the configured value: one run always uses exactly the value of the base detector
        nominal = float(build.make_detector(build.default_detector_spec("ccd", 2, 3)).environment.temperature)
        if nominal not in k_values:
            k_values[rng.randrange(len(k_values))] = nominal
        names = list(CLASSES)
        ci = spec["shard"] + i
        base_case = {"pipeline": pspec, "times": times, "k_values": k_values, "sweep": key}

        def detector():
            return build.make_detector(build.default_detector_spec("ccd", 2, 3))

        # ---------------- exposure: every (step, position)
        for step in range(n_steps):
            for (g, m) in models:
                cls = names[ci % len(names)]
                ci += 1
                point = {"model": m, "step": step, "cls": cls, "k": None, "token": f"boom-{g}-{m}-{step}-{ci}",
                         "own_note": ci % 2 == 0}
                rec.count("fault_points_planned")
                reset(point)
                # a pipeline seed puts the whole readout loop inside the seeding context manager: with and without
                pseed = None if (ci // 2) % 2 else rng.randint(0, 2**31 - 1)
                point["pipeline_seed"] = pseed
                rec.count("faults_with_pipeline_seed" if pseed is not None else "faults_without_pipeline_seed")
                exc, ret = None, None
                try:
                    ret = pyxel.run_mode(mode=Exposure(readout=Readout(times=times), pipeline_seed=pseed), detector=detector(),
                                         pipeline=build.make_pipeline(pspec), with_inherited_coords=True)
                except BaseException as e:  # noqa: BLE001
                    exc = e
                case = dict(base_case, mode="exposure", point=point)
                hit = sum(1 for e in LOG if e.get("raised"))
                rec.count("fault_points_hit", hit)
                rec.count("faults_exposure")
                if hit != 1:
                    rec.violation("C09:harness:fault-not-hit-exactly-once", f"{hit} raises", case, i)
                judge(rec, exc, ret, "exposure", point, case, i, g, m)
                after = events_after_fault(list(LOG))
                rec.count("no_events_after_fault_checks")
                if after:
                    rec.violation("C09:exposure:models-executed-after-fault", f"{len(after)} model calls after the failing model", case, i)
                rec.case(("exposure", sorted(pspec), n_steps, m, step, cls), True, sample=case if step == 0 else None)
        # ---------------- observation: every (run, step, position), sequential and dask
        for exec_mode in ("obs_seq", "obs_dask_threads", "obs_dask_sync") + (("obs_dask_processes",) if tier_thorough else ()):
            for r, k in enumerate(k_values):
                for step in range(n_steps):
                    for (g, m) in models:
                        if exec_mode != "obs_seq" and (ci % 3):  # dask modes: every third point (cost), rotating
                            ci += 1
                            continue
                        pool = PICKLABLE if exec_mode.endswith("processes") else names
                        # (the class rotates with the number of *injected* points: rotating with ci would tie the
                        #  class to the every-third-point selection of the dask modes and never reach two thirds of them)
                        cls = pool[(ci if exec_mode == "obs_seq" else ci // 3) % len(pool)]
                        ci += 1
                        point = {"model": m, "step": step, "cls": cls, "k": k, "token": f"boom-{m}-{step}-{int(k)}-{ci}",
                                 "own_note": (ci // 3) % 2 == 0}
                        rec.count("fault_points_planned")
                        reset(point)
                        dask_on = exec_mode != "obs_seq"
                        pseed = None if (ci // 2) % 2 else rng.randint(0, 2**31 - 1)
                        point["pipeline_seed"] = pseed
                        rec.count("faults_with_pipeline_seed" if pseed is not None else "faults_without_pipeline_seed")
                        params = [ParameterValues(key=key, values=list(k_values))]
                        # sequentially executed runs: a second swept setting whose value is long (a path-like
                        # string, a list of a few dozen numbers) must be attached to the error like any other
                        extra = None
                        if not dask_on and (ci // 4) % 3:
                            g0, m0 = models[ci % len(models)]
                            if (ci // 4) % 3 == 1:
                                extra = "/data/" + "/".join(f"dir{rng.randint(0, 999):03d}" for _ in range(rng.randint(12, 20))) + "/frame.fits"
                            else:
                                extra = [float(rng.randint(0, 9999)) / 8 for _ in range(rng.randint(24, 40))]
                            params.append(ParameterValues(key=f"pipeline.{g0}.{m0}.arguments.tag", values=[extra]))
                            point["extra_key"], point["extra_value"] = params[-1].key, extra
                            rec.count("faults_obs_seq_with_long_value")
                        obs = Observation(parameters=params, readout=Readout(times=times), with_dask=dask_on,
                                          pipeline_seed=pseed)
                        exc, ret = None, None
                        try:
                            ret = pyxel.run_mode(mode=obs, detector=detector(), pipeline=build.make_pipeline(pspec),
                                                 with_inherited_coords=True)
                            if dask_on:
                                sched = {"obs_dask_threads": "threads", "obs_dask_sync": "synchronous",
                                         "obs_dask_processes": "processes"}[exec_mode]
                                with dask.config.set(scheduler=sched, **({"num_workers": 4} if sched != "synchronous" else {})):
                                    ret = ret["/bucket"].to_dataset().compute()
                        except BaseException as e:  # noqa: BLE001
                            exc = e
                        case = dict(base_case, mode=exec_mode, point=point)
                        log = list(LOG)
                        hit = sum(1 for e in log if e.get("raised"))
                        if exec_mode.endswith("processes"):
                            hit = 1 if exc is not None else 0
                        rec.count("fault_points_hit", min(hit, 1))
                        rec.count("faults_obs_seq" if not dask_on else "faults_obs_dask")
                        if not dask_on and k == nominal:
                            rec.count("faults_obs_seq_at_configured_value")
                        mode_tag = "obs_seq" if not dask_on else exec_mode
                        judge(rec, exc, ret, mode_tag, point, case, i, g, m,
                              k_values=k_values if exec_mode == "obs_seq" else None)
                        if extra is not None and exc is not None:
                            text, _ = find_all(exc)
                            parts = [extra] if isinstance(extra, str) else [repr(v) for v in extra]
                            lost = [p for p in parts if p not in text]
                            if lost or point["extra_key"] not in text:
                                rec.violation("C09:obs_seq:parameter-values-missing",
                                              f"the failing run's value of {point['extra_key']} is not (fully) attached to the error "
                                              f"({len(lost)} of {len(parts)} part(s) missing): {text[:300]!r}", case, i)
                        if exec_mode == "obs_seq":
                            rec.count("no_events_after_fault_checks")
                            after = events_after_fault(log)
                            if after:
                                rec.violation("C09:obs_seq:runs-executed-after-fault",
                                              f"{len(after)} model calls after the failing model (later runs were executed)", case, i)
                        rec.observe("exception_classes", cls)
                        if dask_on:
                            rec.observe("exception_classes_dask", cls)
                        rec.case((exec_mode, sorted(pspec), n_steps, m, step, r, cls), True)
        rec.observe("pipelines", len(models))


def calibration_shard(rec, spec):
    import pyxel
    from pyxel.calibration import Algorithm, Calibration
    from pyxel.observation import ParameterValues
    from pyxel.pipelines import FitnessFunction
    import os

    rows, cols = 2, 3
    path = os.path.join(rec.tmp, "target.npy")
    np.save(path, np.arange(rows * cols, dtype=float).reshape(rows, cols))
    names = list(CLASSES)
    pop = 8
    for i in range(spec["n"]):
        if not rec.wanted(i):
            continue
        rng = rec.rng(i)
        islands = rng.choice([1, 2])
        phase = "initial" if i % 2 == 0 else "evolution"
        n_eval = rng.randint(1, pop * islands) if phase == "initial" else rng.randint(pop * islands + 1, pop * islands * 2)
        cls = names[(spec["shard"] + i) % len(names)]
        g, m = "charge_collection", "cal_f"
        point = {"eval": n_eval, "cls": cls, "token": f"boom-cal-{n_eval}-{i}", "step": 0, "own_note": i % 3 == 0}
        pspec = {g: [{"name": m, "func": "vf.checks.c09.faulty",
                      "arguments": {"a": 1.0, "k": 0, "pixel": True, "count_eval": True}}]}
        cal = Calibration(
            target_data_path=[path], fitness_function=FitnessFunction(func="pyxel.calibration.fitness.sum_of_abs_residuals"),
            algorithm=Algorithm(type="sade", generations=2, population_size=pop),
            parameters=[ParameterValues(key=f"pipeline.{g}.{m}.arguments.a", values="_", boundaries=(0.0, 10.0))],
            result_type="pixel", result_fit_range=(0, rows, 0, cols), target_fit_range=(0, rows, 0, cols),
            pygmo_seed=rng.randint(1, 9999), num_islands=islands, num_evolutions=2,
            pipeline_seed=None if i % 2 == (i // 2) % 2 else rng.randint(0, 2**31 - 1))
        rec.count("calibration_with_pipeline_seed" if cal.pipeline_seed is not None else "calibration_without_pipeline_seed")
        rec.count("fault_points_planned")
        reset(point)
        exc, ret = None, None
        try:
            ret = pyxel.run_mode(mode=cal, detector=build.make_detector(build.default_detector_spec("ccd", rows, cols)),
                                 pipeline=build.make_pipeline(pspec), with_inherited_coords=True)
            ret = {k: np.asarray(v.values) for k, v in ret["/champion"].to_dataset().items()}
        except BaseException as e:  # noqa: BLE001
            exc = e
        case = {"mode": "calibration", "phase": phase, "islands": islands, "point": point}
        hit = sum(1 for e in LOG if e.get("raised"))
        if hit == 0 and exc is None:
            rec.count("calibration_fault_point_not_reached")
            continue
        rec.count("fault_points_hit", min(hit, 1))
        rec.count(f"faults_calibration_{phase}")
        judge(rec, exc, ret, f"calibration:{phase}", point, case, i, g, m, strict_type=False)
        rec.case(("calibration", phase, islands, n_eval, cls), True, sample=case)


def run_shard(spec, rec):
    if spec["kind"] == "pipelines":
        pipeline_shard(rec, spec)
    else:
        calibration_shard(rec, spec)


def finalize(counters, sets, tier):
    out = []
    if counters.get("fault_points_hit", 0) < counters.get("fault_points_planned", 0) - counters.get("calibration_fault_point_not_reached", 0):
        out.append(f"only {counters.get('fault_points_hit')} of {counters.get('fault_points_planned')} planned fault points were hit")
    missing = sorted(set(CLASSES) - set(sets.get("exception_classes_dask", [])))
    if missing:
        out.append(f"exception classes never injected in a dask mode: {missing}")
    return out


def coverage_extra(counters, sets, tier):
    return {"exhaustive": False,
            "exhaustive_note": "every (run, step, position) point of each generated pipeline is injected in exposure and "
                               "sequential observation; dask modes inject a rotating third of the points; pipelines are sampled",
            "fault_points_planned": counters.get("fault_points_planned", 0),
            "fault_points_hit": counters.get("fault_points_hit", 0)}

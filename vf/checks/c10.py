"""C10 -- calibration candidates map to the right parameters, inside their bounds.

Monitor: the probe model `probe` (referenced by the generated pipeline as `vf.checks.c10.probe`)
logs, under a lock, the argument values and detector fields it actually received in every
evaluation (optimiser candidates, direct `problem.fitness(x)` calls, re-simulation of the
champions) and writes a closed-form function of them into the pixel bucket so that the fitness
is meaningful.  Oracle (no pyxel imports): `oracle_box` (decision box), `oracle_split`
(decision vector -> per-parameter values: 10** on logarithmic slices, identity elsewhere,
declaration order, vector parameters taking consecutive components).

Refutations
 (a) a logged evaluation whose received values lie outside the declared boundaries, or that changed an
     argument / detector field that is not calibrated;
 (b) a reported champion / best decision vector outside the decision box;
 (c) reported parameters != oracle mapping of the reported decision vector;
 (d) reported parameters that were never applied (no logged evaluation with those values);
 (e) `problem.fitness(x)` (corners of the box, interior points) after which the log does not show the
     oracle's mapping of x; `get_bounds()` != the oracle's box;
 (f) the re-simulation of the last champions (`/simulated/pixel`) applying other values than the reported ones.

Histories: the configuration objects (the Calibration, or the ParameterValues shared by two Calibrations) are not
always fresh -- a random share of the cases uses them once or twice before (a problem built from them and asked
for its box, or a complete calibration run, as when a notebook cell is executed again); every use is a calibration
in its own right and is judged by the same refutations against the boundaries that were *declared*.
"""
from __future__ import annotations

import itertools
import math
import os
import threading

import numpy as np

from vf import build

ID = "C10"
LEVEL = "exploration"
REGISTER = True
TECHNIQUE = ("runtime monitoring: probe-model log of the values applied in every calibration evaluation + reported "
             "champion/best nodes vs. an independent decision-vector -> parameter mapping and decision box")
RULE = ("random calibration layouts: 1-4 calibrated parameters drawn in any order from scalar arguments, two vector "
        "arguments (1-4 placeholders) of the probe model and four detector fields, linear / logarithmic, shared or "
        "per-component boundaries, optimum inside or beyond the box; run by the real Calibration with sade / sga / "
        "seven derivative-free nlopt solvers, tiny populations, pygmo seeds, 1-3 islands, 1-3 evolutions, three "
        "topologies, with and without best individuals, one or two processors (result_input_arguments), re-simulation "
        "of the champions; configuration objects fresh or already used (0-2 earlier problems built / calibrations run "
        "from the same Calibration, or from another Calibration sharing the ParameterValues); plus direct "
        "problem.fitness(x) on box corners and interior "
        "points of ModelFittingDataTree problems (bare and wrapped in pygmo.problem); non-trivial = >=2 parameters "
        "or a vector parameter; distinct = distinct (kind, parameter layout with boundaries, algorithm) signatures")
ASSUMPTIONS = [
    "the probe model stands for arbitrary models: the mapping does not depend on what a model does with its arguments",
    "values are compared with a relative slack of 1e-12 (10**log10 round trip, numpy vs. libm pow)",
    "ParameterValues.enabled is ignored by the calibration mode (read: no code path looks at it), so disabled "
    "calibration parameters are not generated",
    "gradient-based nlopt solvers cannot run on the gradient-free fitting problem and are recorded as skipped",
]
REQUIRED_COUNTERS = [
    "vector_parameters_declared_as_tuple", "calibrations", "logged_evaluations", "evaluations_bounds_checked", "champions_checked", "best_checked",
    "reported_found_in_log", "direct_problems", "direct_fitness_calls", "direct_corner_calls", "bounds_vectors_checked",
    "resimulations_checked", "layouts_vector_before_scalar", "layouts_log_after_vector", "layouts_per_component_bounds",
    "layouts_logarithmic", "layouts_detector_field", "layouts_keys_not_sorted", "algo_sade", "algo_sga", "algo_nlopt",
    "multi_island_runs", "multi_evolution_runs", "two_processor_runs", "direct_two_processor_calls",
    "reused_configuration_runs", "reused_configuration_problems", "reused_log_per_component_layouts",
]
TIMEOUT = {"quick": 900, "thorough": 3600}
LEVEL_TEXT = ("Exploration by runtime monitoring: every generated calibration is executed by the real Calibration / "
              "pygmo archipelago and every generated decision vector by the real ModelFittingDataTree.fitness; the probe "
              "model's log of the values it received is the ground truth that boundaries, the decision->parameter mapping "
              "and the reported champion / best nodes are checked against. Held = on the executions observed.")
LEVEL_NOTE = ("Trusted: the probe model and its lock; xarray selection on the returned tree; the 25-line mapping oracle. "
              "Known findings: nlopt solver 'newuoa' ignores the box (family C10:nlopt-newuoa:*); nlopt solver 'cobyla' "
              "occasionally evaluates an uninitialised decision vector at the end of an evolution (C10:nlopt-cobyla:*).")

RTOL = 1e-12
ROWS, COLS = 3, 4

# ------------------------------------------------------------------ probe model (M1)
LOG: list = []
_LOCK = threading.Lock()

SCALARS = ("a", "b", "c")
VECTORS = ("v", "w")
DET_KEYS = {
    "qe": "detector.characteristics.quantum_efficiency",
    "temp": "detector.environment.temperature",
    "fwc": "detector.characteristics.full_well_capacity",
    "cvc": "detector.characteristics.charge_to_volt_conversion",
}
DEFAULTS = {"a": 2.0, "b": -3.5, "c": 0.25, "v": [1.5, 2.5, 3.5, 4.5], "w": [0.5, 0.75, 0.875, 0.9375],
            "qe": 0.9, "temp": 300.0, "fwc": 100000.0, "cvc": 1.0e-6}
SLOTS = ("a", "b", "c", "v", "w", "qe", "temp", "fwc", "cvc")


def _flat(x) -> list:
    return [float(t) for t in np.asarray(x, dtype=float).ravel().tolist()]


def closed_form(values: dict) -> np.ndarray:
    """Pixel content for the received values {slot: [floats]} (harness and probe share only this formula)."""
    idx = np.arange(ROWS * COLS, dtype=float).reshape(ROWS, COLS)
    out = np.zeros((ROWS, COLS))
    j = 0
    for slot in SLOTS:
        for val in values[slot]:
            j += 1
            mag = math.log10(abs(val) + 1e-9)  # parameters span many decades: all of them stay visible
            out += (val if abs(val) < 1e3 else 1e3 * math.copysign(1.0, val)) * (1.0 + np.cos(0.7 * j * idx)) / j
            out += mag * np.sin(0.3 * j + idx)
    return out


def probe(detector, a=0.0, b=0.0, c=0.0, v=(), w=()):
    """Probe model: log what this evaluation received, then write the closed form into the pixel bucket."""
    ch, env = detector.characteristics, detector.environment
    got = {"a": _flat(a), "b": _flat(b), "c": _flat(c), "v": _flat(v), "w": _flat(w),
           "qe": _flat(ch.quantum_efficiency), "temp": _flat(env.temperature),
           "fwc": _flat(ch.full_well_capacity), "cvc": _flat(ch.charge_to_volt_conversion)}
    with _LOCK:
        LOG.append({"got": got, "thread": threading.get_ident()})
    detector.pixel.array = closed_form(got)


def log_reset() -> None:
    with _LOCK:
        LOG.clear()


def log_snapshot() -> list:
    with _LOCK:
        return list(LOG)


# ------------------------------------------------------------------ oracle (no pyxel)
def comp_bounds(p: dict) -> list:
    """Declared (lo, hi) of every component of one parameter."""
    n = p["n"] or 1
    b = p["bounds"]
    if isinstance(b[0], (list, tuple)):
        return [(float(lo), float(hi)) for lo, hi in b]
    return [(float(b[0]), float(b[1]))] * n


def oracle_dim(params: list) -> int:
    return sum(p["n"] or 1 for p in params)


def oracle_box(params: list) -> tuple:
    lower, upper = [], []
    for p in params:
        for lo, hi in comp_bounds(p):
            lower.append(math.log10(lo) if p["log"] else lo)
            upper.append(math.log10(hi) if p["log"] else hi)
    return lower, upper


def oracle_split(params: list, x) -> list:
    """Decision vector -> per-parameter lists of applied values, in declaration order."""
    out, pos = [], 0
    for p in params:
        n = p["n"] or 1
        comps = [float(t) for t in x[pos:pos + n]]
        out.append([10.0 ** t for t in comps] if p["log"] else comps)
        pos += n
    return out


def oracle_flat(params: list, x) -> list:
    return [t for part in oracle_split(params, x) for t in part]


def close(a: float, b: float) -> bool:
    return a == b or abs(a - b) <= RTOL * max(abs(a), abs(b))


def close_abs(a: float, b: float) -> bool:
    return a == b or abs(a - b) <= RTOL * max(1.0, abs(a), abs(b))


def within(val: float, lo: float, hi: float) -> bool:
    slack = RTOL * max(abs(lo), abs(hi), abs(val))
    return lo - slack <= val <= hi + slack  # False for NaN


def layout_class(params: list, j: int) -> str:
    """Stable class of the parameter at which something failed (where / which input class, no values)."""
    p = params[j]
    kind = "vector" if p["n"] else "scalar"
    parts = [("vector-before-" + kind) if any(q["n"] for q in params[:j]) else kind]
    if p["n"] and isinstance(p["bounds"][0], (list, tuple)):
        parts.append("per-component-bounds")
    if p["log"]:
        parts.append("logarithmic")
    if p["slot"] in DET_KEYS:
        parts.append("detector-field")
    return ":".join(parts)


def param_of_component(params: list, comp: int) -> int:
    pos = 0
    for j, p in enumerate(params):
        pos += p["n"] or 1
        if comp < pos:
            return j
    return len(params) - 1


# ------------------------------------------------------------------ generators
GROUPS = ("photon_collection", "charge_generation", "charge_collection", "charge_measurement")
NLOPT_OK = ("cobyla", "bobyqa", "newuoa_bound", "praxis", "neldermead", "sbplx")
NLOPT_GRADIENT = ("mma", "ccsaq", "slsqp", "lbfgs", "tnewton_precond_restart", "tnewton_precond", "tnewton_restart",
                  "tnewton", "var2", "var1")


def _r(rng, lo, hi):
    return float(repr(rng.uniform(lo, hi)))


def gen_bounds_one(rng, slot: str, log: bool, band: int | None) -> list:
    if slot == "qe":
        if log:
            lo = 10.0 ** _r(rng, -3.0, -1.0)
            return [lo, rng.choice([1.0, 0.9, 0.5, min(1.0, lo * 10.0 ** _r(rng, 0.3, 1.0))])]
        if rng.random() < 0.3:
            return [0.0, 1.0]
        lo = _r(rng, 0.0, 0.5)
        return [lo, lo + _r(rng, 0.05, 0.5)]
    if slot == "temp":
        lo = _r(rng, 20.0, 400.0)
        return [lo, min(990.0, lo * 10.0 ** _r(rng, 0.1, 1.0))] if log else [lo, lo + _r(rng, 5.0, 500.0)]
    if slot == "fwc":
        lo = 10.0 ** _r(rng, 2.0, 5.0)
        return [lo, min(9.0e6, lo * 10.0 ** _r(rng, 0.2, 2.0))]
    if slot == "cvc":
        if log:
            lo = 10.0 ** _r(rng, -8.0, -3.0)
            return [lo, lo * 10.0 ** _r(rng, 0.2, 3.0)]
        lo = _r(rng, 0.0, 40.0)
        return [lo, lo + _r(rng, 0.5, 50.0)]
    if log:
        if band is not None:  # disjoint decade bands: a value landing in the wrong component leaves its box
            lo = 10.0 ** (band - 6 + _r(rng, 0.0, 0.3))
            return [lo, lo * 10.0 ** _r(rng, 0.2, 0.6)]
        lo = 10.0 ** _r(rng, -6.0, 2.0)
        return [lo, lo * 10.0 ** _r(rng, 0.3, 4.0)]
    if band is not None:
        lo = -300.0 + 90.0 * band + _r(rng, 0.0, 30.0)
        return [lo, lo + _r(rng, 1.0, 50.0)]
    lo = _r(rng, -50.0, 50.0)
    return [lo, lo + _r(rng, 0.5, 100.0)]


def gen_params(rng, force: str | None = None, allow_det: bool = True) -> tuple:
    """1-4 calibrated parameters in random declaration order; returns (params, n_v, n_w)."""
    n_v, n_w = rng.randint(1, 4), rng.randint(1, 4)
    pool = list(SCALARS) + list(VECTORS) + (list(DET_KEYS) if allow_det else [])
    k = rng.randint(1, 4)
    if force in ("vector_first", "log_after_vector"):
        vec = rng.choice(VECTORS)
        sca = rng.choice(list(SCALARS) + (["temp", "cvc"] if allow_det else []))
        rest = rng.sample([s for s in pool if s not in (vec, sca)], max(0, k - 2))
        pos = rng.randint(0, len(rest))
        slots = rest[:pos] + [vec] + rest[pos:]
        slots.insert(rng.randint(slots.index(vec) + 1, len(slots)), sca)
    else:
        slots = rng.sample(pool, k)
    # keep the decision vector short enough for toy optimisers
    while sum((n_v if s == "v" else n_w if s == "w" else 1) for s in slots) > 8:
        if n_v >= n_w:
            n_v -= 1
        else:
            n_w -= 1
    disjoint = rng.random() < 0.5
    params, comp = [], 0
    group, name = rng.choice(GROUPS), rng.choice(["m", "probe_1", "zz", "A"])
    for s in slots:
        n = {"v": n_v, "w": n_w}.get(s)
        log = rng.random() < 0.5
        if force == "log_after_vector" and s == sca:
            log = True
        if s == "fwc":
            log = log or rng.random() < 0.5
        per_comp = bool(n) and rng.random() < 0.55
        if per_comp:
            bounds = [gen_bounds_one(rng, s, log, (comp + i) % 7 if disjoint else None) for i in range(n)]
        else:
            bounds = gen_bounds_one(rng, s, log, comp % 7 if disjoint else None)
        key = DET_KEYS[s] if s in DET_KEYS else f"pipeline.{group}.{name}.arguments.{s}"
        params.append({"key": key, "slot": s, "n": n, "log": log, "bounds": bounds})
        comp += n or 1
    return params, n_v, n_w, group, name


def gen_algo(rng, dim: int, tier: str) -> dict:
    big = tier == "thorough" and rng.random() < 0.25
    kind = rng.choice(["sade", "sade", "sga", "sga", "nlopt", "nlopt"])
    if kind == "sade":
        return {"type": "sade", "generations": rng.randint(1, 12 if big else 4),
                "population_size": rng.randint(7, 20 if big else 9), "variant": rng.randint(1, 18),
                "variant_adptv": rng.randint(1, 2), "memory": rng.random() < 0.3}
    if kind == "sga":
        pop = rng.randint(2, 20 if big else 8)
        mutation = rng.choice(["uniform", "gaussian", "polynomial"])
        crossover = rng.choice(["single", "exponential", "binomial", "sbx"])
        if crossover == "sbx" and pop % 2:  # pygmo: sbx needs an even population
            pop += 1
        return {"type": "sga", "generations": rng.randint(1, 12 if big else 5), "population_size": pop,
                "cr": _r(rng, 0.3, 1.0), "m": _r(rng, 0.02, 0.7), "eta_c": _r(rng, 1.0, 10.0),
                "param_m": _r(rng, 1.0, 20.0) if mutation == "polynomial" else _r(rng, 0.05, 1.0),
                "param_s": rng.randint(1, min(pop, 3)),
                "crossover": crossover,
                "mutation": mutation,
                "selection": rng.choice(["tournament", "truncated"])}
    return {"type": "nlopt", "generations": 1, "population_size": rng.randint(1, 4),
            "nlopt_solver": rng.choice(NLOPT_OK), "maxeval": rng.randint(2 * dim + 3, 120 if big else 40),
            "xtol_rel": 1e-8, "replacement": rng.choice(["best", "worst", "random"]),
            "nlopt_selection": rng.choice(["best", "worst", "random"])}


def gen_truth(rng, params: list) -> list:
    """Parameter values behind the target: inside the box, or beyond it (the optimum then lies on the boundary)."""
    mode = rng.choice(["inside", "inside", "beyond", "mixed"])
    out = []
    for p in params:
        for lo, hi in comp_bounds(p):
            m = mode if mode != "mixed" else rng.choice(["inside", "beyond"])
            if m == "inside":
                t = rng.random()
                out.append(10.0 ** (math.log10(lo) + t * (math.log10(hi) - math.log10(lo))) if p["log"]
                           else lo + t * (hi - lo))
            elif p["log"]:
                out.append(hi * 30.0 if rng.random() < 0.5 else lo / 30.0)
            else:
                out.append(hi + 2.0 * (hi - lo) if rng.random() < 0.5 else lo - 2.0 * (hi - lo))
    return out


def gen_case(rng, kind: str, tier: str, force: str | None = None) -> dict:
    params, n_v, n_w, group, name = gen_params(rng, force)
    dim = oracle_dim(params)
    islands = rng.choice([1, 1, 2, 2, 3])
    algo = gen_algo(rng, dim, tier)
    case = {"kind": kind, "group": group, "model": name, "n_v": n_v, "n_w": n_w, "params": params,
            "truth": gen_truth(rng, params), "algo": algo,
            "pygmo_seed": rng.randint(0, 100000), "pipeline_seed": rng.choice([None, rng.randint(0, 999)]),
            "islands": islands, "evolutions": rng.choice([1, 1, 2, 3]),
            "best": rng.choice([None, None, 1, 2, algo["population_size"]]),
            "topology": rng.choice(["unconnected", "ring", "fully_connected"]) if islands > 1 else "unconnected",
            "inherited": rng.random() < 0.5, "resimulate": rng.random() < 0.6, "input_c": None}
    if all(p["slot"] != "c" for p in params) and rng.random() < 0.3:
        # two processors (result_input_arguments), one target each: every candidate is applied to both
        case["input_c"] = [_r(rng, -5.0, 5.0), _r(rng, 6.0, 50.0)]
    case["history"] = gen_history(rng, kind)
    return case


def gen_history(rng, kind: str) -> list:
    """Earlier uses of the configuration objects before the judged use: [] (fresh objects) or 1-2 of
    {"use": "problem" | "run", "share": "calibration" | "parameters"}.  "problem": a fitting problem is built from
    them and asked for its box; "run": a complete calibration; "share" = what the following use has in common with
    this one: "calibration": the same Calibration, detector and pipeline objects, "parameters": another Calibration
    object (and a new detector and pipeline) built around the same ParameterValues objects."""
    if rng.random() < 0.55:
        return []
    uses = ["problem", "problem", "run"] if kind == "cal" else ["problem"]
    return [{"use": rng.choice(uses), "share": rng.choice(["calibration", "calibration", "parameters"])}
            for _ in range(rng.choice([1, 1, 2]))]


def newuoa_case(rng) -> dict:
    """The known finding: NLopt's plain NEWUOA ignores the box; the optimum is placed far beyond it."""
    params = [
        {"key": "pipeline.charge_collection.m.arguments.a", "slot": "a", "n": None, "log": False, "bounds": [0.0, 10.0]},
        {"key": "pipeline.charge_collection.m.arguments.v", "slot": "v", "n": 2, "log": True,
         "bounds": [[1e-2, 1e2], [1.0, 10.0]]},
    ]
    return {"kind": "cal", "group": "charge_collection", "model": "m", "n_v": 2, "n_w": 1, "params": params,
            "truth": [40.0, 3.0e3, 300.0],
            "algo": {"type": "nlopt", "generations": 1, "population_size": rng.randint(1, 3), "nlopt_solver": "newuoa",
                     "maxeval": 80, "xtol_rel": 1e-8},
            "pygmo_seed": rng.randint(0, 100000), "pipeline_seed": None, "islands": 1, "evolutions": 1, "best": None,
            "topology": "unconnected", "inherited": True, "resimulate": False, "input_c": None, "history": []}


def cobyla_case(rng) -> dict:
    """The second known finding: started on an optimum in a box corner, NLopt's cobyla (via pygmo) ends an
    evolution by evaluating an uninitialised vector (about one run in three of this shape)."""
    params = [
        {"key": DET_KEYS["cvc"], "slot": "cvc", "n": None, "log": False, "bounds": [10.827103781156392, 40.238274819157795]},
        {"key": "pipeline.charge_measurement.m.arguments.w", "slot": "w", "n": 4, "log": False,
         "bounds": [30.057953982090297, 38.68062078073517]},
        {"key": "pipeline.charge_measurement.m.arguments.a", "slot": "a", "n": None, "log": False,
         "bounds": [-16.47640847582924, 53.42136321280078]},
    ]
    return {"kind": "cal", "group": "charge_measurement", "model": "m", "n_v": 3, "n_w": 4, "params": params,
            "truth": [99.1, 55.9, 55.9, 55.9, 55.9, 193.2],
            "algo": {"type": "nlopt", "generations": 1, "population_size": 1, "nlopt_solver": "cobyla", "maxeval": 28,
                     "xtol_rel": 1e-8, "replacement": "random", "nlopt_selection": "random"},
            "pygmo_seed": rng.randint(0, 100000), "pipeline_seed": None, "islands": rng.randint(1, 3), "evolutions": 3,
            "best": None, "topology": "unconnected", "inherited": True, "resimulate": False, "input_c": None, "history": []}


# ------------------------------------------------------------------ building the real objects
def received_for(case: dict, per_param: list | None, c_value: float | None = None) -> dict:
    """Values the probe must receive: defaults, overridden by the calibrated parameters (and by the
    result_input_arguments value of the processor for argument c)."""
    vals = {s: [DEFAULTS[s]] for s in SCALARS}
    vals["v"] = list(DEFAULTS["v"][:case["n_v"]])
    vals["w"] = list(DEFAULTS["w"][:case["n_w"]])
    for s in DET_KEYS:
        vals[s] = [DEFAULTS[s]]
    if per_param is not None:
        for p, part in zip(case["params"], per_param):
            vals[p["slot"]] = list(part)
    if c_value is not None:
        vals["c"] = [c_value]
    return vals


def write_target(rec, case: dict, tag: str) -> list:
    truth_parts, pos = [], 0
    for p in case["params"]:
        n = p["n"] or 1
        truth_parts.append(case["truth"][pos:pos + n])
        pos += n
    paths = []
    for k, c_value in enumerate(case.get("input_c") or [None]):  # one target per processor
        paths.append(os.path.join(rec.tmp, f"target_{tag}_{k}.npy"))
        np.save(paths[-1], closed_form(received_for(case, truth_parts, c_value)))
    return paths


def make_parameter_values(case: dict, rec=None) -> list:
    import json
    import zlib

    from pyxel.observation import ParameterValues

    pv = []
    for p in case["params"]:
        b = p["bounds"]
        boundaries = [tuple(x) for x in b] if isinstance(b[0], (list, tuple)) else tuple(b)
        placeholders = ["_"] * p["n"] if p["n"] else "_"
        # the Python API takes any sequence of placeholders: a third of the vector parameters is declared
        # as a tuple (chosen by a digest of the declaration, so that a replay makes the same choice)
        if p["n"] and zlib.crc32(json.dumps(p, sort_keys=True, default=str).encode()) % 3 == 0:
            placeholders = tuple(placeholders)
            if rec is not None:
                rec.count("vector_parameters_declared_as_tuple")
        pv.append(ParameterValues(key=p["key"], values=placeholders,
                                  logarithmic=p["log"], boundaries=boundaries))
    return pv


def make_calibration(rec, case: dict, tag: str, pv: list):
    """A Calibration around the ParameterValues objects `pv` (fresh ones, or those of an earlier Calibration)."""
    from pyxel.calibration import Algorithm, Calibration
    from pyxel.observation import ParameterValues
    from pyxel.pipelines import FitnessFunction

    fit = ["sum_of_abs_residuals", "sum_of_squared_residuals"][case["pygmo_seed"] % 2]
    extra = {}
    if case.get("input_c"):
        extra["result_input_arguments"] = [ParameterValues(
            key=f"pipeline.{case['group']}.{case['model']}.arguments.c", values=list(case["input_c"]))]
    cal = Calibration(
        target_data_path=write_target(rec, case, tag),
        fitness_function=FitnessFunction(func=f"pyxel.calibration.fitness.{fit}"),
        algorithm=Algorithm(**case["algo"]), parameters=pv,
        result_type="pixel", result_fit_range=(0, ROWS, 0, COLS), target_fit_range=(0, ROWS, 0, COLS),
        pygmo_seed=case["pygmo_seed"], pipeline_seed=case["pipeline_seed"], num_islands=case["islands"],
        num_evolutions=case["evolutions"], num_best_decisions=case["best"], topology=case["topology"], **extra)
    return cal


def make_processor_parts(case: dict):
    args = {"a": DEFAULTS["a"], "b": DEFAULTS["b"], "c": DEFAULTS["c"],
            "v": list(DEFAULTS["v"][:case["n_v"]]), "w": list(DEFAULTS["w"][:case["n_w"]])}
    pipeline = build.make_pipeline({case["group"]: [{"name": case["model"], "func": "vf.checks.c10.probe",
                                                     "arguments": args}]})
    detector = build.make_detector(build.default_detector_spec("ccd", ROWS, COLS))
    return detector, pipeline


def make_objects(rec, case: dict, tag: str):
    cal = make_calibration(rec, case, tag, make_parameter_values(case, rec))
    detector, pipeline = make_processor_parts(case)
    return cal, detector, pipeline


def build_problem(cal, detector, pipeline, inherited: bool):
    """A fitting problem built the way Calibration.run_calibration builds it."""
    from pyxel.calibration import FitRange3D, to_fit_range
    from pyxel.calibration.fitting_datatree import ModelFittingDataTree
    from pyxel.pipelines import Processor

    return ModelFittingDataTree(
        processor=Processor(detector=detector, pipeline=pipeline), variables=cal.parameters, readout=cal.readout,
        simulation_output=cal.result_type, generations=cal.algorithm.generations,
        population_size=cal.algorithm.population_size, fitness_func=cal.fitness_function, file_path=None,
        target_filenames=cal.target_data_path, target_fit_range=to_fit_range(cal.target_fit_range),
        out_fit_range=FitRange3D.from_sequence(cal.result_fit_range),
        input_arguments=cal.result_input_arguments, weights=cal.weights, weights_from_file=cal.weights_from_file,
        pipeline_seed=cal.pipeline_seed, with_inherited_coords=inherited)


def check_box(rec, case: dict, problem, index, used_before: int) -> bool:
    """get_bounds() of a problem == the oracle's box of the declared boundaries."""
    params = case["params"]
    lower, upper = oracle_box(params)
    dim = len(lower)
    got_lower, got_upper = problem.get_bounds()
    got_lower, got_upper = _flat(got_lower), _flat(got_upper)
    rec.count("bounds_vectors_checked")
    hist = ":configuration-used-before" if used_before else ""
    if len(got_lower) != dim or len(got_upper) != dim:
        rec.violation("C10:bounds-vector-wrong:length" + hist,
                      f"get_bounds() has {len(got_lower)}/{len(got_upper)} components, the layout has {dim}", case, index)
        return False
    for comp in range(dim):
        if not (close_abs(got_lower[comp], lower[comp]) and close_abs(got_upper[comp], upper[comp])):
            j = param_of_component(params, comp)
            rec.violation("C10:bounds-vector-wrong:" + layout_class(params, j) + hist,
                          f"get_bounds() component {comp}: ({got_lower[comp]!r}, {got_upper[comp]!r}), declared "
                          f"({lower[comp]!r}, {upper[comp]!r}) for {params[j]['key']}; lower={got_lower} upper={got_upper}"
                          + (f"; the configuration objects were used {used_before} time(s) before" if used_before else ""),
                          case, index)
            return False
    return True


def count_layout(rec, case: dict) -> bool:
    params = case["params"]
    flags = set()
    for j, p in enumerate(params):
        after_vec = any(q["n"] for q in params[:j])
        if after_vec and not p["n"]:
            flags.add("vector_before_scalar")
        if after_vec and p["log"]:
            flags.add("log_after_vector")
        if p["n"] and isinstance(p["bounds"][0], (list, tuple)):
            flags.add("per_component_bounds")
        if p["n"] and not isinstance(p["bounds"][0], (list, tuple)):
            flags.add("shared_vector_bounds")
        if p["log"]:
            flags.add("logarithmic")
        if p["slot"] in DET_KEYS:
            flags.add("detector_field")
        if p["n"] == 1:
            flags.add("one_placeholder_vector")
    keys = [p["key"] for p in params]
    if keys != sorted(keys):
        flags.add("keys_not_sorted")
    for f in flags:
        rec.count(f"layouts_{f}")
    rec.observe("dimensions", oracle_dim(params))
    rec.observe("n_parameters", len(params))
    return len(params) >= 2 or any(p["n"] for p in params)


def signature(case: dict) -> list:
    return [case["kind"], [(p["key"], p["n"], p["log"], p["bounds"]) for p in case["params"]],
            case["algo"]["type"], case["algo"].get("nlopt_solver")]


# ------------------------------------------------------------------ monitors
def is_newuoa(case: dict) -> bool:
    return case["algo"]["type"] == "nlopt" and case["algo"].get("nlopt_solver") == "newuoa"


def mech(case: dict, what: str, cls: str | None = None) -> str:
    """Mechanism key.  Candidates outside the box (and the run failures they cause) that occur under an NLopt
    solver are keyed by the solver: on a correct mapping (checked for every algorithm by (c), (d), (e)) only the
    solver itself can produce them (newuoa ignores the box, cobyla evaluates an uninitialised vector)."""
    hist = ":configuration-used-before" if case.get("used_before") else ""  # input class: not the first use
    if case["algo"]["type"] == "nlopt" and ("outside" in what or what == "run-failed"):
        return f"C10:nlopt-{case['algo'].get('nlopt_solver')}:{what}{hist}"
    return f"C10:{what}" + (f":{cls}" if cls else "") + hist


def check_entry(rec, case: dict, entry: dict, per_param: list | None, what: str, index) -> bool:
    """One logged evaluation.  per_param None: only boundaries (a); else also equality with the expected mapping."""
    got = entry["got"]
    params = case["params"]
    calibrated = {p["slot"]: j for j, p in enumerate(params)}
    expected_plain = received_for(case, None)
    ok = True
    for slot in SLOTS:
        vals = got[slot]
        if slot not in calibrated:
            if slot == "c" and case.get("input_c"):
                allowed = [[t] for t in case["input_c"]]
            else:
                allowed = [expected_plain[slot]]
            if vals not in allowed:
                rec.violation(mech(case, "uncalibrated-setting-changed"),
                              f"{slot} is not calibrated but the model received {vals} instead of {allowed}",
                              case, index)
                ok = False
            continue
        j = calibrated[slot]
        p = params[j]
        bounds = comp_bounds(p)
        if len(vals) != len(bounds):
            rec.violation(mech(case, "wrong-number-of-components", layout_class(params, j)),
                          f"{p['key']} has {len(bounds)} placeholder(s) but the model received {vals}", case, index)
            ok = False
            continue
        if per_param is not None:  # direct fitness call: the applied values are known exactly
            want = per_param[j]
            if not all(close(x, y) for x, y in zip(vals, want)):
                rec.violation(mech(case, what, layout_class(params, j)),
                              f"{p['key']} received {vals} but the mapping of the decision vector gives {want}; "
                              f"all received: {got}", case, index)
                ok = False
                continue
        for i, (val, (lo, hi)) in enumerate(zip(vals, bounds)):
            rec.count("evaluations_bounds_checked")
            if not within(val, lo, hi):
                rec.violation(mech(case, "evaluation-outside-bounds", layout_class(params, j)),
                              f"{what}: {p['key']}[{i}] received {val!r}, declared boundaries ({lo!r}, {hi!r}); "
                              f"all received: {got}", case, index)
                ok = False
    return ok


def entry_values(case: dict, entry: dict) -> tuple:
    return tuple(tuple(entry["got"][p["slot"]]) for p in case["params"])


def reported_vectors(node, name: str, dim_expected: int):
    """Yield (label, decision vector, parameter vector) of a /champion or /best node, by dimension *names*."""
    dec, par = node["decision"], node["parameters"]
    lead = [d for d in dec.dims if d != "param_id"]
    dec_t, par_t = dec.transpose(*lead, "param_id"), par.transpose(*lead, "param_id")
    dv, pvals = np.asarray(dec_t.values, dtype=float), np.asarray(par_t.values, dtype=float)
    for idx in itertools.product(*[range(dec_t.sizes[d]) for d in lead]):
        yield dict(zip(lead, idx)), dv[idx].tolist(), pvals[idx].tolist()


def check_reported(rec, case: dict, tree, log: list, index) -> None:
    params = case["params"]
    dim = oracle_dim(params)
    lower, upper = oracle_box(params)
    exact = {entry_values(case, e) for e in log}
    near_pool = [entry_values(case, e) for e in log]
    nodes = [("champion", "champions_checked")]
    if case["best"]:
        nodes.append(("best", "best_checked"))
    for name, counter in nodes:
        try:
            node = tree[f"/{name}"]
            node["decision"], node["parameters"]
        except KeyError:
            rec.violation(mech(case, f"{name}-node-missing"), f"/{name}/decision or /{name}/parameters missing", case, index)
            continue
        if node["decision"].sizes.get("param_id") != dim or node["parameters"].sizes.get("param_id") != dim:
            rec.violation(mech(case, f"{name}-vector-length"),
                          f"/{name}: param_id sizes {dict(node['decision'].sizes)} / {dict(node['parameters'].sizes)}, "
                          f"the layout has {dim} components", case, index)
            continue
        if name == "champion":
            sizes = node["decision"].sizes
            if sizes.get("island") != case["islands"] or sizes.get("evolution") != case["evolutions"]:
                rec.violation(mech(case, "champion-node-shape"), f"/champion/decision sizes {dict(sizes)} for "
                              f"{case['islands']} islands x {case['evolutions']} evolutions", case, index)
        for label, dvec, pvec in reported_vectors(node, name, dim):
            rec.count(counter)
            # (b) decision inside the decision box
            outside_box = False
            for comp, (x, lo, hi) in enumerate(zip(dvec, lower, upper)):
                slack = RTOL * max(1.0, abs(lo), abs(hi))
                if not (lo - slack <= x <= hi + slack):
                    j = param_of_component(params, comp)
                    outside_box = True
                    rec.violation(mech(case, f"{name}-decision-outside-box", layout_class(params, j)),
                                  f"/{name}/decision {label} component {comp} = {x!r} outside [{lo!r}, {hi!r}]; "
                                  f"decision={dvec}", case, index)
                    break
            if outside_box and case["algo"]["type"] == "nlopt":
                # a vector the NLopt solver itself produced outside the box (newuoa) or left uninitialised (cobyla,
                # may hold NaN): it is reported above under the solver's key; the mapping / applied-values
                # refutations are meaningless for it (NaN != NaN) and would only restate the same finding.
                rec.count("nlopt_outside_box_vector_not_judged_further")
                continue
            # reported parameters inside the declared boundaries
            pos = 0
            for j, p in enumerate(params):
                for i, (lo, hi) in enumerate(comp_bounds(p)):
                    if not within(pvec[pos], lo, hi):
                        rec.violation(mech(case, f"{name}-parameters-outside-bounds", layout_class(params, j)),
                                      f"/{name}/parameters {label}: {p['key']}[{i}] = {pvec[pos]!r}, declared "
                                      f"boundaries ({lo!r}, {hi!r}); parameters={pvec}", case, index)
                    pos += 1
            # (c) reported parameters are the mapping of the reported decision
            want = oracle_flat(params, dvec)
            bad = [c for c in range(dim) if not close(pvec[c], want[c])]
            if bad:
                j = param_of_component(params, bad[0])
                rec.violation(mech(case, "reported-parameters-not-mapping-of-decision", f"{name}:" + layout_class(params, j)),
                              f"/{name} {label}: decision {dvec} maps to {want} but parameters are {pvec} "
                              f"(first differing component {bad[0]})", case, index)
            # (d) the reported parameters were applied to the pipeline in some evaluation
            pos, parts = 0, []
            for p in params:
                n = p["n"] or 1
                parts.append(tuple(pvec[pos:pos + n]))
                pos += n
            parts = tuple(parts)
            if parts in exact:
                rec.count("reported_found_in_log")
                rec.count("reported_found_bit_identical")
            elif any(len(ev) == len(parts) and all(len(a) == len(b) and all(close(x, y) for x, y in zip(a, b))
                                                   for a, b in zip(ev, parts)) for ev in near_pool):
                rec.count("reported_found_in_log")
                rec.count("reported_found_within_1e-12_only")
            else:
                worst = 0
                for j, part in enumerate(parts):  # which parameter was never applied with that value?
                    if not any(len(ev[j]) == len(part) and all(close(x, y) for x, y in zip(ev[j], part)) for ev in near_pool):
                        worst = j
                        break
                rec.violation(mech(case, "reported-parameters-never-applied", f"{name}:" + layout_class(params, worst)),
                              f"/{name}/parameters {label} = {pvec} (decision {dvec}) but none of the {len(log)} logged "
                              f"evaluations received these values; e.g. {params[worst]['key']} never received {parts[worst]}",
                              case, index)


def check_resimulation(rec, case: dict, tree, index) -> None:
    """(f) computing /simulated/pixel re-runs the pipeline with the last champions: the same values must be applied."""
    params = case["params"]
    log_reset()
    try:
        sim = tree["/simulated/pixel"].compute()
    except Exception as exc:  # noqa: BLE001
        import traceback
        rec.violation(mech(case, "resimulation-failed", "single-scalar" if oracle_dim(params) == 1 else None),
                      f"{type(exc).__name__}: {exc} :: {traceback.format_exc()[-600:]}", case, index)
        return
    log = log_snapshot()
    champ = tree["/champion"]["parameters"].isel(evolution=-1).transpose("island", "param_id").values
    applied = [entry_values(case, e) for e in log]
    for e in log:
        check_entry(rec, case, e, None, "re-simulation", index)
    for isl in range(champ.shape[0]):
        pvec = [float(t) for t in champ[isl]]
        pos, parts = 0, []
        for p in params:
            n = p["n"] or 1
            parts.append(tuple(pvec[pos:pos + n]))
            pos += n
        rec.count("resimulations_checked")
        if not any(len(ev) == len(parts) and all(len(a) == len(b) and all(close(x, y) for x, y in zip(a, b))
                                                 for a, b in zip(ev, parts)) for ev in applied):
            rec.violation(mech(case, "resimulation-applies-other-values"),
                          f"island {isl}: champion parameters {pvec} but the re-simulation applied {applied}", case, index)
            continue
        for k, c_value in enumerate(case.get("input_c") or [None]):
            want = closed_form(received_for(case, [list(t) for t in parts], c_value))
            got = np.asarray(sim.isel(island=isl, processor=k).values, dtype=float).reshape(ROWS, COLS)
            if not np.allclose(got, want, rtol=1e-9, atol=1e-9):
                rec.violation(mech(case, "resimulation-data-of-other-parameters"),
                              f"island {isl} processor {k}: /simulated/pixel is not the closed form of the champion "
                              f"parameters {pvec}", case, index)


# ------------------------------------------------------------------ cases
def uses_of(case: dict, final: str) -> list:
    """The uses of the configuration objects of one case, the judged one last: [(use, share with the previous)]."""
    history = case.get("history") or []
    return [(h["use"], history[k - 1]["share"] if k else None) for k, h in enumerate(history)] + \
           [(final, history[-1]["share"] if history else None)]


def count_history(rec, case: dict, step: int, use: str) -> None:
    if not step:
        return
    rec.count("reused_configuration_runs" if use == "run" else "reused_configuration_problems")
    rec.observe("histories", "+".join(f"{h['use']}/{h['share']}" for h in case["history"][:step]) + "+" + use)
    if any(p["n"] and p["log"] and isinstance(p["bounds"][0], (list, tuple)) for p in case["params"]):
        rec.count("reused_log_per_component_layouts")
    if any(p["log"] for p in case["params"]):
        rec.count("reused_logarithmic_layouts")


def run_calibration_case(rec, index, case: dict) -> None:
    nontrivial = count_layout(rec, case)
    try:
        pv = make_parameter_values(case, rec)
        cal = make_calibration(rec, case, f"cal{index}", pv)
        detector, pipeline = make_processor_parts(case)
    except Exception as exc:  # noqa: BLE001
        import traceback
        rec.violation(mech(case, "run-failed", case["algo"]["type"]),
                      f"building the configuration: {type(exc).__name__}: {exc} :: {traceback.format_exc()[-900:]}",
                      case, index)
        rec.case(signature(case), nontrivial)
        return
    completed = True
    for step, (use, share) in enumerate(uses_of(case, "run")):
        jcase = dict(case, used_before=step) if step else case
        try:
            if share == "parameters":  # "several calibrations launched from one loaded configuration"
                cal = make_calibration(rec, case, f"cal{index}_{step}", pv)
                detector, pipeline = make_processor_parts(case)
            if use == "problem":
                problem = build_problem(cal, detector, pipeline, case["inherited"])
                check_box(rec, jcase, problem, index, step)
                count_history(rec, case, step, use)
                continue
        except Exception as exc:  # noqa: BLE001
            import traceback
            rec.violation("C10:direct:problem-construction-failed" + (":configuration-used-before" if step else ""),
                          f"use {step}: {type(exc).__name__}: {exc} :: {traceback.format_exc()[-900:]}", jcase, index)
            completed = False
            break
        if not one_calibration_run(rec, index, jcase, cal, detector, pipeline):
            completed = False
            break
        count_history(rec, case, step, use)
    if completed:
        rec.case(signature(case), nontrivial,
                 sample={k: case[k] for k in ("params", "algo", "islands", "evolutions", "best", "history")})
    else:
        rec.case(signature(case), nontrivial)


def one_calibration_run(rec, index, case: dict, cal, detector, pipeline) -> bool:
    """One complete calibration by pyxel.run_mode, judged by (a)-(d), (f).  False: the run did not complete."""
    import pyxel

    algo = case["algo"]
    label = algo["type"] + (":" + algo["nlopt_solver"] if algo["type"] == "nlopt" else "")
    try:
        log_reset()
        tree = pyxel.run_mode(mode=cal, detector=detector, pipeline=pipeline, with_inherited_coords=case["inherited"])
    except Exception as exc:  # noqa: BLE001
        import traceback
        log = log_snapshot()
        clean = all(check_entry(rec, case, e, None, "candidate of a failed run", index) for e in log)
        if algo["type"] == "nlopt" and not is_newuoa(case) and clean and log:
            # NLopt solvers may end an evolution on a point that pygmo refuses as the next initial guess
            # (bobyqa overshoots a boundary by one ulp): a refusal of the library, nothing was applied outside the box
            rec.count("refused_nlopt_runs")
            rec.observe("refused", f"{label}: {type(exc).__name__} after {len(log)} in-box evaluations")
        else:
            rec.violation(mech(case, "run-failed", algo["type"]),
                          f"{type(exc).__name__}: {exc} :: {traceback.format_exc()[-900:]}", case, index)
        rec.count("logged_evaluations", len(log))
        return False
    log = log_snapshot()
    rec.count("calibrations")
    rec.count(f"algo_{algo['type']}")
    rec.observe("algorithms", label)
    rec.observe("topologies", case["topology"])
    rec.count("logged_evaluations", len(log))
    rec.observe("threads_per_calibration", len({e["thread"] for e in log}))
    if case["islands"] > 1:
        rec.count("multi_island_runs")
    if case["evolutions"] > 1:
        rec.count("multi_evolution_runs")
    if case.get("input_c"):
        rec.count("two_processor_runs")
    if not log:
        rec.violation(mech(case, "no-evaluation-logged"), "the calibration returned without evaluating the probe", case, index)
    # (a)
    for e in log:
        if not check_entry(rec, case, e, None, "candidate", index):
            break
    # (b) (c) (d)
    check_reported(rec, case, tree, log, index)
    if case["resimulate"]:
        check_resimulation(rec, case, tree, index)
    return True


def run_direct_case(rec, index, case: dict, tier: str, rng) -> None:
    """(e) problem.fitness(x) for chosen x, on a problem built the way Calibration.run_calibration builds it."""
    params = case["params"]
    nontrivial = count_layout(rec, case)
    lower, upper = oracle_box(params)
    dim = len(lower)
    bounds_ok = True
    step = 0
    try:
        # every problem built from the configuration objects (fresh, then used before) must have the declared box;
        # the decision vectors below are evaluated on the last one
        pv = make_parameter_values(case, rec)
        cal = make_calibration(rec, case, f"dir{index}", pv)
        detector, pipeline = make_processor_parts(case)
        for step, (use, share) in enumerate(uses_of(case, "problem")):
            if share == "parameters":
                cal = make_calibration(rec, case, f"dir{index}_{step}", pv)
                detector, pipeline = make_processor_parts(case)
            problem = build_problem(cal, detector, pipeline, case["inherited"])
            bounds_ok = check_box(rec, dict(case, used_before=step) if step else case, problem, index, step) and bounds_ok
            count_history(rec, case, step, use)
    except Exception as exc:  # noqa: BLE001
        import traceback
        rec.violation("C10:direct:problem-construction-failed" + (":configuration-used-before" if step else ""),
                      f"use {step}: {type(exc).__name__}: {exc} :: {traceback.format_exc()[-900:]}", case, index)
        rec.case(signature(case), nontrivial)
        return
    rec.count("direct_problems")
    if step:
        case = dict(case, used_before=step)
    # decision vectors: every corner (dimension <= 4) or a sample of corners, plus interior points
    if dim <= 4:
        corners = [list(c) for c in itertools.product(*zip(lower, upper))]
    else:
        corners = [[rng.choice(pair) for pair in zip(lower, upper)] for _ in range(16)]
        corners += [list(lower), list(upper)]
    n_int = 10 if tier == "quick" else 30
    interior = [[lo + rng.random() * (hi - lo) for lo, hi in zip(lower, upper)] for _ in range(n_int)]
    target = problem
    wrapped = index % 2 == 1 and bounds_ok
    if wrapped:
        try:
            import pygmo as pg
            target = pg.problem(problem)  # the object the optimiser really calls (holds a deep copy)
            rec.count("direct_pygmo_wrapped")
        except Exception as exc:  # noqa: BLE001
            rec.violation("C10:direct:pygmo-problem-refused", f"{type(exc).__name__}: {exc}", case, index)
            target = problem
    for kind_x, xs in (("corner", corners), ("interior", interior)):
        for x in xs:
            want = oracle_split(params, x)
            arg = np.array(x, dtype=float) if (len(x) + index) % 3 else list(x)
            if wrapped:
                arg = np.array(x, dtype=float)
            log_reset()
            try:
                target.fitness(arg)
            except Exception as exc:  # noqa: BLE001
                import traceback
                rec.violation(f"C10:fitness-applies-wrong-values:raised:{kind_x}",
                              f"fitness({x}) raised {type(exc).__name__}: {exc} :: {traceback.format_exc()[-500:]}",
                              case, index)
                rec.case(signature(case), nontrivial)
                return
            log = log_snapshot()
            rec.count("direct_fitness_calls")
            rec.count(f"direct_{kind_x}_calls")
            rec.count("logged_evaluations", len(log))
            if not log:
                rec.violation("C10:fitness-applies-wrong-values:no-evaluation", f"fitness({x}) did not run the model", case, index)
                rec.case(signature(case), nontrivial)
                return
            for e in log:
                if not check_entry(rec, case, e, want, "fitness-applies-wrong-values", index):
                    rec.case(signature(case), nontrivial)
                    return
            if case.get("input_c"):
                rec.count("direct_two_processor_calls")
                if sorted(e["got"]["c"] for e in log) != sorted([t] for t in case["input_c"]):
                    rec.violation("C10:fitness-applies-wrong-values:not-every-processor",
                                  f"fitness({x}) ran the processors with c={[e['got']['c'] for e in log]}, "
                                  f"result_input_arguments are {case['input_c']}", case, index)
                    rec.case(signature(case), nontrivial)
                    return
    rec.case(signature(case), nontrivial, sample={"kind": "direct", "params": case["params"]})


def record_skipped(rec) -> None:
    for solver in NLOPT_GRADIENT:
        rec.observe("skipped", f"nlopt:{solver}: needs a gradient, the fitting problem provides none (pygmo refuses)")
    rec.observe("skipped", "nlopt:auglag / auglag_eq: need a local_optimizer object, not a toy configuration")
    rec.observe("skipped", "ParameterValues(enabled=False): the flag is ignored by the calibration mode")
    rec.observe("skipped", "nlopt maxeval < 2*dim+3: NLopt's newuoa_bound cannot build its model and evaluates NaN candidates")


FORCES = (None, "vector_first", "log_after_vector", None)


def plan(tier, seed):
    n_cal, n_dir = (6, 10) if tier == "quick" else (60, 60)
    specs = [{"shard": s, "seed": seed, "kind": "mixed", "n": n_cal + n_dir, "n_cal": n_cal, "tier": tier}
             for s in range(16)]
    # the two known findings (nlopt newuoa / cobyla): witness-shaped cases, alternating
    specs.append({"shard": 100, "seed": seed, "kind": "known", "n": 4 if tier == "quick" else 12, "tier": tier})
    return specs


def run_shard(spec, rec):
    tier = spec.get("tier", "quick")
    record_skipped(rec)
    for i in range(spec["n"]):
        if not rec.wanted(i):
            continue
        rng = rec.rng(i)
        if spec["kind"] == "known":
            run_calibration_case(rec, i, newuoa_case(rng) if i % 2 == 0 else cobyla_case(rng))
            continue
        force = FORCES[(i + spec["shard"]) % len(FORCES)]
        if i < spec["n_cal"]:
            run_calibration_case(rec, i, gen_case(rng, "cal", tier, force))
        else:
            run_direct_case(rec, i, gen_case(rng, "direct", tier, force), tier, rng)


def coverage_extra(counters, sets, tier):
    return {"exhaustive": False,
            "logged_evaluations": counters.get("logged_evaluations", 0),
            "reported_vectors_checked": counters.get("champions_checked", 0) + counters.get("best_checked", 0)}

"""C11 -- calibration fitness is the declared figure of merit on the declared data.

Monitor: the probe model `probe` (M1) writes a CLOSED-FORM function of its calibrated
parameters (p, q[0], q[1]), of the per-target input argument k and of the readout time into
the pixel / signal / image buckets (three different forms), and logs every call.  Hence the
simulated data of any candidate are known to the harness without pyxel.  In a third of the cases the
probe is stochastic (it adds noise drawn from the generator that the declared pipeline seed controls);
the noise term is then observed once by re-simulating the pipeline in exposure mode with the declared
seed: a fitness, champion or simulated node computed on another realisation is not reproducible.

Oracle (M8, NumPy only): fitness(x) = sum over targets of f(sim_p[result range],
target_p[target range], w_p) for the three built-in figures of merit.

Observed and compared:
 (a) `ModelFittingDataTree.fitness(x)` of a problem built exactly as
     `Calibration.run_calibration` builds it, for generated decision vectors;
 (b) `/champion/fitness` (and `/best/fitness`) of finished calibrations vs the oracle at the
     reported parameters, every island and every evolution;
 (c) `/simulated/<bucket>`, `/full_size/simulated_<bucket>` vs the closed form at the last
     champions, `/simulated/target`, `/full_size/target` vs the target files;
 (d) champion fitness never increases from one evolution to the next on any island (sade, sga and
     nlopt with every selection x replacement pair, also the non-elitist ones);
 (e) fit-range pairs selecting regions of different extent, or exceeding the target (also when the
     result range exceeds the detector alike, so that both regions are clipped to one extent), are
     rejected before any probe call; equal-extent pairs (also shifted) are accepted.

Input classes beyond the set-up itself: the storage type of the target / weight files (float64, float32, integer
frames) and the way the set-up was declared (at construction, or re-declared through the public properties of the
Calibration object before the run; the oracle always uses the values last declared when the run starts), and the
history of the session: in 30 % of the valid set-ups the same file names were used before (a previous set-up was
configured and evaluated / run on them, with brand-new objects or with the same Calibration object), then the target
and / or weight files were written again under the same names with other content.  The declared data are the content
of the declared files when the run starts.
"""
from __future__ import annotations

import os
import threading

import numpy as np

from vf import build

ID = "C11"
LEVEL = "exploration"
REGISTER = True
TECHNIQUE = ("runtime monitoring: closed-form probe model + probe call log; reported fitness, champion, simulated and "
             "target nodes of real calibrations compared with an independent NumPy recomputation")
RULE = ("random calibration set-ups: 1-3 target files (npy/fits/txt, datacubes npy) each with its own input argument, "
        "fit-range pairs of the classes equal / shifted / unequal extent / target out of bounds / target and result out "
        "of bounds alike / result beyond the detector / absent (+ time-axis classes for datacubes), no weights / weight vector / weight files, single- and "
        "multi-readout targets, pixel/signal/image result, the three built-in fitness functions, 1-3 calibrated "
        "components (scalar, vector, logarithmic); 'direct' cases evaluate problem.fitness on generated decision "
        "vectors, 'calibration' cases run pyxel.run_mode (sade / sga / nlopt with five derivative-free solvers and all "
        "selection x replacement pairs, 1-2 islands, 2-6 evolutions); deterministic or seeded stochastic pipeline, "
        "with or without a declared pipeline seed; target files stored as float64 / float32 / integer frames (uint8 ... "
        "int64), weight maps alike, weight vectors of floats or integers; the set-up declared at once when the "
        "Calibration object is created, or created with other values and (45 %) partly re-declared through the public "
        "properties before the run (fit ranges, weights, weight / target files, input arguments, fitness function, result "
        "type, pipeline seed, number of evolutions); 30 % of the valid set-ups come with a session history: the same "
        "target and/or weight file names were used by a previous set-up of the same process (problem built and evaluated, "
        "or a complete run_mode; new objects or the same Calibration object used again) and the files were then "
        "re-written under the same names with other content; every case but the "
        "'absent' class is non-trivial; distinct = distinct case specifications")
ASSUMPTIONS = [
    "the probe stands for an arbitrary deterministic pipeline: fitness bookkeeping does not depend on what the model does",
    "the problem object of the direct cases is constructed by the harness with the same arguments as Calibration.run_calibration",
    "absent fit ranges (None) are outside the statement: their outcome is counted, never judged",
    "/full_size/target is only judged when the target files have the detector's shape",
    "fitness sums are compared with a relative tolerance of 1e-12; node contents with 1e-12 (targets: exactly)",
    "re-simulating = running the same pipeline with the declared pipeline_seed (exposure mode); a stochastic pipeline "
    "is only generated together with a declared seed (without one nothing is reproducible and nothing could be judged)",
    "'declared' = the value last given for an option when the run starts: a value assigned through the public property "
    "of the Calibration object after its creation replaces the one given at construction",
    "the declared data are the content of the declared target / weight files when the run starts: a file written again "
    "under the same name between two runs of one session counts with its new content",
    "a calibration that pygmo itself aborts under an NLopt solver (next start point one ulp outside the box) is counted, "
    "not judged",
]
REQUIRED_COUNTERS = [
    "direct_cases", "direct_evals_compared", "calibrations_finished", "champion_fitness_compared",
    "monotone_pairs_checked", "simulated_cells_compared", "full_size_cells_compared", "target_cells_compared",
    "invalid_ranges_rejected_before_evaluation", "valid_shifted_ranges_accepted", "probe_calls",
    "fn_sum_of_abs_residuals", "fn_sum_of_squared_residuals", "fn_reduced_chi_squared",
    "weights_vector_compared", "weights_files_compared", "multi_readout_compared", "single_readout_compared",
    "targets_2_or_more_compared", "single_parameter_calibrations", "result_type_image_compared",
    "result_type_signal_compared", "result_type_pixel_compared",
    "stochastic_pipeline_2_or_more_targets_compared", "noise_references_resimulated",
    "algo_sade_finished", "algo_sga_finished", "algo_nlopt_finished", "monotone_pairs_checked_nlopt",
    "integer_targets_fractional_weights_compared", "redeclared_target_fit_range_champion_compared",
    "redeclared_result_fit_range_champion_compared",
    "history_rewritten_target_files_direct_compared", "history_rewritten_target_files_champion_compared",
    "history_rewritten_weight_files_compared", "history_previous_runs_compared", "history_same_object_compared",
]
TIMEOUT = {"quick": 900, "thorough": 5400}
LEVEL_TEXT = ("Exploration by runtime monitoring: generated calibration set-ups are evaluated by the real fitting problem "
              "(direct fitness calls) and by complete pyxel.run_mode calibrations; a closed-form probe model makes the "
              "simulated data of every candidate known to the harness, which recomputes each reported fitness, champion, "
              "simulated/target node with NumPy and watches the probe log for evaluations of set-ups that had to be refused. "
              "Held = on the executions observed.")
LEVEL_NOTE = ("Trusted: the probe model and its closed form (vf.checks.c11), NumPy/astropy writers of the generated target and "
              "weight files, xarray indexing of the returned tree.")

# Mechanisms of genuine defects of the tree under observation that are reproduced but not yet
# repaired / listed in KNOWN_FINDINGS.json would go here (counted as "open_finding_hits" instead of
# raised).  The eight mechanisms found while this check was written (result range beyond the
# detector, unequal time extents, refused 3-D target ranges, weights ignored / crashing with a
# time-domain readout or a partial range, the crash with a 4-element result range and the
# misaligned /simulated/target) were repaired in /repo (commits 0c560f0, 025d49a, a0bed68, 9e7f16b,
# 9db659f) and are hard checks now.
OPEN_FINDINGS: dict[str, str] = {}

FUNCS = ("sum_of_abs_residuals", "sum_of_squared_residuals", "reduced_chi_squared")
BUCKETS = ("pixel", "signal", "image")
VALID_CLASSES = ("equal", "shifted")
INVALID_CLASSES = ("unequal", "oob_target", "oob_both", "oob_result", "time_unequal", "time_oob")
# NLopt solvers that need no gradient and keep to the box (the others are refused by pygmo for this problem or
# leave the box: property C10)
NLOPT_SOLVERS = ("neldermead", "sbplx", "bobyqa", "newuoa_bound", "praxis")
# integer storage types of frames (all of them can be written as npy, FITS and text)
INT_DTYPES = ("uint8", "uint16", "uint16", "int16", "int32", "uint32", "int64")

LOG: list = []
_LOCK = threading.Lock()


# =============================================================================== probe (M1)
def closed_form(shape, p, q, k, t, extra=None) -> dict:
    """The three buckets as closed-form functions of (p, q0, q1), input argument k and time t.

    `extra` (array of `shape` or None) is the additive noise term of a stochastic probe."""
    yy, xx = np.indices(shape).astype(float)
    v = (float(p) * (1.0 + 0.5 * yy + 0.25 * xx)
         + float(q[0]) * (0.125 * (yy * xx + 1.0))
         + float(q[1]) * (0.5 * (1.0 + (3.0 * yy + 5.0 * xx) % 7.0))
         + float(k) * (1.0 + (2.0 * yy + xx) % 5.0)
         + float(t) * (0.25 * (xx + 1.0) + 0.125 * yy))
    if extra is not None:
        v = v + np.asarray(extra, dtype=float)
    return {"pixel": v, "signal": 0.5 * v - 2.0,
            "image": np.floor(np.minimum(np.abs(v) * 3.0, 4.0e9)).astype(np.uint32)}


def probe(detector, p=1.0, q=(1.0, 1.0), k=0.0, noise=0.0):
    """Probe model: log the call, write the closed form into pixel, signal and image.

    With noise > 0 the probe is a stochastic model of the usual pyxel kind: it draws from NumPy's global
    generator (the one the declared pipeline seed controls) and adds noise * N(0, 1) to every cell."""
    qq = [float(x) for x in q]
    t = float(detector.time)
    shape = detector.geometry.shape
    extra = None
    if noise:
        extra = float(noise) * np.random.standard_normal(shape)
    with _LOCK:
        LOG.append((float(p), qq[0], qq[1], float(k), t, extra))
    out = closed_form(shape, p, qq, k, t, extra)
    detector.pixel.array = out["pixel"]
    detector.signal.array = out["signal"]
    detector.image.array = out["image"]


def log_reset() -> None:
    with _LOCK:
        LOG.clear()


def log_len() -> int:
    with _LOCK:
        return len(LOG)


def log_snapshot() -> list:
    with _LOCK:
        return list(LOG)


# =============================================================================== oracle (M8, no pyxel)
def oracle_split(layout: list, vec, from_decision: bool) -> tuple:
    """(p, [q0, q1]) from a decision vector (10** on logarithmic slices) or a parameter vector."""
    vals = {"p": None, "q": None}
    a = 0
    for par in layout:
        n = 2 if par["name"] == "q" else 1
        part = [float(x) for x in vec[a:a + n]]
        if from_decision and par["log"]:
            part = [float(np.power(10.0, x)) for x in part]
        vals[par["name"]] = part
        a += n
    return vals["p"], vals["q"]


def oracle_sim(case: dict, p, q, k, noise=None) -> dict:
    """bucket -> array (time, y, x) of one processor; `noise` = per readout time the additive term that a
    re-simulation with the declared pipeline seed draws (None: deterministic probe)."""
    per_t = [closed_form((case["rows"], case["cols"]), p, q, k, t, None if noise is None else noise[j])
             for j, t in enumerate(case["times"])]
    return {b: np.array([c[b] for c in per_t]) for b in BUCKETS}


def region(arr: np.ndarray, rng6) -> np.ndarray:
    """arr[(t), y, x] restricted to (t0, t1, y0, y1, x0, x1); t0/t1 None = all times."""
    t0, t1, y0, y1, x0, x1 = rng6
    if arr.ndim == 2:
        return arr[y0:y1, x0:x1]
    return arr[slice(t0, t1), y0:y1, x0:x1]


def six(rng) -> tuple:
    return tuple(rng) if len(rng) == 6 else (None, None, *rng)


def oracle_one(fn: str, free: int, sim: np.ndarray, tgt: np.ndarray, w) -> float:
    diff = np.asarray(tgt, dtype=float) - np.asarray(sim, dtype=float)
    if fn == "sum_of_abs_residuals":
        return float(np.nansum(np.abs(diff * w)))
    if fn == "sum_of_squared_residuals":
        return float(np.nansum(diff * diff * w))
    dev2 = np.square(diff / w)
    return float(np.nansum(dev2)) / float(np.isfinite(diff).sum() - free)


def oracle_fitness(case: dict, data: dict, p, q, weighted: bool = True) -> float:
    total = 0.0
    rt = case["result_type"]
    for i in range(case["ntar"]):
        pp = case["p0"] if p is None else p[0]
        qq = case["q0"] if q is None else q
        sim = region(oracle_sim(case, pp, qq, case["ks"][i], data.get("noise"))[rt], six(case["rfr"]))
        tgt = region(data["targets"][i], six(case["tfr"]))
        w = 1.0
        if weighted and case["wk"] == "vector":
            w = float(case["wvec"][i])
        elif weighted and case["wk"] == "files":
            w = region(data["weights"][i], six(case["tfr"]))
        total += oracle_one(case["fn"], case["free"], sim, tgt, w)
    return total


def close(a: float, b: float, rel: float = 1e-12) -> bool:
    a, b = float(a), float(b)
    if not (np.isfinite(a) and np.isfinite(b)):
        return (np.isnan(a) and np.isnan(b)) or a == b
    return abs(a - b) <= rel * max(abs(a), abs(b)) + 1e-300


# =============================================================================== generators
def _span(rng, size: int, extent: int) -> tuple:
    start = rng.randint(0, size - extent)
    return start, start + extent


def gen_ranges(rng, cls: str, case: dict) -> None:
    """Fill case['rfr'], case['tfr'] (lists) for the requested class; case['cls'] may be downgraded."""
    R, C, TR, TC = case["rows"], case["cols"], case["trows"], case["tcols"]
    h, w = rng.randint(1, R), rng.randint(1, C)
    if cls == "shifted" and h == R == TR and w == C == TC:
        if rng.random() < 0.5:
            h = rng.randint(1, R - 1)
        else:
            w = rng.randint(1, C - 1)
    r = [*_span(rng, R, h), *_span(rng, C, w)]
    t = list(r)
    if cls == "shifted":
        for _ in range(50):
            t = [*_span(rng, TR, h), *_span(rng, TC, w)]
            if t != r:
                break
    elif cls == "unequal":
        variant = rng.choice(["same_end", "same_start", "one_vs_many", "many_vs_one"])
        axis = rng.choice([0, 1])
        size, tsize = (R, TR) if axis == 0 else (C, TC)
        lo, hi = 2 * axis, 2 * axis + 1
        if variant in ("one_vs_many", "many_vs_one"):
            ext = rng.randint(2, size)
            a = rng.randint(0, size - ext)
            many, one = [a, a + ext], [a + ext - 1, a + ext] if rng.random() < 0.5 else [a, a + 1]
            (r[lo], r[hi]), (t[lo], t[hi]) = (one, many) if variant == "one_vs_many" else (many, one)
        else:
            ext = rng.randint(2, size)
            a = rng.randint(0, size - ext)
            r[lo], r[hi] = a, a + ext
            d = rng.randint(1, ext - 1)
            if variant == "same_end":
                t[lo], t[hi] = a + d, a + ext
            else:
                t[lo], t[hi] = a, a + ext - d
    elif cls == "oob_target":
        axis = rng.choice([0, 1])
        size, tsize = (R, TR) if axis == 0 else (C, TC)
        lo, hi = 2 * axis, 2 * axis + 1
        d = 1 if rng.random() < 0.7 else 2
        ext = rng.randint(d, size)                       # equal declared extents, only the bound is exceeded
        r[lo], r[hi] = _span(rng, size, ext)
        t[lo], t[hi] = tsize + d - ext, tsize + d
        if rng.random() < 0.5:                           # the other axis may be shifted as well
            olo, ohi = 2 * (1 - axis), 2 * (1 - axis) + 1
            osize = TC if axis == 0 else TR
            t[olo], t[ohi] = _span(rng, osize, r[ohi] - r[olo])
    elif cls == "oob_both":
        # the target range exceeds the target AND the result range exceeds the detector by the same amount:
        # equal declared extents, and slicing clips both regions to the same (smaller) extent
        axis = rng.choice([0, 1])
        size, tsize = (R, TR) if axis == 0 else (C, TC)
        lo, hi = 2 * axis, 2 * axis + 1
        d = rng.randint(1, 3)
        ext = rng.randint(d + 1, d + min(size, tsize))   # at least one row/column is really selected on both sides
        r[lo], r[hi] = size + d - ext, size + d
        t[lo], t[hi] = tsize + d - ext, tsize + d
        if rng.random() < 0.3:                           # the other axis exceeds as well
            olo, ohi = 2 * (1 - axis), 2 * (1 - axis) + 1
            osize, otsize = (C, TC) if axis == 0 else (R, TR)
            d2 = rng.randint(1, 2)
            ext2 = rng.randint(d2 + 1, d2 + min(osize, otsize))
            r[olo], r[ohi] = osize + d2 - ext2, osize + d2
            t[olo], t[ohi] = otsize + d2 - ext2, otsize + d2
        elif rng.random() < 0.5:                         # ... or is shifted
            olo, ohi = 2 * (1 - axis), 2 * (1 - axis) + 1
            otsize = TC if axis == 0 else TR
            t[olo], t[ohi] = _span(rng, otsize, r[ohi] - r[olo])
    elif cls == "oob_result":
        axis = rng.choice([0, 1])
        size, tsize = (R, TR) if axis == 0 else (C, TC)
        lo, hi = 2 * axis, 2 * axis + 1
        d = 1 if rng.random() < 0.6 else 2
        ext = rng.randint(d + 1, size) if size >= d + 1 else size
        r[lo], r[hi] = size + d - ext, size + d          # declared extent ext, selects ext - d (>= 1) rows
        t[lo], t[hi] = _span(rng, tsize, ext)
    case["rfr"], case["tfr"] = r, t
    if not case["multi"]:
        return
    # ---- time axis of datacube targets
    T, TT = len(case["times"]), case["ttimes"]
    tlen = case["tr_len"]
    if cls == "time_unequal":
        if tlen == 4:
            ext = rng.randint(1, T - 1)
            case["rfr"] = [*_span(rng, T, ext), *r]
            case["rr_len"] = 6
        else:
            e1 = rng.randint(1, T)
            e2 = rng.choice([e for e in range(1, TT + 1) if e != e1])
            case["rfr"] = [*_span(rng, T, e1), *r]
            case["tfr"] = [*_span(rng, TT, e2), *t]
            case["rr_len"] = 6
        return
    if cls == "time_oob":
        d = 1
        if tlen == 6 and rng.random() < 0.6:             # target range beyond the cube
            ext = rng.randint(d, T)
            case["rfr"] = [*_span(rng, T, ext), *r]
            case["tfr"] = [TT + d - ext, TT + d, *t]
        else:                                            # result range beyond the readout times
            ext = rng.randint(d + 1, T)
            case["rfr"] = [T + d - ext, T + d, *r]
            if tlen == 6:
                case["tfr"] = [*_span(rng, TT, ext), *t]
            else:
                case["tfr"] = t
                if ext != TT:                            # would be time_unequal anyway
                    case["rfr"] = [T + d - TT, T + d, *r] if TT > d else case["rfr"]
        case["rr_len"] = 6
        return
    if tlen == 6:
        ext = rng.randint(1, min(T, TT))
        ra = _span(rng, T, ext)
        ta = _span(rng, TT, ext) if cls == "shifted" or TT != T else ra
        case["rfr"] = [*ra, *r]
        case["tfr"] = [*ta, *t]
        case["rr_len"] = 6
    else:
        case["tfr"] = t
        case["rfr"] = [0, T, *r] if case["rr_len"] == 6 else r


def gen_layout(rng, force_single: bool = False) -> list:
    if force_single:
        names = ["p"]
    else:
        names = rng.choice([["p"], ["q"], ["p", "q"], ["q", "p"], ["p", "q"], ["q", "p"]])
    layout = []
    for name in names:
        log = rng.random() < 0.3
        n = 2 if name == "q" else 1
        if log:
            b = [[rng.choice([1e-2, 0.1, 0.5]), rng.choice([2.0, 10.0, 50.0])] for _ in range(n)]
        else:
            b = [[rng.choice([-4.0, -1.0, 0.0, 0.5]), rng.choice([1.5, 3.0, 8.0])] for _ in range(n)]
        shared = n == 2 and rng.random() < 0.4
        if shared:
            b = [b[0], b[0]]
        layout.append({"name": name, "log": log, "bounds": b, "shared": shared})
    return layout


def gen_case(rng, kind: str, g: int) -> dict:
    """One calibration set-up (JSON-able).  `g` stratifies the classes so that every class shows up at quick."""
    multi = (g % 4 == 3) if kind == "calib" else (rng.random() < 0.35)
    rows, cols = rng.randint(3, 6), rng.randint(3, 6)
    bigger = rng.random() < 0.2
    case = {
        "kind": kind, "rows": rows, "cols": cols, "multi": multi,
        "trows": rows + (rng.randint(0, 2) if bigger else 0), "tcols": cols + (rng.randint(0, 2) if bigger else 0),
        "detector": rng.choice(["ccd", "cmos"]),
        "group": rng.choice(["photon_collection", "charge_generation", "charge_collection", "charge_measurement",
                             "readout_electronics"]),
        "inherited": rng.random() < 0.7,
    }
    if multi:
        T = rng.randint(2, 3)
        case["times"] = sorted(rng.sample([0.5, 1.0, 1.5, 2.0, 3.0, 4.5, 7.0], T))
        case["tr_len"] = rng.choice([4, 6, 6])
        # a cube with one more time than the readout is only usable with a 6-element target range
        # (direct cases only: run_mode cannot put a longer cube into the /full_size node; outside the statement)
        case["ttimes"] = T + (1 if case["tr_len"] == 6 and kind == "direct" and rng.random() < 0.2 else 0)
        case["rr_len"] = 6 if rng.random() < 0.85 else 4
        case["fmt"] = "npy"
    else:
        case["times"] = [1.0]           # default Readout(): one readout at t = 1
        case["ttimes"] = 0
        case["tr_len"] = case["rr_len"] = 4
        case["fmt"] = rng.choice(["npy", "fits", "txt"])
    case["ntar"] = [1, 2, 2, 3][g % 4] if kind == "calib" else rng.choice([1, 2, 2, 3, 3])
    case["ks"] = rng.sample([-2.0, -0.75, 0.5, 1.5, 2.25, 3.0], case["ntar"])
    case["k0"] = 9.0                    # value in the pipeline: must be overridden by the input argument
    # ---- range class
    if kind == "calib":
        cls = ["equal", "shifted", "shifted", "shifted", "invalid"][g % 5]
    else:
        cls = ["equal", "shifted", "shifted", "unequal", "oob_target", "oob_result", "shifted", "unequal",
               "time", "absent", "shifted", "oob_both"][g % 12]
    if cls == "invalid":
        cls = rng.choice(["unequal", "oob_target", "oob_both", "oob_result", "time"])
    if cls == "time":
        cls = rng.choice(["time_unequal", "time_oob"]) if multi else rng.choice(["unequal", "oob_target"])
    if cls == "time_oob" and case["tr_len"] == 4 and len(case["times"]) < 2:
        cls = "time_unequal"
    case["cls"] = cls
    if cls == "absent":
        case["rfr"], case["tfr"] = None, None
        if rng.random() < 0.5:          # only one of the two absent
            gen_ranges(rng, "equal", case)
            if rng.random() < 0.5:
                case["rfr"] = None
            else:
                case["tfr"] = None
    else:
        gen_ranges(rng, cls, case)
    # ---- what is calibrated
    case["layout"] = gen_layout(rng, force_single=(kind == "calib" and g % 4 == 0))
    case["p0"] = rng.choice([0.75, 1.5, 2.5])
    case["q0"] = [rng.choice([0.25, 1.0]), rng.choice([0.5, 2.0])]
    # ---- figure of merit, weights, result bucket
    case["fn"] = FUNCS[(g // 2) % 3] if kind == "calib" else rng.choice(FUNCS)
    case["free"] = rng.randint(0, 3)
    case["wk"] = ["none", "vector", "files"][g % 3] if kind == "calib" else rng.choice(["none", "vector", "files"])
    case["wvec"] = [rng.choice([0.25, 0.5, 1.5, 2.0, 3.5]) for _ in range(case["ntar"])]
    if case["wk"] == "vector" and case["ntar"] > 1 and len(set(case["wvec"])) == 1:
        case["wvec"][-1] = case["wvec"][0] + 1.25
    case["wfmt"] = "npy" if multi else rng.choice(["npy", "fits", "txt"])
    case["result_type"] = rng.choice(BUCKETS)
    case["nan_cells"] = rng.randint(1, 2) if rng.random() < 0.15 else 0
    if case["rfr"] is not None and case["tfr"] is not None and cls in VALID_CLASSES:
        # reduced chi-squared divides by (finite cells - free parameters): keep it >= 1 for every target
        cells = int(np.prod(selected_shapes(case)[1]))
        if cells - case["nan_cells"] < 1:
            case["nan_cells"] = 0
        case["free"] = min(case["free"], cells - case["nan_cells"] - 1)
    case["dseed"] = rng.randint(0, 2 ** 31)
    case["delim"] = rng.choice([" ", "\t", ",", ";"])
    if kind == "calib":
        case["algo"] = gen_algo(rng, sum(2 if par["name"] == "q" else 1 for par in case["layout"]))
        case["islands"] = 1 + (g % 2)
        case["evolutions"] = rng.randint(2, 3) if case["algo"]["type"] != "nlopt" else rng.randint(3, 6)
        case["pygmo_seed"] = rng.randint(0, 100000)
        case["best"] = rng.choice([None, None, 2, 3])
        case["topology"] = rng.choice(["unconnected", "ring", "fully_connected"])
    # ---- stochastic pipeline: the probe draws from the generator that the declared pipeline seed controls
    case["noise"] = rng.choice([0.5, 2.0, 6.0]) if rng.random() < 0.35 else 0.0
    case["pseed"] = rng.randint(0, 2 ** 31 - 1) if (case["noise"] or rng.random() < 0.15) else None
    gen_storage(rng, case)
    gen_redeclaration(rng, case)
    gen_history(rng, case)
    return case


def gen_storage(rng, case: dict) -> None:
    """Storage type of the target / weight files and number type of the weight vector: detector frames are
    usually stored as integers (uint16 ...), masks and weight maps as small integers or single precision."""
    u = rng.random()
    case["tkind"] = "float64" if u < 0.45 else ("float32" if u < 0.6 else "integer")
    if case["tkind"] == "integer":
        case["tdtypes"] = [rng.choice(INT_DTYPES) for _ in range(case["ntar"])]
        case["nan_cells"] = 0
    else:
        case["tdtypes"] = [case["tkind"]] * case["ntar"]
    u = rng.random()
    case["wdtype"] = "float64" if u < 0.6 else ("float32" if u < 0.75 else rng.choice(INT_DTYPES))
    if case["wk"] == "vector" and rng.random() < 0.2:          # a weight vector written with integers
        case["wvec"] = [rng.randint(1, 4) for _ in range(case["ntar"])]
        if case["ntar"] > 1 and len(set(case["wvec"])) == 1:
            case["wvec"][-1] = case["wvec"][0] + 1


def gen_redeclaration(rng, case: dict) -> None:
    """How the set-up was declared: all at once when the Calibration object is created (case['ctor'] empty), or
    created with other values (a loaded configuration) of which some options are re-declared through the public
    properties of the object before the run.  case['ctor'] = option -> value at construction (JSON-able),
    case['redeclared'] = the order in which the declared values are then assigned."""
    case["ctor"], case["redeclared"] = {}, []
    if case["cls"] == "absent" or rng.random() >= 0.45:
        return
    ctor = {}
    u = rng.random()
    if u < 0.75:
        decoy = None
        for _ in range(20):
            decoy = dict(case)
            gen_ranges(rng, rng.choice(["equal", "shifted", "shifted", "unequal"]), decoy)
            if decoy["rfr"] != case["rfr"] and decoy["tfr"] != case["tfr"]:
                break
        which = "both" if u < 0.45 else ("target" if u < 0.6 else "result")
        if which in ("both", "target") and decoy["tfr"] != case["tfr"]:
            ctor["target_fit_range"] = list(decoy["tfr"])
        if which in ("both", "result") and decoy["rfr"] != case["rfr"]:
            ctor["result_fit_range"] = list(decoy["rfr"])
    p_other = 0.2 if ctor else 0.45
    if case["wk"] == "vector" and rng.random() < p_other:
        ctor["weights"] = [w + rng.choice([0.5, 1, 2.25]) for w in case["wvec"]]
    if case["wk"] == "files" and rng.random() < p_other:
        ctor["weights_from_file"] = True                       # other files (written by materialise)
    if rng.random() < p_other:
        ctor["target_data_path"] = True                        # other files of the same shape
    if rng.random() < p_other:
        ctor["result_input_arguments"] = [k + rng.choice([-1.25, 0.5, 2.0]) for k in case["ks"]]
    if rng.random() < p_other:
        ctor["fitness_function"] = rng.choice([f for f in FUNCS if f != case["fn"]])
    if rng.random() < p_other:
        ctor["result_type"] = rng.choice([b for b in BUCKETS if b != case["result_type"]])
    if case["pseed"] is not None and rng.random() < p_other:
        ctor["pipeline_seed"] = rng.choice([None, (case["pseed"] + rng.randint(1, 1000)) % (2 ** 31 - 1)])
    if case["kind"] == "calib" and rng.random() < p_other:
        ctor["num_evolutions"] = rng.choice([e for e in range(1, 6) if e != case["evolutions"]])
    order = list(ctor)
    rng.shuffle(order)
    case["ctor"], case["redeclared"] = ctor, order


def gen_history(rng, case: dict) -> None:
    """What the session did before with the same file names.  case['history'] is None (fresh names) or describes a
    previous set-up of the same process: it named the same target and / or weight files ('shared'), whose content
    then was another one (drawn from 'dseed'); it was evaluated through a problem built from it or run with
    pyxel.run_mode ('how'), decision vector at the fractions 'u' of the box; afterwards the files were written again
    under the same names.  'same_object': the declared run uses the Calibration object of the previous one again
    (files that got another name are named again through the public property) instead of brand-new objects."""
    case["history"] = None
    if case["cls"] not in VALID_CLASSES or rng.random() >= 0.3:
        return
    shared = rng.choice(["targets", "weights", "both", "both"]) if case["wk"] == "files" else "targets"
    how = "run_mode" if case["kind"] == "calib" and rng.random() < 0.35 else "problem"
    same = rng.random() < 0.3
    case["history"] = {"dseed": rng.randint(0, 2 ** 31), "shared": shared, "how": how, "same_object": same,
                       "u": [round(rng.random(), 6) for _ in range(3)]}
    if same:                                                   # one object, declared once
        case["ctor"], case["redeclared"] = {}, []


def stale_case(case: dict, fields=None) -> dict:
    """The set-up that the values given at construction describe (for the options `fields`, default all)."""
    c = dict(case)
    for f, v in case["ctor"].items():
        if fields is not None and f not in fields:
            continue
        key = {"target_fit_range": "tfr", "result_fit_range": "rfr", "weights": "wvec", "result_input_arguments": "ks",
               "fitness_function": "fn", "result_type": "result_type", "pipeline_seed": "pseed",
               "num_evolutions": "evolutions"}.get(f)
        if key is not None:
            c[key] = v
    return c


def stale_data(case: dict, data: dict, fields=None) -> dict:
    d = dict(data)
    use = [f for f in case["ctor"] if fields is None or f in fields]
    if "target_data_path" in use:
        d["targets"], d["tpaths"] = data["ctor_targets"], data["ctor_tpaths"]
    if "weights_from_file" in use:
        d["weights"], d["wpaths"] = data["ctor_weights"], data["ctor_wpaths"]
    return d


def gen_algo(rng, dim: int) -> dict:
    """One of the three algorithm families with randomised options (tiny budgets: the fitness bookkeeping and the
    champion reporting are observed, not the convergence)."""
    u = rng.random()
    if u < 0.35:
        return {"type": "sade", "generations": rng.randint(1, 2), "population_size": rng.randint(7, 8),
                "variant": rng.choice([2, 2, rng.randint(1, 18)]), "variant_adptv": rng.randint(1, 2),
                "memory": rng.random() < 0.3}
    if u < 0.55:
        return {"type": "sga", "generations": rng.randint(1, 2), "population_size": rng.randint(7, 8)}
    # a local optimiser applied to one individual of the population (selection), the result re-inserted
    # (replacement): every combination of best / worst / random is a documented configuration
    solver = rng.choice(NLOPT_SOLVERS)
    # Powell's solvers need 2 * dim + 3 evaluations to build their model (fewer: NaN candidates, property C10)
    least = 2 * dim + 3 if solver in ("bobyqa", "newuoa_bound") else 2
    # all nine selection x replacement pairs; the pairs that can overwrite the best individual of the population
    # with a worse one (selection other than best, replacement other than worst) are drawn twice as often: only
    # there the best individual ever seen and the best of the current population differ
    return {"type": "nlopt", "generations": 1, "population_size": rng.randint(2, 6),
            "nlopt_solver": solver, "maxeval": least + rng.choice([0, 0, 1, 2, 3, 5, 8]),
            "xtol_rel": 1e-8, "nlopt_selection": rng.choice(["best", "worst", "random", "worst", "random"]),
            "replacement": rng.choice(["best", "worst", "random", "best", "random"])}


def is_shifted(case: dict) -> bool:
    if case["rfr"] is None or case["tfr"] is None:
        return False
    return six(case["rfr"])[2:] != six(case["tfr"])[2:]


def time_shifted(case: dict) -> bool:
    r, t = six(case["rfr"]), six(case["tfr"])
    return case["multi"] and t[0] is not None and r[0] is not None and r[:2] != t[:2]


def region_is_full_detector(case: dict) -> bool:
    r = six(case["tfr"])
    return (r[3] - r[2], r[5] - r[4]) == (case["rows"], case["cols"])


# =============================================================================== materialisation
def write_array(path: str, arr: np.ndarray, fmt: str, delim: str) -> str:
    if fmt == "npy":
        np.save(path + ".npy", arr)
        return path + ".npy"
    if fmt == "fits":
        from astropy.io import fits
        fits.writeto(path + ".fits", arr, overwrite=True)
        return path + ".fits"
    np.savetxt(path + ".txt", arr, fmt="%.17g", delimiter=delim)
    return path + ".txt"


def draw_frame(nrg, shape, dtype: str, nan_cells: int = 0, weight: bool = False) -> np.ndarray:
    """A target frame (or a weight map) as it is stored: values of the storage type `dtype`."""
    dt = np.dtype(dtype)
    if weight:
        arr = np.round(nrg.uniform(0.25, 4.0, size=shape), 6)
        if dt.kind in "iu":
            arr = np.clip(np.rint(arr), 1, 4)
        return arr.astype(dt)
    if dt.kind in "iu":
        info = np.iinfo(dt)
        arr = np.rint(nrg.normal(loc=30.0, scale=25.0, size=shape))
        return np.clip(arr, max(info.min, -1000), min(info.max, 60000)).astype(dt)
    arr = np.round(nrg.normal(loc=6.0, scale=8.0, size=shape), 6).astype(dt)
    for _ in range(nan_cells):
        arr[tuple(nrg.integers(0, s) for s in shape)] = np.nan
    return arr


def materialise(case: dict, tmp: str, tag: str, ttag: str | None = None, wtag: str | None = None) -> dict:
    """Write target / weight files; return the arrays the oracle uses (what was written).
    `ttag` / `wtag`: name stems of the declared target / weight files when they differ from `tag`."""
    ttag, wtag = ttag or tag, wtag or tag
    nrg = np.random.default_rng(case["dseed"])
    shape2 = (case["trows"], case["tcols"])
    shape = (case["ttimes"], *shape2) if case["multi"] else shape2
    data = {"targets": [], "weights": [], "tpaths": [], "wpaths": []}
    for i in range(case["ntar"]):
        arr = draw_frame(nrg, shape, case["tdtypes"][i], case["nan_cells"])
        data["targets"].append(arr)
        data["tpaths"].append(write_array(os.path.join(tmp, f"t_{ttag}_{i}"), arr, case["fmt"], case["delim"]))
    if case["wk"] == "files":
        for i in range(case["ntar"]):
            w = draw_frame(nrg, shape, case["wdtype"], weight=True)
            data["weights"].append(w)
            data["wpaths"].append(write_array(os.path.join(tmp, f"w_{wtag}_{i}"), w, case["wfmt"], case["delim"]))
    # ---- the files named when the object was created, when they are re-declared afterwards
    if "target_data_path" in case["ctor"]:
        data["ctor_targets"], data["ctor_tpaths"] = [], []
        for i in range(case["ntar"]):
            arr = draw_frame(nrg, shape, case["tdtypes"][i], case["nan_cells"])
            data["ctor_targets"].append(arr)
            data["ctor_tpaths"].append(write_array(os.path.join(tmp, f"td_{tag}_{i}"), arr, case["fmt"], case["delim"]))
    if "weights_from_file" in case["ctor"]:
        data["ctor_weights"], data["ctor_wpaths"] = [], []
        for i in range(case["ntar"]):
            w = draw_frame(nrg, shape, case["wdtype"], weight=True)
            data["ctor_weights"].append(w)
            data["ctor_wpaths"].append(write_array(os.path.join(tmp, f"wd_{tag}_{i}"), w, case["wfmt"], case["delim"]))
    return data


def option_values(c: dict, d: dict, as_paths: bool) -> dict:
    """The options of the Calibration object that the statement speaks about, for the set-up (c, d)."""
    import pathlib

    from pyxel.observation import ParameterValues
    from pyxel.pipelines import FitnessFunction

    args = {"free_parameters": c["free"]} if c["fn"] == "reduced_chi_squared" else None
    conv = (lambda ps: [pathlib.Path(x) for x in ps]) if as_paths else list
    v = {
        "target_data_path": conv(d["tpaths"]),
        "fitness_function": FitnessFunction(func="pyxel.calibration.fitness." + c["fn"], arguments=args),
        "result_type": c["result_type"],
        "result_fit_range": tuple(c["rfr"]) if c["rfr"] is not None else None,
        "target_fit_range": tuple(c["tfr"]) if c["tfr"] is not None else None,
        "result_input_arguments": [ParameterValues(key=f"pipeline.{c['group']}.cal.arguments.k", values=list(c["ks"]))],
        "pipeline_seed": c["pseed"],
    }
    if c["wk"] == "vector":
        v["weights"] = list(c["wvec"])
    elif c["wk"] == "files":
        v["weights_from_file"] = conv(d["wpaths"])
    if c["kind"] == "calib":
        v["num_evolutions"] = c["evolutions"]
    return v


def make_objects(case: dict, data: dict, reuse=None):
    """Calibration object, detector and pipeline of the set-up.  `reuse`: the Calibration object of the previous run of
    the session, which declared the same set-up; only files that have another name now are named again."""
    if reuse is not None:
        declared = option_values(case, data, as_paths=True)
        prev = data["previous"]
        if [str(x) for x in prev["tpaths"]] != [str(x) for x in data["tpaths"]]:
            reuse.target_data_path = declared["target_data_path"]
        if case["wk"] == "files" and [str(x) for x in prev["wpaths"]] != [str(x) for x in data["wpaths"]]:
            reuse.weights_from_file = declared["weights_from_file"]
        detector, pipeline = make_detector_pipeline(case)
        return reuse, detector, pipeline
    from pyxel.calibration import Algorithm, Calibration
    from pyxel.exposure import Readout
    from pyxel.observation import ParameterValues

    group = case["group"]
    pre = f"pipeline.{group}.cal.arguments."
    params = []
    for par in case["layout"]:
        if par["name"] == "p":
            params.append(ParameterValues(key=pre + "p", values="_", logarithmic=par["log"],
                                          boundaries=tuple(par["bounds"][0])))
        else:
            b = tuple(par["bounds"][0]) if par["shared"] else [tuple(x) for x in par["bounds"]]
            params.append(ParameterValues(key=pre + "q", values=["_", "_"], logarithmic=par["log"], boundaries=b))
    algo = case.get("algo") or {"type": "sade", "generations": 1, "population_size": 7}
    kwargs = option_values(case, data, as_paths=False)
    if case["ctor"]:                                           # created with other values ...
        other = option_values(stale_case(case), stale_data(case, data), as_paths=False)
        for f in case["ctor"]:
            kwargs[f] = other[f]
    if case["kind"] == "calib":
        kwargs.update(num_islands=case["islands"], pygmo_seed=case["pygmo_seed"],
                      num_best_decisions=case["best"], topology=case["topology"])
    cal = Calibration(
        algorithm=Algorithm(**algo),
        parameters=params,
        readout=Readout(times=list(case["times"])) if case["multi"] else None,
        **kwargs,
    )
    if case["redeclared"]:                                     # ... and re-declared through the public properties
        declared = option_values(case, data, as_paths=True)
        for f in case["redeclared"]:
            setattr(cal, f, declared[f])
    detector, pipeline = make_detector_pipeline(case)
    return cal, detector, pipeline


def make_detector_pipeline(case: dict):
    detector = build.make_detector(build.default_detector_spec(case["detector"], case["rows"], case["cols"]))
    pspec = {case["group"]: [{"name": "cal", "func": "vf.checks.c11.probe",
                              "arguments": {"p": case["p0"], "q": list(case["q0"]), "k": case["k0"],
                                            "noise": case["noise"]}}]}
    return detector, build.make_pipeline(pspec)


def resimulated_noise(rec, case: dict):
    """The additive term of every readout that a re-simulation with the declared pipeline seed draws, observed by
    running the same pipeline once in exposure mode with that seed (the term does not depend on p, q, k).
    None for a deterministic probe; False when the reference could not be obtained (nothing is judged then)."""
    if not case["noise"]:
        return None
    import pyxel
    from pyxel.exposure import Exposure, Readout

    try:
        detector, pipeline = make_detector_pipeline(case)
        readout = Readout(times=list(case["times"])) if case["multi"] else Readout()
        log_reset()
        pyxel.run_mode(mode=Exposure(readout=readout, pipeline_seed=case["pseed"]), detector=detector, pipeline=pipeline)
        entries = log_snapshot()
    except Exception as e:  # noqa: BLE001
        rec.count("noise_reference_failed")
        rec.observe("noise_reference_exception", short_exc(e))
        return False
    finally:
        log_reset()
    if len(entries) != len(case["times"]) or [e[4] for e in entries] != [float(t) for t in case["times"]]:
        rec.count("noise_reference_failed")
        return False
    rec.count("noise_references_resimulated")
    return [e[5] for e in entries]


def decision_at(case: dict, us: list) -> list:
    """Decision vector at the fractions `us` (cycled) of the box."""
    out, j = [], 0
    for par in case["layout"]:
        for lo, hi in (par["bounds"] if par["name"] == "q" else par["bounds"][:1]):
            if par["log"]:
                lo, hi = float(np.log10(lo)), float(np.log10(hi))
            out.append(lo + us[j % len(us)] * (hi - lo))
            j += 1
    return out


def run_previous(rec, index, case: dict, tag: str):
    """The previous run of the session (case['history']): write the files with their previous content, configure the
    same set-up on them and evaluate it (judged like any other run).  Returns (what was written, Calibration object)."""
    h = case["history"]
    prev = dict(case, dseed=h["dseed"], ctor={}, redeclared=[], history=None)
    ttag = tag if h["shared"] in ("targets", "both") else tag + "p"
    wtag = tag if h["shared"] in ("weights", "both") else tag + "p"
    pdata = materialise(prev, rec.tmp, tag, ttag, wtag)
    cal = None
    log_reset()
    try:
        cal, detector, pipeline = make_objects(prev, pdata)
        if h["how"] == "run_mode":
            import pyxel
            tree = pyxel.run_mode(mode=cal, detector=detector, pipeline=pipeline, with_inherited_coords=case["inherited"])
            rec.count("probe_calls", log_len())
            pdata["noise"] = resimulated_noise(rec, prev)
            if pdata["noise"] is not False and check_champions(rec, prev, pdata, tree, index) is not None:
                rec.count("history_previous_runs_compared")
        else:
            problem = make_problem(cal, detector, pipeline, case["inherited"])
            x = decision_at(case, h["u"])
            got = problem.fitness(np.array(x, dtype=float))
            rec.count("probe_calls", log_len())
            pdata["noise"] = resimulated_noise(rec, prev)
            if pdata["noise"] is not False:
                p, q = oracle_split(case["layout"], x, from_decision=True)
                got = float(np.asarray(got, dtype=float).ravel()[0]) if np.size(got) == 1 else float("nan")
                want = oracle_fitness(prev, pdata, p, q)
                if close(got, want):
                    rec.count("history_previous_runs_compared")
                else:
                    fitness_mismatch(rec, prev, pdata, got, want, p, q, "direct", f"decision={x} (previous run of the session)", index)
    except Exception as e:  # noqa: BLE001 -- judged by the cases without a history; here only the history matters
        rec.count("history_previous_run_raised")
        rec.observe("history_previous_run_exception", short_exc(e)[:160])
    finally:
        log_reset()
    return pdata, cal


def with_history(rec, index, case: dict, tag: str):
    """Files of the set-up (after the previous run of the session, if any) -> (data, Calibration object to use again)."""
    if not case.get("history"):
        return materialise(case, rec.tmp, tag), None
    pdata, cal = run_previous(rec, index, case, tag)
    data = materialise(case, rec.tmp, tag)                     # written again under the same names
    data["previous"] = {k: pdata[k] for k in ("targets", "weights", "tpaths", "wpaths")}
    rec.observe("histories", f"{case['kind']}:{case['history']['how']}:{case['history']['shared']}:"
                             f"{'same-object' if case['history']['same_object'] else 'new-objects'}")
    return data, (cal if case["history"]["same_object"] else None)


def previous_content(case: dict, data: dict) -> list:
    """[(what, data with the previous content of the re-written files)] for the classification of a mismatch."""
    h, prev = case.get("history"), data.get("previous")
    if not h or not prev:
        return []
    out = []
    if h["shared"] in ("targets", "both"):
        out.append(("target", dict(data, targets=prev["targets"])))
    if h["shared"] in ("weights", "both"):
        out.append(("weight", dict(data, weights=prev["weights"])))
    if h["shared"] == "both":
        out.append(("target and weight", dict(data, targets=prev["targets"], weights=prev["weights"])))
    return out


def make_problem(cal, detector, pipeline, inherited: bool):
    """The fitting problem, built as Calibration.run_calibration builds it."""
    from pyxel.calibration import FitRange3D, to_fit_range
    from pyxel.calibration.fitting_datatree import ModelFittingDataTree
    from pyxel.pipelines import Processor

    return ModelFittingDataTree(
        processor=Processor(detector=detector, pipeline=pipeline),
        variables=cal.parameters,
        readout=cal.readout,
        simulation_output=cal.result_type,
        generations=cal.algorithm.generations,
        population_size=cal.algorithm.population_size,
        fitness_func=cal.fitness_function,
        file_path=None,
        target_filenames=cal.target_data_path,
        target_fit_range=to_fit_range(cal.target_fit_range),
        out_fit_range=FitRange3D.from_sequence(cal.result_fit_range),
        input_arguments=cal.result_input_arguments,
        weights=cal.weights,
        weights_from_file=cal.weights_from_file,
        pipeline_seed=cal.pipeline_seed,
        with_inherited_coords=inherited,
    )


# =============================================================================== verdict helpers
def alarm(rec, mech: str, detail: str, case: dict, index) -> None:
    if mech in OPEN_FINDINGS:
        rec.count("open_finding_hits")
        rec.observe("open_findings", mech)
        return
    rec.violation(mech, detail, case, index)


def ro_name(case: dict) -> str:
    return "multi-readout" if case["multi"] else "single-readout"


def short_exc(exc: BaseException) -> str:
    import traceback
    tb = traceback.extract_tb(exc.__traceback__)
    where = f"{os.path.basename(tb[-1].filename)}:{tb[-1].name}" if tb else "?"
    return f"{type(exc).__name__}: {str(exc)[:240]} @ {where}"


def invalid_key(case: dict) -> str:
    cls = case["cls"]
    if cls == "oob_result":
        return "C11:ranges:result-range-exceeds-detector"
    if cls == "time_unequal":
        base = "C11:ranges:multi-readout:time-extent-unequal"
        return base if case["tr_len"] == 4 else base + ":3d-target-range"
    if cls == "time_oob":
        return "C11:ranges:multi-readout:time-out-of-bounds"
    if cls == "oob_target":
        return f"C11:ranges:target-out-of-bounds:{ro_name(case)}"
    if cls == "oob_both":
        return f"C11:ranges:target-and-result-out-of-bounds:{ro_name(case)}"
    return f"C11:ranges:unequal-extent:{ro_name(case)}"


def selected_shapes(case: dict) -> tuple:
    """Shapes really selected by NumPy slicing in result and target (time, y, x)."""
    T = len(case["times"])
    sim = np.empty((T, case["rows"], case["cols"]), dtype=bool)
    tshape = (case["ttimes"], case["trows"], case["tcols"]) if case["multi"] else (case["trows"], case["tcols"])
    s = region(sim, six(case["rfr"])).shape
    t = region(np.empty(tshape, dtype=bool), six(case["tfr"])).shape
    return s, t


def refused_key(case: dict) -> str:
    if case["multi"] and case["tr_len"] == 6:
        return "C11:ranges:multi-readout:3d-target-range-refused"
    return f"C11:ranges:valid-pair-refused:{ro_name(case)}:{'shifted' if is_shifted(case) else 'equal'}"


def count_classes(rec, case: dict, what: str) -> None:
    """Coverage counters of one successful comparison of kind `what` (direct/champion)."""
    rec.count(f"fn_{case['fn']}")
    rec.count("multi_readout_compared" if case["multi"] else "single_readout_compared")
    if case["wk"] != "none":
        rec.count(f"weights_{case['wk']}_compared")
    if case["ntar"] >= 2:
        rec.count("targets_2_or_more_compared")
    rec.count(f"result_type_{case['result_type']}_compared")
    rec.observe("compared_classes", f"{what}:{ro_name(case)}:{case['wk']}:{case['fn']}:{case['cls']}")
    rec.observe("target_formats", case["fmt"])
    if case["wk"] == "files":
        rec.observe("weight_formats", case["wfmt"])
    if case["nan_cells"]:
        rec.count("targets_with_nan_compared")
    if case["noise"]:
        rec.count("stochastic_pipeline_compared")
        if case["ntar"] >= 2:
            rec.count("stochastic_pipeline_2_or_more_targets_compared")
    elif case["pseed"] is not None:
        rec.count("seeded_deterministic_pipeline_compared")
    rec.observe("target_storage", f"{case['fmt']}:{'+'.join(sorted(set(case['tdtypes'])))}")
    if case["tkind"] == "integer":
        rec.count("integer_targets_compared")
        if case["wk"] == "vector" and any(float(w) != int(w) for w in case["wvec"]):
            rec.count("integer_targets_fractional_weights_compared")
    if case["wk"] == "files":
        rec.observe("weight_storage", f"{case['wfmt']}:{case['wdtype']}")
    for f in case["ctor"]:
        rec.count(f"redeclared_{f}_{what}_compared")
    h = case.get("history")
    if h:
        if h["shared"] in ("targets", "both"):
            rec.count(f"history_rewritten_target_files_{what}_compared")
        if h["shared"] in ("weights", "both"):
            rec.count("history_rewritten_weight_files_compared")
        if h["same_object"]:
            rec.count("history_same_object_compared")


def fitness_mismatch(rec, case: dict, data: dict, got: float, want: float, p, q, what: str, extra: str, index) -> None:
    """Classify a fitness that differs from the oracle by how it differs."""
    got = float(got)
    mech = f"C11:fitness:{what}:{ro_name(case)}:weights-{case['wk']}:mismatch"
    if case["noise"]:
        mech = f"C11:fitness:{what}:{ro_name(case)}:weights-{case['wk']}:seeded-stochastic-pipeline:mismatch"
    if case["wk"] != "none":
        unweighted = oracle_fitness(case, data, p, q, weighted=False)
        if close(got, unweighted) and not close(want, unweighted):
            mech = ("C11:weights:multi-readout:ignored" if case["multi"]
                    else f"C11:weights:{ro_name(case)}:ignored:{what}")
    # options re-declared before the run: is it the figure of merit of the values given at construction?
    subsets = [[f] for f in case["ctor"]] + ([list(case["ctor"])] if len(case["ctor"]) > 1 else [])
    for fields in subsets:
        try:
            old = oracle_fitness(stale_case(case, fields), stale_data(case, data, fields), p, q)
        except Exception:  # noqa: BLE001 -- e.g. regions of different extent
            continue
        if close(got, old) and not close(want, old):
            mech = f"C11:declared:redeclared-before-run:construction-time-value-used:{what}"
            extra = f"{extra}; equals the figure of merit with the value(s) of {fields} given at construction " \
                    f"({ {f: case['ctor'][f] for f in fields} }) instead of the declared one(s)"
            break
    # files written again under the same names since the previous run: is it the figure of merit of their old content?
    for which, old_data in previous_content(case, data):
        try:
            old = oracle_fitness(case, old_data, p, q)
        except Exception:  # noqa: BLE001
            continue
        if close(got, old) and not close(want, old):
            mech = f"C11:declared:file-rewritten-between-runs:previous-content-used:{what}"
            extra = f"{extra}; equals the figure of merit on the content that the {which} file(s) had during the " \
                    f"previous run of the session, not on their content when this run started"
            break
    alarm(rec, mech, f"{what} fitness {got!r} but the recomputation of {case['fn']} over {case['ntar']} target(s) gives "
                     f"{want!r} (p={p}, q={q}) {extra}", case, index)


def signature(case: dict) -> list:
    return [case[k] for k in ("kind", "rows", "cols", "trows", "tcols", "multi", "times", "ntar", "ks", "cls", "rfr",
                              "tfr", "fn", "free", "wk", "result_type", "fmt", "inherited", "noise", "tdtypes")] + \
           [[(p["name"], p["log"], p["shared"]) for p in case["layout"]], case["pseed"] is not None,
            sorted((case.get("algo") or {}).items()), sorted(case["ctor"]),
            [case["history"][k] for k in ("how", "shared", "same_object")] if case.get("history") else None]


# =============================================================================== (a) + (e): direct cases
def gen_decisions(rng, case: dict, m: int) -> list:
    lows, highs = [], []
    for par in case["layout"]:
        for lo, hi in (par["bounds"] if par["name"] == "q" else par["bounds"][:1]):
            if par["log"]:
                lo, hi = float(np.log10(lo)), float(np.log10(hi))
            lows.append(lo)
            highs.append(hi)
    out = [list(lows), list(highs)]
    while len(out) < m:
        out.append([rng.uniform(lo, hi) for lo, hi in zip(lows, highs)])
    return out[:m]


def judge_invalid(rec, case: dict, outcome: str, detail: str, index) -> None:
    """An invalid range pair was not rejected before the first evaluation."""
    sshape, tshape = selected_shapes(case)
    how = "evaluated" if outcome == "value" else outcome
    alarm(rec, f"{invalid_key(case)}:accepted:{how}",
          f"range pair of class {case['cls']} (result {case['rfr']} selects {sshape}, target {case['tfr']} selects "
          f"{tshape} of target shape {(case['trows'], case['tcols'])}, detector {(case['rows'], case['cols'])}, "
          f"{len(case['times'])} readout(s)) was not rejected before evaluation: {detail}", case, index)


def run_direct(rec, index, case: dict, rng, n_eval: int) -> None:
    data, reuse = with_history(rec, index, case, f"d{index}")
    rec.count("direct_cases")
    rec.observe("range_classes_direct", f"{ro_name(case)}:{case['cls']}")
    log_reset()
    problem, exc = None, None
    try:
        cal, detector, pipeline = make_objects(case, data, reuse)
        problem = make_problem(cal, detector, pipeline, case["inherited"])
    except Exception as e:  # noqa: BLE001
        exc = e
    decisions = gen_decisions(rng, case, n_eval)
    cls = case["cls"]
    if cls == "absent":                                   # outside the statement: counted only
        rec.count("absent_ranges_refused" if problem is None else "absent_ranges_constructed")
        if exc is not None:
            rec.observe("absent_ranges_exception", type(exc).__name__)
        rec.case(signature(case), False)
        return
    if cls in INVALID_CLASSES:
        if problem is None:
            if log_len() == 0:
                rec.count("invalid_ranges_rejected_before_evaluation")
                rec.observe("invalid_classes_rejected", f"{ro_name(case)}:{cls}")
            else:
                judge_invalid(rec, case, "rejected-after-evaluation", short_exc(exc), index)
        else:
            try:
                f = problem.fitness(np.array(decisions[-1], dtype=float))
                judge_invalid(rec, case, "value", f"fitness() returned {f!r} after {log_len()} probe call(s)", index)
            except Exception as e:  # noqa: BLE001
                judge_invalid(rec, case, "evaluation-raised",
                              f"accepted at construction, fitness() raised {short_exc(e)} after {log_len()} probe call(s)", index)
        rec.case(signature(case), True, sample=case)
        return
    # ---- valid pair: must be accepted ...
    if problem is None:
        alarm(rec, refused_key(case), f"equal-extent in-bounds range pair result={case['rfr']} target={case['tfr']} "
                                      f"refused: {short_exc(exc)}", case, index)
        rec.case(signature(case), True, sample=case)
        return
    if is_shifted(case) or time_shifted(case):
        rec.count("valid_shifted_ranges_accepted")
    data["noise"] = resimulated_noise(rec, case)
    if data["noise"] is False:
        rec.case(signature(case), False)
        return
    # ---- ... and every candidate's fitness is the declared figure of merit
    for x in decisions:
        log_reset()
        p, q = oracle_split(case["layout"], x, from_decision=True)
        try:
            got = problem.fitness(np.array(x, dtype=float))
        except Exception as e:  # noqa: BLE001
            mech = "C11:fitness:valid-configuration:evaluation-raised"
            if case["fn"] == "reduced_chi_squared" and case["wk"] == "vector" and not region_is_full_detector(case):
                mech = "C11:weights:chi2-scalar-partial-range:crash"
            alarm(rec, mech, f"fitness({x}) raised {short_exc(e)} ({ro_name(case)}, weights {case['wk']}, {case['fn']})",
                  case, index)
            break
        rec.count("probe_calls", log_len())
        got = float(np.asarray(got, dtype=float).ravel()[0]) if np.size(got) == 1 else float("nan")
        want = oracle_fitness(case, data, p, q)
        rec.count("direct_evals")
        if close(got, want):
            rec.count("direct_evals_compared")
            count_classes(rec, case, "direct")
        else:
            fitness_mismatch(rec, case, data, got, want, p, q, "direct", f"decision={x}", index)
            break
    rec.case(signature(case), True, sample=case)


# =============================================================================== (b) (c) (d): calibrations
def node(tree, path: str):
    """DataArray at `path` of the result tree (None when absent)."""
    try:
        return tree[path]
    except KeyError:
        return None


def ordered(da, dims: tuple):
    da = da.transpose(*dims)
    if "evolution" in da.dims and "evolution" in da.coords:
        da = da.sortby("evolution")
    return da


def check_champions(rec, case: dict, data: dict, tree, index) -> np.ndarray | None:
    fit = node(tree, "/champion/fitness")
    par = node(tree, "/champion/parameters")
    if fit is None or par is None:
        alarm(rec, "C11:champion:nodes-missing", "/champion/fitness or /champion/parameters missing", case, index)
        return None
    fit = np.asarray(ordered(fit, ("island", "evolution")).values, dtype=float)
    par = np.asarray(ordered(par, ("island", "evolution", "param_id")).values, dtype=float)
    if fit.shape != (case["islands"], case["evolutions"]) or par.shape[:2] != fit.shape:
        alarm(rec, "C11:champion:shape", f"champion fitness {fit.shape} / parameters {par.shape} for "
                                         f"{case['islands']} island(s) x {case['evolutions']} evolution(s)", case, index)
        return None
    for i in range(fit.shape[0]):
        for e in range(fit.shape[1]):
            p, q = oracle_split(case["layout"], par[i, e], from_decision=False)
            want = oracle_fitness(case, data, p, q)
            if close(fit[i, e], want):
                rec.count("champion_fitness_compared")
                count_classes(rec, case, "champion")
            else:
                fitness_mismatch(rec, case, data, fit[i, e], want, p, q, "champion",
                                 f"island={i} evolution={e} of {fit.shape[1]}", index)
        # (d) never worse than the one reported before
        for e in range(1, fit.shape[1]):
            rec.count("monotone_pairs_checked")
            rec.count(f"monotone_pairs_checked_{case['algo']['type']}")
            if fit[i, e] < fit[i, e - 1]:
                rec.count("champion_improved_between_evolutions")
            if fit[i, e] > fit[i, e - 1] + 1e-12 * abs(fit[i, e - 1]):
                alarm(rec, "C11:champion:fitness-increased",
                      f"island {i}: champion fitness {fit[i, e - 1]!r} after evolution {e - 1} but {fit[i, e]!r} after "
                      f"evolution {e} (all: {fit[i].tolist()})", case, index)
    # /best/* : the fitness attached to any reported candidate
    bfit, bpar = node(tree, "/best/fitness"), node(tree, "/best/parameters")
    if case["best"] and bfit is not None and bpar is not None:
        bfit = np.asarray(ordered(bfit, ("island", "evolution", "individual")).values, dtype=float)
        bpar = np.asarray(ordered(bpar, ("island", "evolution", "individual", "param_id")).values, dtype=float)
        for i, e, j in np.ndindex(*bfit.shape):
            if not np.all(np.isfinite(bpar[i, e, j])):
                continue
            p, q = oracle_split(case["layout"], bpar[i, e, j], from_decision=False)
            want = oracle_fitness(case, data, p, q)
            if close(bfit[i, e, j], want):
                rec.count("best_fitness_compared")
            else:
                fitness_mismatch(rec, case, data, bfit[i, e, j], want, p, q, "best",
                                 f"island={i} evolution={e} individual={j}", index)
                break
    return par


def nan_equal(a: np.ndarray, b: np.ndarray) -> bool:
    a, b = np.asarray(a, dtype=float), np.asarray(b, dtype=float)
    return a.shape == b.shape and bool(np.array_equal(a, b, equal_nan=True))


def is_previous_content(case: dict, data: dict, k: int, got, rng6) -> bool:
    """Is `got` the content that target file k had during the previous run of the session (restricted to rng6)?"""
    h, prev = case.get("history"), data.get("previous")
    if got is None or not h or not prev or h["shared"] not in ("targets", "both"):
        return False
    old = prev["targets"][k]
    return nan_equal(got, region(old, rng6) if rng6 is not None else old)


def check_nodes(rec, case: dict, data: dict, tree, par: np.ndarray, index) -> None:
    """(c) simulated data of the last champions and the target nodes."""
    n_isl, n_proc = case["islands"], case["ntar"]
    r6 = six(case["rfr"])
    expected = {}
    for i in range(n_isl):
        p, q = oracle_split(case["layout"], par[i, -1], from_decision=False)
        pp = case["p0"] if p is None else p[0]
        qq = case["q0"] if q is None else q
        for k in range(n_proc):
            expected[i, k] = oracle_sim(case, pp, qq, case["ks"][k], data.get("noise"))
    for bucket in BUCKETS:
        for path, restrict, counter in ((f"/simulated/{bucket}", True, "simulated_cells_compared"),
                                        (f"/full_size/simulated_{bucket}", False, "full_size_cells_compared")):
            da = node(tree, path)
            if da is None:
                alarm(rec, f"C11:simulated:{path}:missing", f"node {path} missing", case, index)
                continue
            try:
                vals = np.asarray(da.transpose("island", "processor", "readout_time", "y", "x").compute().values, dtype=float)
            except Exception as e:  # noqa: BLE001
                alarm(rec, "C11:simulated:compute-raised", f"computing {path} raised {short_exc(e)}", case, index)
                return
            for (i, k), sim in expected.items():
                want = np.asarray(region(sim[bucket], r6) if restrict else sim[bucket], dtype=float)
                got = vals[i, k] if vals.ndim == 5 and i < vals.shape[0] and k < vals.shape[1] else None
                if got is None or got.shape != want.shape or not np.allclose(got, want, rtol=1e-12, atol=0.0):
                    where = "simulated" if restrict else "full_size"
                    alarm(rec, f"C11:{where}:{'result-bucket' if bucket == case['result_type'] else 'other-bucket'}:differs",
                          f"{path}[island={i}, processor={k}] (shape {None if got is None else got.shape}) differs from the "
                          f"closed form at the last champion parameters {par[i, -1].tolist()} with input argument "
                          f"{case['ks'][k]} (expected shape {want.shape}); got {None if got is None else got.ravel()[:6].tolist()} "
                          f"expected {want.ravel()[:6].tolist()}", case, index)
                    break
                rec.count(counter, int(want.size))
    # ---- targets
    t6 = six(case["tfr"])
    da = node(tree, "/simulated/target")
    if da is None:
        alarm(rec, "C11:simulated-target:missing", "node /simulated/target missing", case, index)
    else:
        dims = ("processor", "readout_time", "y", "x") if "readout_time" in da.dims else ("processor", "y", "x")
        vals = np.asarray(da.transpose(*dims).values, dtype=float)
        for k in range(n_proc):
            want = region(data["targets"][k], t6)
            got = vals[k] if k < vals.shape[0] else None
            if got is not None and got.ndim == want.ndim + 1 and got.shape[0] == 1:
                got = got[0]
            if got is None or not nan_equal(got, want):
                if case["multi"]:
                    mech = "C11:simulated-target:multi-readout:misaligned"
                elif is_shifted(case):
                    mech = "C11:simulated-target:shifted-2d:misaligned"
                else:
                    mech = "C11:simulated-target:single-readout:aligned-ranges:differs"
                if is_previous_content(case, data, k, got, t6):
                    mech = "C11:declared:file-rewritten-between-runs:previous-content-used:simulated-target"
                alarm(rec, mech, f"/simulated/target[processor={k}] differs from target file {k} restricted to {case['tfr']}: "
                                 f"got {None if got is None else np.asarray(got).ravel()[:6].tolist()} "
                                 f"expected {want.ravel()[:6].tolist()}", case, index)
                break
            rec.count("target_cells_compared", int(want.size))
    da = node(tree, "/full_size/target")
    same_shape = (case["trows"], case["tcols"]) == (case["rows"], case["cols"]) and \
                 (not case["multi"] or case["ttimes"] == len(case["times"]))
    if da is None:
        alarm(rec, "C11:full-size-target:missing", "node /full_size/target missing", case, index)
    elif not same_shape:
        rec.count("full_size_target_not_judged_shape_differs_from_detector")
    else:
        dims = ("processor", "readout_time", "y", "x") if "readout_time" in da.dims else ("processor", "y", "x")
        vals = np.asarray(da.transpose(*dims).values, dtype=float)
        for k in range(n_proc):
            want = data["targets"][k]
            got = vals[k] if k < vals.shape[0] else None
            if got is not None and got.ndim == want.ndim + 1 and got.shape[0] == 1:
                got = got[0]
            if got is None or not nan_equal(got, want):
                mech = f"C11:full-size-target:{ro_name(case)}:differs"
                if is_previous_content(case, data, k, got, None):
                    mech = "C11:declared:file-rewritten-between-runs:previous-content-used:full-size-target"
                alarm(rec, mech,
                      f"/full_size/target[processor={k}] (shape {None if got is None else got.shape}) is not the full target "
                      f"file {k} (shape {want.shape})", case, index)
                break
            rec.count("full_size_target_cells_compared", int(want.size))


def run_calib(rec, index, case: dict) -> None:
    import pyxel

    data, reuse = with_history(rec, index, case, f"c{index}")
    rec.count("calibration_cases")
    rec.observe("range_classes_calib", f"{ro_name(case)}:{case['cls']}")
    rec.observe("algorithms", case["algo"]["type"] + (":{nlopt_solver}:select-{nlopt_selection}:replace-{replacement}"
                                                      .format(**case["algo"]) if case["algo"]["type"] == "nlopt" else ""))
    log_reset()
    tree, exc = None, None
    try:
        cal, detector, pipeline = make_objects(case, data, reuse)
        tree = pyxel.run_mode(mode=cal, detector=detector, pipeline=pipeline, with_inherited_coords=case["inherited"])
    except Exception as e:  # noqa: BLE001
        exc = e
    calls = log_len()
    rec.count("probe_calls", calls)
    cls = case["cls"]
    if cls in INVALID_CLASSES:
        if tree is None and calls == 0:
            rec.count("invalid_ranges_rejected_before_evaluation")
            rec.count("invalid_ranges_rejected_by_run_mode")
            rec.observe("invalid_classes_rejected", f"{ro_name(case)}:{cls}")
        elif tree is None:
            judge_invalid(rec, case, "evaluation-raised", f"run_mode raised {short_exc(exc)} after {calls} probe call(s)", index)
        else:
            judge_invalid(rec, case, "value", f"run_mode optimised it with {calls} probe call(s)", index)
        rec.case(signature(case), True, sample=case)
        return
    if tree is None:
        if calls == 0:
            alarm(rec, refused_key(case), f"equal-extent in-bounds range pair result={case['rfr']} target={case['tfr']} "
                                          f"refused by run_mode: {short_exc(exc)}", case, index)
        elif case["algo"]["type"] == "nlopt" and "pagmo" in str(exc):
            # NLopt solvers may end an evolution on a point that pygmo refuses as the next initial guess
            # (one ulp beyond a boundary): a refusal of the library, outside the statement
            rec.count("nlopt_runs_refused_by_pygmo")
            rec.observe("refused", f"nlopt:{case['algo']['nlopt_solver']}: {short_exc(exc)[:120]}")
        else:
            mech = "C11:calibration:valid-configuration:run-raised"
            if case["fn"] == "reduced_chi_squared" and case["wk"] == "vector" and not region_is_full_detector(case):
                mech = "C11:weights:chi2-scalar-partial-range:crash"
            elif case["multi"] and len(case["rfr"]) == 4:
                mech = "C11:result:multi-readout:4-element-result-range:crash"
            alarm(rec, mech, f"run_mode raised {short_exc(exc)} after {calls} probe call(s) ({len(case['layout'])} calibrated "
                             f"parameter(s), {case['islands']} island(s))", case, index)
        rec.case(signature(case), True, sample=case)
        return
    rec.count("calibrations_finished")
    rec.count(f"algo_{case['algo']['type']}_finished")
    data["noise"] = resimulated_noise(rec, case)
    if data["noise"] is False:
        rec.case(signature(case), False)
        return
    if len(case["layout"]) == 1 and case["layout"][0]["name"] == "p":
        rec.count("single_parameter_calibrations")
    if is_shifted(case) or time_shifted(case):
        rec.count("valid_shifted_ranges_accepted")
    par = check_champions(rec, case, data, tree, index)
    if par is not None:
        check_nodes(rec, case, data, tree, par, index)
    rec.case(signature(case), True, sample=case)


# =============================================================================== plan / shards
def plan(tier, seed):
    specs, g_direct, g_calib = [], 7 * seed, 5 * seed
    for s in range(16):
        if tier == "quick":
            nd, nc, ne = 24, 5, 10
        else:
            nd, nc, ne = 150, 38, 6
        specs.append({"shard": s, "seed": seed, "kind": "mixed", "n": nd + nc, "n_direct": nd, "n_eval": ne,
                      "g_direct": g_direct, "g_calib": g_calib})
        g_direct += nd
        g_calib += nc
    return specs


def run_shard(spec, rec):
    nd = spec["n_direct"]
    for i in range(spec["n"]):
        if not rec.wanted(i):
            continue
        rng = rec.rng(i)
        if i < nd:
            run_direct(rec, i, gen_case(rng, "direct", spec["g_direct"] + i), rng, spec["n_eval"])
        else:
            run_calib(rec, i, gen_case(rng, "calib", spec["g_calib"] + i - nd))


def finalize(counters, sets, tier):
    out = []
    fmts = set(sets.get("target_formats", []))
    if not {"npy", "fits", "txt"} <= fmts:
        out.append(f"target formats compared: {sorted(fmts)} (npy, fits, txt expected)")
    if counters.get("noise_reference_failed"):
        out.append(f"{counters['noise_reference_failed']} stochastic case(s) not judged: the re-simulation in exposure mode "
                   f"with the declared seed failed {sorted(sets.get('noise_reference_exception', []))[:2]}")
    if counters.get("nlopt_runs_refused_by_pygmo", 0) > counters.get("algo_nlopt_finished", 0):
        out.append("more NLopt calibrations aborted by pygmo than finished")
    rejected = set(sets.get("invalid_classes_rejected", []))
    for need in ("single-readout:unequal", "single-readout:oob_target", "single-readout:oob_both"):
        if need not in rejected:
            out.append(f"no rejected range pair of class {need} was observed")
    return out


def coverage_extra(counters, sets, tier):
    return {"open_findings_reproduced": sorted(sets.get("open_findings", [])),
            "open_findings_text": {k: OPEN_FINDINGS[k] for k in sets.get("open_findings", []) if k in OPEN_FINDINGS},
            "exhaustive": False}

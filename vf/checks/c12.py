"""C12 -- a configuration file means what it says, and nonsense is refused.

Three monitors, all observing the real loader / classes / run_mode of the working tree:

(1) fidelity + parity.  Complete configuration documents are *generated* (dict -> YAML, key order
    shuffled at every level) over 4 detector types x 3 running modes.  After pyxel.loads / pyxel.load
    every setting that was written is read back through the public properties of the loaded objects
    and compared with the document (numpy expression strings are evaluated by the harness).  Then
    the YAML-built configuration and an equivalent configuration built from Python objects are both
    executed by pyxel.run_mode with probe models; the probe logs and every array of the results
    must be identical.
(2) refusal.  Documents (and Configuration objects) with 0 or >= 2 running modes / detectors.
(3) ranges.  RANGE_TABLE lists every validated detector quantity with the range the code base itself
    documents (error message / docstring; `src`).  Every field x value class x 4 routes
    (constructor, YAML, attribute assignment, observation sweep) is probed: an out-of-range value
    must be refused on every route (in a sweep no model may see it), an in-range or boundary value
    must be accepted and arrive.
(4) sessions.  Histories instead of single loads: several documents (independent ones, the same text twice) are
    loaded into one process, ONE loaded configuration is changed through public setters (readout / detector fields /
    model arguments and enabled flags / mode settings), further documents are loaded afterwards.  Then every
    configuration must pass monitor (1): the edited one holds file + edits and runs like Python-built objects that got
    the same edits, every other one (loaded before or after the edit) still holds exactly its file and runs like the
    objects built in Python from its file.  Stratified over readout form x edited part.
"""
from __future__ import annotations

import copy
import importlib
import math
import os
import pathlib

import numpy as np

from vf import build, probes

ID = "C12"
LEVEL = "exploration"
REGISTER = True
TECHNIQUE = ("runtime monitoring: generated YAML documents vs. read-back of every loaded setting; probe-model logs and "
             "result arrays of the YAML-built vs. the Python-built configuration, also for every configuration of a "
             "load / edit / load history in one process; documented-range table probed through "
             "constructor / YAML / setter / sweep with a field-recording probe model")
RULE = ("documents: 4 detector types x 3 modes, every detector field (optional ones present or absent), readout as list / "
        "scalar / numpy expression / file, outputs, observation parameters (lists, numpy expressions, vectors, strings, "
        "enabled flags, product/sequential), calibration templates with randomised settings, pipelines of probe models "
        "with arbitrary arguments, shuffled key order; sessions: 2-4 documents per process history (fresh / same text again, "
        "loaded before or after the edit), one configuration edited through its setters, strata readout form (omitted, list, "
        "expression, scalar, file, int list) x edited part (readout, detector, pipeline, mode) enumerated completely; refusal: 0 / 2 / 3 modes, 0 / 2 / 4 detectors; ranges: every "
        "RANGE_TABLE entry x value class x route (enumerated completely at both tiers, concrete values random). "
        "non-trivial = every case; distinct = distinct (detector, mode, readout form, document shape) resp. "
        "(field, class, route, value) signatures")
ASSUMPTIONS = [
    "custom observation mode and dask execution are not driven here (C05 / C07 own them)",
    "calibration documents are only loaded and compared, never run (C10 / C11 own running them)",
    "a range is demanded only where the code base documents it (error message of the constructor or of the setter); "
    "NaN counts as outside every documented closed or half-open range except for row / col, where no route refuses it",
    "WavelengthHandling.cut_off == cut_on is not probed (message says 'bigger', code accepts equality)",
    "omitted optional settings are not compared (the statement speaks of values written in the file); their effect is "
    "covered by the run parity with Python objects built without them",
    "in a session only one configuration is edited, and only with values its setters document as legal; a legal edit "
    "that is refused is counted (session_edit_refused), the range probes own that verdict",
]
REQUIRED_COUNTERS = ["docs_loaded", "docs_loaded_from_file", "settings_compared", "expr_settings_compared",
                     "parity_runs", "parity_arrays_compared", "parity_events_compared", "calibration_docs",
                     "refusal_cases", "refusal_refused", "range_probes", "range_invalid_refused",
                     "range_valid_accepted", "sweep_probe_events", "disabled_models_loaded",
                     "disabled_parameters_loaded", "sessions", "session_edits_applied", "session_edited_checked",
                     "session_bystanders_checked", "session_loaded_after_edit_checked", "session_parity_checks",
                     "session_bystanders_with_omitted_readout_run", "session_edited_file_loaded_again_untouched"]
TIMEOUT = {"quick": 600, "thorough": 3000}
LEVEL_TEXT = ("Exploration by runtime monitoring: generated documents are loaded by the real pyxel.loads / pyxel.load, every "
              "written setting is read back through public properties; YAML-built and Python-built configurations are run "
              "by the real run_mode and compared array by array and probe event by probe event; documents with the wrong "
              "number of modes / detectors must raise; the table of documented ranges is enumerated completely "
              "(field x value class x route) with random concrete values.")
LEVEL_NOTE = ("Trusted: PyYAML safe_dump (the document a user would write), numpy for evaluating expression strings, the "
              "probe models. The range table was transcribed from the error messages of pyxel/detectors/*.py.")

KINDS = ["ccd", "cmos", "mkid", "apd"]
MODES = ["exposure", "observation", "calibration"]
DET_CLASS = {"ccd": "CCD", "cmos": "CMOS", "mkid": "MKID", "apd": "APD"}
N_DOC_SHARDS, N_REFUSAL_SHARDS, N_RANGE_SHARDS = 10, 1, 5


def plan(tier, seed):
    n_doc = 30 if tier == "quick" else 600
    n_ref = 120 if tier == "quick" else 1500
    reps = 2 if tier == "quick" else 34
    specs = [{"shard": s, "seed": seed, "kind": "docs", "n": n_doc} for s in range(N_DOC_SHARDS)]
    specs += [{"shard": 20 + s, "seed": seed, "kind": "refusal", "n": n_ref} for s in range(N_REFUSAL_SHARDS)]
    total = len(all_triples())
    specs += [{"shard": 40 + s, "seed": seed, "kind": "ranges", "n": total * reps, "part": s,
               "parts": N_RANGE_SHARDS} for s in range(N_RANGE_SHARDS)]
    n_ses = len(session_strata()) * (4 if tier == "quick" else 80)
    specs += [{"shard": 60 + s, "seed": seed, "kind": "sessions", "n": n_ses, "part": s,
               "parts": N_SESSION_SHARDS} for s in range(N_SESSION_SHARDS)]
    return specs


# =============================================================================== probe model
def read_settings(detector) -> dict:
    """Every detector setting as a model sees it (public properties only)."""
    out = {}
    for part, names in (("geometry", ("row", "col", "total_thickness", "pixel_vert_size", "pixel_horz_size",
                                      "pixel_scale")),
                        ("environment", ("temperature", "wavelength")),
                        ("characteristics", ("quantum_efficiency", "charge_to_volt_conversion", "pre_amplification",
                                             "full_well_capacity", "adc_bit_resolution", "adc_voltage_range",
                                             "avalanche_gain", "pixel_reset_voltage", "common_voltage", "roic_gain"))):
        obj = getattr(detector, part)
        for name in names:
            try:
                val = getattr(obj, name)
            except (ValueError, AttributeError):
                val = "<unset>"
            if name == "wavelength" and not isinstance(val, (int, float, str)):
                val = {k: getattr(val, k, "<unset>") for k in ("cut_on", "cut_off", "resolution")}
            if isinstance(val, tuple):
                val = list(val)
            out[f"{part}.{name}"] = val
    return out


def fieldprobe(detector, **kw) -> None:
    """Probe model: log the settings and arguments actually seen; optionally encode them into pixel."""
    settings = read_settings(detector)
    probes.keep(detector)
    ev = {"kind": "field", "model": detector.current_running_model_name, "det": id(detector),
          "kwargs": copy.deepcopy(kw), "settings": settings}
    ev.update(probes.clock(detector))
    probes.emit(ev)
    if kw.get("write"):
        nums = [float(v) for v in settings.values() if isinstance(v, (int, float)) and not isinstance(v, bool)]
        for key in ("a", "b"):
            if isinstance(kw.get(key), (int, float)):
                nums.append(float(kw[key]))
        nums += [float(x) for x in kw.get("v") or [] if isinstance(x, (int, float))]
        nums.append(float(len(str(kw.get("s", "")))))
        shape = detector.geometry.shape
        arr = np.resize(np.array(nums, dtype=float), shape) + float(detector.pipeline_count)
        try:
            detector.pixel.array = detector.pixel.array + arr
        except ValueError:
            detector.pixel.array = arr
        detector.signal.array = arr * 0.5


# =============================================================================== small helpers
def is_num(x) -> bool:
    return isinstance(x, (int, float, np.integer, np.floating)) and not isinstance(x, (bool, np.bool_))


def same(a, b) -> bool:
    """Structural equality of a loaded value `a` and a written value `b` (NaN == NaN, list ~ tuple ~ array)."""
    if isinstance(b, bool) or isinstance(a, (bool, np.bool_)):
        return isinstance(a, (bool, np.bool_)) and isinstance(b, bool) and bool(a) == b
    if is_num(b):
        if not is_num(a):
            return False
        if isinstance(b, float) and math.isnan(b):
            return isinstance(a, (float, np.floating)) and math.isnan(a)
        return bool(a == b)
    if b is None or isinstance(b, str):
        return (a is None) if b is None else (isinstance(a, str) and a == b)
    if isinstance(b, (list, tuple)):
        if isinstance(a, np.ndarray):
            a = a.tolist()
        if not isinstance(a, (list, tuple)) or len(a) != len(b):
            return False
        return all(same(x, y) for x, y in zip(a, b))
    if isinstance(b, dict):
        try:
            keys = list(a)
        except TypeError:
            return False
        if sorted(map(str, keys)) != sorted(map(str, b)):
            return False
        return all(same(a[k], b[k]) for k in b)
    return bool(a == b)


def close_seq(a, b) -> bool:
    """Numeric sequences equal up to 1e-12 relative (expression strings evaluated twice by numpy)."""
    try:
        a = np.asarray(a, dtype=float).ravel()
        b = np.asarray(b, dtype=float).ravel()
    except (TypeError, ValueError):
        return False
    return a.shape == b.shape and bool(np.allclose(a, b, rtol=1e-12, atol=0.0))


def shuffled(obj, rng):
    """Same document, key order shuffled at every level (list order is meaningful and kept)."""
    if isinstance(obj, dict):
        keys = list(obj)
        rng.shuffle(keys)
        return {k: shuffled(obj[k], rng) for k in keys}
    if isinstance(obj, list):
        return [shuffled(x, rng) for x in obj]
    return obj


def eval_expr(expr: str) -> list:
    return np.asarray(eval(expr, {"numpy": np})).tolist()  # noqa: S307 - oracle: numpy itself, harness-generated text


def resolve_func(name: str):
    mod, attr = name.rsplit(".", 1)
    return getattr(importlib.import_module(mod), attr)


def rand_float(rng, lo, hi):
    style = rng.random()
    if style < 0.5:
        return rng.uniform(lo, hi)
    if style < 0.75:
        return float(round(rng.uniform(lo, hi), rng.randint(0, 3)))
    if lo > 0 and hi / lo > 100:
        return math.exp(rng.uniform(math.log(lo), math.log(hi)))
    return rng.uniform(lo, hi)


def maybe_int(rng, x):
    """Write a float as an int now and then (YAML users write `300`, not `300.0`)."""
    return int(round(x)) if rng.random() < 0.3 and round(x) >= 1 else x


# =============================================================================== document generator
def gen_detector(rng, kind, full=False) -> dict:
    def opt(p=0.8):
        return full or rng.random() < p

    geo = {"row": rng.randint(1, 6), "col": rng.randint(1, 6)}
    if opt():
        geo["total_thickness"] = maybe_int(rng, rand_float(rng, 0.5, 10000.0))
    if opt():
        geo["pixel_vert_size"] = maybe_int(rng, rand_float(rng, 0.01, 1000.0))
    if opt():
        geo["pixel_horz_size"] = maybe_int(rng, rand_float(rng, 0.01, 1000.0))
        if geo.get("pixel_vert_size") == geo["pixel_horz_size"]:
            geo["pixel_horz_size"] = geo["pixel_horz_size"] / 2 + 0.125
    if opt(0.5):
        geo["pixel_scale"] = rand_float(rng, 0.001, 1000.0)
    env = {}
    if opt(0.9):
        env["temperature"] = maybe_int(rng, rand_float(rng, 0.5, 1000.0))
    wl = rng.random()
    if wl < 0.3 and not full:
        pass
    elif wl < 0.65 or full:
        env["wavelength"] = maybe_int(rng, rand_float(rng, 1.0, 3000.0))
    else:
        cut_on = rand_float(rng, 50.0, 900.0)
        env["wavelength"] = {"cut_on": cut_on, "cut_off": cut_on + rand_float(rng, 1.0, 1500.0),
                             "resolution": rng.randint(1, 60)}
    ch = {}
    if opt():
        ch["quantum_efficiency"] = rng.choice([0.0, 1.0, 1, rng.random(), rng.random(), rng.random()])
    if opt():
        ch["full_well_capacity"] = maybe_int(rng, rand_float(rng, 1.0, 1.0e7))
    if opt():
        ch["adc_bit_resolution"] = rng.choice([4, 64, rng.randint(4, 64), rng.randint(8, 32)])
    if opt():
        a, b = rand_float(rng, -20.0, 20.0), rand_float(rng, -20.0, 20.0)
        if a == b:
            b = a + 1.0
        if rng.random() < 0.8 and a > b:
            a, b = b, a
        ch["adc_voltage_range"] = [maybe_int(rng, a) if a >= 1 else a, b]
    if kind == "apd":
        ch["roic_gain"] = rand_float(rng, 0.1, 2.0)
        combo = "gain+prv" if full else rng.choice(["gain+prv", "gain+cv", "prv+cv"])
        if combo == "gain+prv":
            ch["avalanche_gain"] = rng.choice([1.0, 1000.0, rand_float(rng, 1.0, 1000.0), rand_float(rng, 1.0, 50.0)])
            ch["pixel_reset_voltage"] = rand_float(rng, 1.0, 30.0)
        elif combo == "gain+cv":
            ch["avalanche_gain"] = rand_float(rng, 1.0, 1000.0)
            ch["common_voltage"] = rand_float(rng, -10.0, 10.0)
        else:
            ch["common_voltage"] = rand_float(rng, -10.0, 10.0)
            ch["pixel_reset_voltage"] = ch["common_voltage"] + rand_float(rng, 1.0, 20.0)
    else:
        if opt():
            ch["charge_to_volt_conversion"] = rng.choice([rand_float(rng, 1e-7, 1e-4), rand_float(rng, 1e-7, 100.0)])
        if opt():
            ch["pre_amplification"] = maybe_int(rng, rand_float(rng, 0.5, 10000.0))
    return {"kind": kind, "geometry": geo, "environment": env, "characteristics": ch}


def gen_readout(rng, tmp, idx, form=None):
    """-> (document dict or None, oracle dict, python kwargs for Readout).  `form` forces the way the times are written."""
    form = form or rng.choice(["omitted", "list", "list", "intlist", "expr", "expr", "expr", "scalar", "file"])
    if form == "omitted":
        return None, {"form": form, "times": [1.0], "n": 1}, {}
    doc, py = {}, {}
    if form in ("list", "intlist"):
        n = rng.randint(1, 4)
        if form == "intlist":
            ts = sorted(rng.sample(range(1, 60), n))
        else:
            ts = sorted({round(rng.uniform(0.5, 80.0), rng.randint(1, 6)) for _ in range(n)})
        doc["times"] = list(ts)
        py["times"] = list(ts)
    elif form == "expr":
        kind = rng.choice(["linspace", "arange", "logspace", "array", "linspace_int"])
        if kind == "linspace":
            expr = f"numpy.linspace({rng.randint(1, 5)}, {rng.randint(6, 40)}.5, {rng.randint(2, 4)})"
        elif kind == "linspace_int":
            expr = f"numpy.linspace({rng.randint(1, 3)}, {rng.randint(10, 20)}, {rng.randint(2, 4)}, dtype=int)"
        elif kind == "arange":
            expr = f"numpy.arange({rng.choice([0.5, 1, 1.25, 2])}, {rng.randint(4, 7)}, {rng.choice([1, 1.5, 2.25, 0.75 + rng.randint(1, 2)])})"
        elif kind == "logspace":
            expr = f"numpy.logspace(0, {rng.randint(1, 2)}, {rng.randint(2, 4)}) * 1.5"
        else:
            base = sorted({round(rng.uniform(0.5, 9.0), 3) for _ in range(rng.randint(1, 4))})
            expr = f"numpy.array({base!r}) * {rng.choice([1.5, 2.0, 0.3])}"
        ts = eval_expr(expr)
        doc["times"] = expr
        py["times"] = list(ts)      # the Python construction uses the *numbers* the expression denotes
        form = "expr:" + kind
    elif form == "scalar":
        ts = [rng.choice([rng.randint(1, 50), round(rng.uniform(0.5, 50.0), 3)])]
        doc["times"] = ts[0]
        py["times"] = ts[0]
    else:
        ts = sorted({round(rng.uniform(0.5, 80.0), 4) for _ in range(rng.randint(1, 4))})
        path = os.path.join(tmp, f"times_{idx}.npy")
        np.save(path, np.array(ts))
        doc["times_from_file"] = path
        py["times_from_file"] = path
    oracle = {"form": form, "times": [float(t) for t in ts], "n": len(ts)}
    if rng.random() < 0.6:
        first = float(ts[0])
        st = rng.choice([0.0, first / 2, first - rng.uniform(0.1, 5.0), -rng.uniform(0.5, 20.0), 0])
        if not st < first:
            st = first - 1.0
        doc["start_time"] = st
        py["start_time"] = st
        oracle["start_time"] = st
    if rng.random() < 0.7:
        nd = rng.random() < 0.5
        doc["non_destructive"] = nd
        py["non_destructive"] = nd
        oracle["non_destructive"] = nd
    return doc, oracle, py


def rand_value(rng, depth=0):
    kinds = ["int", "float", "str", "bool", "none", "list", "nested"] if depth < 2 else ["int", "float", "str", "bool"]
    kind = rng.choice(kinds)
    if kind == "int":
        return rng.randint(-1000, 1000)
    if kind == "float":
        return rng.choice([0.5, 1.25, -3.75, 1e-3, 2.5e6, 1.0e-12]) * rng.randint(1, 9)
    if kind == "str":
        return rng.choice(["alpha", "beta", "x y", "file.fits", "true-ish", "0x10", "a.b.c", "1e5", "null-ish", "~x"])
    if kind == "bool":
        return rng.random() < 0.5
    if kind == "none":
        return None
    if kind == "list":
        return [rand_value(rng, depth + 1) for _ in range(rng.randint(0, 3))]
    return {"k" + str(i): rand_value(rng, depth + 1) for i in range(rng.randint(1, 2))}


VOCAB = ["alpha.fits", "beta.fits", "gamma.npy", "delta", "eps ilon"]


def gen_pipeline(rng):
    """-> pipeline document {group: [model dict, ...] | None}; contains the enabled models `fp` (field probe that
    writes pixel/signal) and `imgw` (image written at every step)."""
    groups = rng.sample(build.GROUPS, rng.randint(2, 6))
    doc = {}
    counter = 0
    for group in groups:
        if rng.random() < 0.12:
            doc[group] = None
            continue
        models = []
        for _ in range(rng.randint(1, 2)):
            counter += 1
            m = {"name": f"m{counter}_{group[:6]}", "func": rng.choice(["vf.probes.trace", "vf.checks.c12.fieldprobe"])}
            r = rng.random()
            if r < 0.45:
                m["enabled"] = True
            elif r < 0.8:
                m["enabled"] = False
            r = rng.random()
            if r < 0.75:
                m["arguments"] = {"a" + str(i): rand_value(rng) for i in range(rng.randint(1, 3))}
            elif r < 0.85:
                m["arguments"] = None
            models.append(m)
        doc[group] = models
    real = [g for g in doc if doc[g] is not None] or [groups[0]]
    if doc.get(real[0]) is None:
        doc[real[0]] = []
    g_fp, g_img = rng.choice(real), rng.choice(real)
    fp = {"name": "fp", "func": "vf.checks.c12.fieldprobe", "enabled": True,
          "arguments": {"a": rng.randint(1, 9), "b": rng.choice([0.5, 2.25, 7.125]), "v": [1.0, 2.0, 3.0],
                        "s": rng.choice(VOCAB), "write": True}}
    doc[g_fp].insert(rng.randint(0, len(doc[g_fp])), fp)
    img = {"name": "imgw", "func": "vf.probes.writer",
           "arguments": {"plan": {"*": rng.choice([["image"], ["image", "photon"], ["image", "charge"]])},
                         "seed": rng.randint(0, 99)}}
    if rng.random() < 0.5:
        img["enabled"] = True
    doc[g_img].insert(rng.randint(0, len(doc[g_img])), img)
    return doc


def gen_outputs(rng, tmp, idx, light=True):
    if rng.random() < 0.55:
        return None
    doc = {"output_folder": os.path.join(tmp, f"out_{idx}")}
    if rng.random() < 0.5:
        doc["custom_dir_name"] = rng.choice(["foo_", "run-", "c12_"])
    r = rng.random()
    if r < 0.6:
        names = rng.sample(["detector.image.array", "detector.pixel.array", "detector.signal.array"], rng.randint(1, 2))
        doc["save_data_to_file"] = [{n: rng.sample(["npy", "fits"], rng.randint(1, 2))} for n in names]
    return doc


def gen_param_values(rng, key):
    """-> (written values, oracle list of values, is_expr)."""
    short = key.split(".")[-1]
    n = rng.randint(1, 3)
    if short == "v":
        vals = [[float(rng.randint(1, 50)), rng.choice([0.5, 1.5, 2.25]) * rng.randint(1, 9), float(rng.randint(-9, 9))]
                for _ in range(n)]
        return vals, vals, False
    if short == "s":
        vals = rng.sample(VOCAB, n)
        return vals, vals, False
    if short == "quantum_efficiency":
        if rng.random() < 0.4:
            expr = f"numpy.linspace({rng.choice([0, 0.1, 0.25])}, {rng.choice([0.7, 0.85, 1])}, {n})"
            return expr, eval_expr(expr), True
        vals = rng.sample([0.0, 0.1, 0.25, 0.5, 0.75, 1.0, 0.33], n)
        return vals, vals, False
    if short == "temperature":
        if rng.random() < 0.5:
            expr = f"numpy.linspace({rng.randint(50, 150)}, {rng.randint(160, 400)}.25, {n})"
            return expr, eval_expr(expr), True
        vals = rng.sample([77.0, 100, 150.5, 273.15, 300.0, 350.0], n)
        return vals, vals, False
    if short == "a":
        r = rng.random()
        if r < 0.3:
            a0, step = rng.randint(1, 9), rng.randint(1, 3)
            expr = f"numpy.arange({a0}, {a0 + n * step}, {step})"
            return expr, eval_expr(expr), True
        if r < 0.45:
            expr = f"numpy.linspace({rng.randint(1, 4)}, {rng.randint(10, 30)}, {n}, dtype=int)"
            return expr, eval_expr(expr), True
        vals = rng.sample(range(10, 60), n)
        return vals, vals, False
    r = rng.random()
    if r < 0.25:
        expr = f"numpy.logspace(-1, {rng.randint(0, 2)}, {n}) * 3"
        return expr, eval_expr(expr), True
    if r < 0.5:
        expr = f"numpy.array({[round(rng.uniform(-9, 9), 3) for _ in range(n)]!r}) / 3"
        return expr, eval_expr(expr), True
    vals = rng.sample([0.125, 0.75, 1.5, 2.25, 10.5, 33.0, -4.5], n)
    return vals, vals, False


def gen_parameters(rng, pdoc, dspec):
    g_fp = next(g for g, ms in pdoc.items() if ms and any(m["name"] == "fp" for m in ms))
    keys = [f"pipeline.{g_fp}.fp.arguments.{a}" for a in ("a", "b", "v", "s")]
    if "temperature" in dspec["environment"]:
        keys.append("detector.environment.temperature")
    if "quantum_efficiency" in dspec["characteristics"]:
        keys.append("detector.characteristics.quantum_efficiency")
    chosen = rng.sample(keys, rng.randint(1, 3))
    params, oracle = [], []
    for j, key in enumerate(chosen):
        written, vals, is_expr = gen_param_values(rng, key)
        p = {"key": key, "values": written}
        enabled = True
        r = rng.random()
        if j > 0 and r < 0.35:
            p["enabled"] = enabled = False
        elif r < 0.7:
            p["enabled"] = True
        if rng.random() < 0.15:
            p["logarithmic"] = rng.random() < 0.5
        params.append(p)
        oracle.append({"key": key, "values": vals, "enabled": enabled, "expr": is_expr})
    return params, oracle


def write_target(tmp, idx, rows, cols, rng):
    path = os.path.join(tmp, f"target_{idx}.npy")
    np.save(path, np.arange(rows * cols, dtype=float).reshape(rows, cols) + rng.random())
    return path


def gen_calibration(rng, tmp, idx, dspec, pdoc):
    rows, cols = dspec["geometry"]["row"], dspec["geometry"]["col"]
    g_fp = next(g for g, ms in pdoc.items() if ms and any(m["name"] == "fp" for m in ms))
    cal = {"target_data_path": [write_target(tmp, f"{idx}t{j}", rows, cols, rng)
                                for j in range(rng.randint(1, 2))]}
    ff = {"func": "pyxel.calibration.fitness." + rng.choice(["sum_of_abs_residuals", "sum_of_squared_residuals",
                                                               "reduced_chi_squared"])}
    if ff["func"].endswith("reduced_chi_squared"):
        ff["arguments"] = {"free_parameters": rng.randint(1, 5)}
    elif rng.random() < 0.5:
        ff["arguments"] = None
    cal["fitness_function"] = ff
    typ = rng.choice(["sade", "sga", "nlopt"])
    alg = {"type": typ, "generations": rng.randint(1, 500), "population_size": rng.randint(1, 300)}
    if typ == "sade":
        alg.update({"variant": rng.randint(1, 18), "variant_adptv": rng.randint(1, 2),
                    "ftol": rng.choice([1e-6, 1e-9, 0.0]), "xtol": rng.choice([1e-6, 1e-3]), "memory": rng.random() < 0.5})
    elif typ == "sga":
        alg.update({"cr": round(rng.random(), 3), "eta_c": rng.choice([1.0, 2.5, 10.0]), "m": round(rng.random(), 3),
                    "param_m": rng.choice([1.0, 20.0]), "param_s": rng.randint(1, 5),
                    "crossover": rng.choice(["single", "exponential", "binomial", "sbx"]),
                    "mutation": rng.choice(["uniform", "gaussian", "polynomial"]),
                    "selection": rng.choice(["tournament", "truncated"])})
    else:
        alg.update({"nlopt_solver": rng.choice(["cobyla", "bobyqa", "neldermead", "sbplx", "praxis"]),
                    "maxtime": rng.randint(0, 100), "maxeval": rng.randint(0, 1000),
                    "xtol_rel": rng.choice([1e-8, 1e-4]), "xtol_abs": rng.choice([0.0, 1e-9]),
                    "ftol_rel": rng.choice([0.0, 1e-7]), "ftol_abs": rng.choice([0.0, 1e-10]),
                    "stopval": rng.choice([-1.0e30, 0.0, 12.5]),
                    "replacement": rng.choice(["best", "worst", "random"]),
                    "nlopt_selection": rng.choice(["best", "worst", "random"])})
    for k in [k for k in alg if k not in ("type",)]:
        if rng.random() < 0.25:
            del alg[k]
    cal["algorithm"] = alg
    params = []
    for key in rng.sample([f"pipeline.{g_fp}.fp.arguments.a", f"pipeline.{g_fp}.fp.arguments.b",
                           f"pipeline.{g_fp}.fp.arguments.v", "detector.characteristics.quantum_efficiency"],
                          rng.randint(1, 3)):
        if key.endswith(".v"):
            if rng.random() < 0.5:
                p = {"key": key, "values": ["_", "_", "_"], "boundaries": [rng.uniform(-5, 0), rng.uniform(1, 9)]}
            else:
                p = {"key": key, "values": ["_", "_", "_"],
                     "boundaries": [[rng.uniform(0.1, 1), rng.uniform(2, 9)] for _ in range(3)]}
        elif key.endswith("quantum_efficiency"):
            p = {"key": key, "values": "_", "boundaries": [round(rng.uniform(0.01, 0.4), 4), round(rng.uniform(0.5, 1.0), 4)]}
        else:
            p = {"key": key, "values": "_", "boundaries": [rng.uniform(0.001, 1.0), rng.uniform(2.0, 500.0)]}
        if rng.random() < 0.6:
            p["logarithmic"] = bool(rng.random() < 0.5 and float(min(np.ravel(p["boundaries"]))) > 0)
        if rng.random() < 0.3:
            p["enabled"] = rng.random() < 0.7
        params.append(p)
    cal["parameters"] = params
    opt = {
        "mode": lambda: rng.choice(["pipeline", "single_model"]),
        "result_type": lambda: rng.choice(["image", "signal", "pixel"]),
        "result_fit_range": lambda: [0, rng.randint(1, rows), 0, rng.randint(1, cols)],
        "target_fit_range": lambda: [0, rng.randint(1, rows), 0, rng.randint(1, cols)],
        "pygmo_seed": lambda: rng.randint(0, 100000),
        "pipeline_seed": lambda: rng.randint(0, 2**31),
        "num_islands": lambda: rng.randint(1, 8),
        "num_evolutions": lambda: rng.randint(1, 30),
        "num_best_decisions": lambda: rng.randint(0, 10),
        "topology": lambda: rng.choice(["unconnected", "ring", "fully_connected"]),
        "type_islands": lambda: rng.choice(["multiprocessing", "multithreading", "ipyparallel"]),
    }
    for k, f in opt.items():
        if rng.random() < 0.7:
            cal[k] = f()
    r = rng.random()
    if r < 0.25:
        cal["weights"] = [round(rng.uniform(0.1, 3.0), 3) for _ in cal["target_data_path"]]
    elif r < 0.5:
        cal["weights_from_file"] = [write_target(tmp, f"{idx}w{j}", rows, cols, rng)
                                    for j in range(len(cal["target_data_path"]))]
    if rng.random() < 0.3:
        cal["result_input_arguments"] = [{"key": f"pipeline.{g_fp}.fp.arguments.a", "values": [rng.randint(1, 9)]}]
    return cal


def gen_document(rng, kind, mode, tmp, idx, readout_form=None):
    dspec = gen_detector(rng, kind)
    pdoc = gen_pipeline(rng)
    rdoc, roracle, rpy = gen_readout(rng, tmp, idx, readout_form)
    doc = {build.DETECTOR_KEYS[kind]: {k: copy.deepcopy(dspec[k]) for k in ("geometry", "environment", "characteristics")},
           "pipeline": copy.deepcopy(pdoc)}
    oracle = {"kind": kind, "mode": mode, "readout": roracle, "readout_py": rpy, "dspec": dspec}
    if mode == "calibration":
        mdoc = gen_calibration(rng, tmp, idx, dspec, pdoc)
    elif mode == "observation":
        params, poracle = gen_parameters(rng, pdoc, dspec)
        mdoc = {"parameters": params}
        oracle["parameters"] = poracle
        if rng.random() < 0.6:
            mdoc["mode"] = rng.choice(["product", "sequential"])
        if rng.random() < 0.3:
            mdoc["with_dask"] = False
    else:
        mdoc = {}
    if rdoc is not None:
        mdoc["readout"] = rdoc
    out = gen_outputs(rng, tmp, idx)
    if out is not None:
        mdoc["outputs"] = out
    if mode != "calibration":
        if rng.random() < 0.4:
            mdoc["result_type"] = rng.choice(["all", "all", "image", "pixel", "signal"])
        if rng.random() < 0.4:
            mdoc["pipeline_seed"] = rng.randint(0, 2**31)
    if rng.random() < 0.12:
        wd = os.path.join(tmp, f"wd_{idx}")
        os.makedirs(wd, exist_ok=True)
        mdoc["working_directory"] = wd
    if mode == "exposure" and not mdoc and rng.random() < 0.5:
        mdoc = None
    doc[mode] = mdoc
    return doc, oracle


# =============================================================================== fidelity comparison
SKIP = object()


def private(obj, *names):
    """Settings without a public reader: read the private attribute when it exists, otherwise skip (counted)."""
    for n in names:
        if hasattr(obj, n):
            return getattr(obj, n)
    return SKIP


class Cmp:
    def __init__(self, rec, case, index, tag=""):
        self.rec, self.case, self.index, self.tag = rec, case, index, tag
        self.ok = True

    def fail(self, what, detail):
        self.ok = False
        self.rec.violation(f"C12:{self.tag}fidelity:{what}", detail, self.case, self.index)

    def value(self, what, getter, written, expr=False, seq_close=False):
        self.rec.count("settings_compared")
        if expr:
            self.rec.count("expr_settings_compared")
        try:
            loaded = getter()
        except Exception as exc:  # noqa: BLE001
            self.fail(f"{what}:unreadable", f"written {written!r}, reading the loaded setting raised {type(exc).__name__}: {exc}")
            return
        if loaded is SKIP:
            self.rec.count("settings_skipped_no_public_reader")
            return
        good = close_seq(loaded, written) if seq_close else same(loaded, written)
        if not good:
            self.fail(f"{what}:differs", f"document says {written!r}, loaded object holds {loaded!r}")


def compare_detector(c, det, ddoc):
    for f, v in ddoc["geometry"].items():
        c.value(f"detector.geometry.{f}", lambda f=f: getattr(det.geometry, f), v)
    for f, v in ddoc["environment"].items():
        if f == "wavelength" and isinstance(v, dict):
            for sub, sv in v.items():
                c.value(f"detector.environment.wavelength.{sub}", lambda sub=sub: getattr(det.environment.wavelength, sub), sv)
        else:
            c.value(f"detector.environment.{f}", lambda f=f: getattr(det.environment, f), v)
    for f, v in ddoc["characteristics"].items():
        c.value(f"detector.characteristics.{f}", lambda f=f: getattr(det.characteristics, f), v)


def compare_readout(c, readout, rdoc, roracle):
    if rdoc is None:
        return
    expr = roracle["form"].startswith("expr")
    if "times" in rdoc or "times_from_file" in rdoc:
        c.value("readout.times", lambda: readout.times, roracle["times"], expr=expr, seq_close=True)
    if "start_time" in rdoc:
        c.value("readout.start_time", lambda: readout.start_time, rdoc["start_time"])
    if "non_destructive" in rdoc:
        c.value("readout.non_destructive", lambda: readout.non_destructive, rdoc["non_destructive"])


def compare_outputs(c, outputs, odoc):
    if odoc is None:
        return
    c.value("outputs.output_folder", lambda: str(outputs.output_folder), str(pathlib.Path(odoc["output_folder"])))
    if "custom_dir_name" in odoc:
        c.value("outputs.custom_dir_name", lambda: outputs.custom_dir_name, odoc["custom_dir_name"])
    if "save_data_to_file" in odoc:
        c.value("outputs.save_data_to_file", lambda: [dict(d) for d in outputs.save_data_to_file], odoc["save_data_to_file"])


def compare_parameters(c, loaded_params, pdocs, oracles, prefix):
    c.value(f"{prefix}.parameters.count", lambda: len(loaded_params), len(pdocs))
    for j, (pd, po) in enumerate(zip(pdocs, oracles)):
        if j >= len(loaded_params):
            break
        lp = loaded_params[j]
        c.value(f"{prefix}.parameters.key", lambda lp=lp: lp.key, pd["key"])
        if po is not None:
            numeric = all(is_num(v) for v in po["values"])
            c.value(f"{prefix}.parameters.values", lambda lp=lp: list(lp), po["values"], expr=po["expr"],
                    seq_close=numeric and po["expr"])
        else:
            c.value(f"{prefix}.parameters.values", lambda lp=lp: lp.values, pd["values"])
        if "enabled" in pd:
            c.value(f"{prefix}.parameters.enabled", lambda lp=lp: lp.enabled, pd["enabled"])
            if pd["enabled"] is False:
                c.rec.count("disabled_parameters_loaded")
        if "logarithmic" in pd:
            c.value(f"{prefix}.parameters.logarithmic", lambda lp=lp: lp.logarithmic, bool(pd["logarithmic"]))
        if "boundaries" in pd:
            c.value(f"{prefix}.parameters.boundaries", lambda lp=lp: lp.boundaries, pd["boundaries"])


def compare_pipeline(c, pipeline, pdoc):
    for group in build.GROUPS:
        models = pdoc.get(group)
        if not models:
            c.rec.count("settings_compared")
            try:
                grp = getattr(pipeline, group)
            except Exception as exc:  # noqa: BLE001
                c.fail("pipeline.group:unreadable", f"{group}: {type(exc).__name__}: {exc}")
                continue
            if grp is not None and len(list(grp.models)) > 0:
                c.fail("pipeline.group:unexpected-models", f"group {group} is not in the document but holds {grp!r}")
            continue
        try:
            loaded = list(getattr(pipeline, group).models)
        except Exception as exc:  # noqa: BLE001
            c.fail("pipeline.group:unreadable", f"{group}: {type(exc).__name__}: {exc}")
            continue
        c.value("pipeline.group.model-names", lambda: [m.name for m in loaded], [m["name"] for m in models])
        for lm, m in zip(loaded, models):
            c.value("pipeline.model.func", lambda: lm.func is resolve_func(m["func"]), True)
            if "enabled" in m:
                c.value("pipeline.model.enabled", lambda: lm.enabled, m["enabled"])
                if m["enabled"] is False:
                    c.rec.count("disabled_models_loaded")
            if m.get("arguments"):
                c.value("pipeline.model.arguments", lambda: {k: lm.arguments[k] for k in lm.arguments}, m["arguments"])


def compare_calibration(c, cal, cdoc):
    simple = ["pygmo_seed", "pipeline_seed", "num_islands", "num_evolutions", "num_best_decisions", "topology",
              "weights"]
    for k in simple:
        if k in cdoc:
            c.value(f"calibration.{k}", lambda k=k: getattr(cal, k), cdoc[k])
    if "mode" in cdoc:
        c.value("calibration.mode", lambda: cal.calibration_mode.value, cdoc["mode"])
    if "result_type" in cdoc:
        c.value("calibration.result_type", lambda: str(cal.result_type), cdoc["result_type"])
    for k in ("result_fit_range", "target_fit_range"):
        if k in cdoc:
            c.value(f"calibration.{k}", lambda k=k: list(getattr(cal, k)), cdoc[k])
    c.value("calibration.target_data_path", lambda: [str(p) for p in cal.target_data_path],
            [str(pathlib.Path(p).resolve()) for p in cdoc["target_data_path"]])
    if "weights_from_file" in cdoc:
        c.value("calibration.weights_from_file", lambda: [str(p) for p in cal.weights_from_file],
                [str(pathlib.Path(p).resolve()) for p in cdoc["weights_from_file"]])
    if "type_islands" in cdoc:
        def islands():
            v = private(cal, "type_islands", "_type_islands")
            return v if v is SKIP else getattr(v, "value", v)
        c.value("calibration.type_islands", islands, cdoc["type_islands"])
    alg = cdoc["algorithm"]
    for k, v in alg.items():
        if k == "type":
            c.value("calibration.algorithm.type", lambda: cal.algorithm.type.value, v)
        else:
            c.value(f"calibration.algorithm.{k}", lambda k=k: getattr(cal.algorithm, k), v)
    ff = cdoc["fitness_function"]
    def fit_func():
        v = private(cal.fitness_function, "func", "_func")
        return v if v is SKIP else v is resolve_func(ff["func"])
    c.value("calibration.fitness_function.func", fit_func, True)
    if ff.get("arguments"):
        def fit_args():
            v = private(cal.fitness_function, "arguments", "_arguments")
            return v if v is SKIP else dict(v)
        c.value("calibration.fitness_function.arguments", fit_args, ff["arguments"])
    compare_parameters(c, list(cal.parameters), cdoc["parameters"], [None] * len(cdoc["parameters"]), "calibration")
    if "result_input_arguments" in cdoc:
        ria = cdoc["result_input_arguments"]
        compare_parameters(c, list(cal.result_input_arguments), ria,
                           [{"values": p["values"], "expr": False} for p in ria], "calibration.result_input_arguments")


def compare_config(rec, cfg, doc, oracle, case, index, tag="") -> bool:
    c = Cmp(rec, case, index, tag)
    kind, mode = oracle["kind"], oracle["mode"]
    dkey = build.DETECTOR_KEYS[kind]
    for k in KINDS:
        other = getattr(cfg, build.DETECTOR_KEYS[k], "<missing>")
        if (k == kind) != (other is not None):
            c.fail("detector-slot", f"{build.DETECTOR_KEYS[k]} is {other!r} for a document with {dkey}")
    for m in MODES:
        other = getattr(cfg, m, "<missing>")
        if (m == mode) != (other is not None):
            c.fail("mode-slot", f"{m} is {other!r} for a document with {mode}")
    if not c.ok:
        return False
    det = getattr(cfg, dkey)
    c.value("detector.type", lambda: type(det).__name__, DET_CLASS[kind])
    c.value("configuration.detector", lambda: cfg.detector is det, True)
    run = getattr(cfg, mode)
    c.value("configuration.running_mode", lambda: cfg.running_mode is run, True)
    c.value("mode.type", lambda: type(run).__name__, mode.capitalize())
    compare_detector(c, det, doc[dkey])
    compare_pipeline(c, cfg.pipeline, doc["pipeline"])
    mdoc = doc[mode] or {}
    compare_readout(c, run.readout, mdoc.get("readout"), oracle["readout"])
    compare_outputs(c, run.outputs, mdoc.get("outputs"))
    if "working_directory" in mdoc:
        c.value("mode.working_directory", lambda: str(run.working_directory), str(pathlib.Path(mdoc["working_directory"])))
    if mode in ("exposure", "observation"):
        if "result_type" in mdoc:
            c.value("mode.result_type", lambda: str(run.result_type), mdoc["result_type"])
        if "pipeline_seed" in mdoc:
            c.value("mode.pipeline_seed", lambda: run.pipeline_seed, mdoc["pipeline_seed"])
    if mode == "observation":
        compare_parameters(c, list(run.parameter_mode.parameters), mdoc["parameters"], oracle["parameters"], "observation")
        if "mode" in mdoc:
            def obs_mode():
                name = type(run.parameter_mode).__name__
                return {"ProductMode": "product", "SequentialMode": "sequential", "CustomMode": "custom"}.get(name, SKIP)
            c.value("observation.mode", obs_mode, mdoc["mode"])
        if "with_dask" in mdoc:
            c.value("observation.with_dask", lambda: run.with_dask, mdoc["with_dask"])
    if mode == "calibration":
        rec.count("calibration_docs")
        compare_calibration(c, run, mdoc)
    return c.ok


# =============================================================================== Python construction + parity
def py_detector(dspec):
    from pyxel.detectors.environment import WavelengthHandling
    spec = copy.deepcopy(dspec)
    wl = spec["environment"].get("wavelength")
    if isinstance(wl, dict):
        spec["environment"]["wavelength"] = WavelengthHandling(**wl)
    return build.make_detector(spec)


def py_pipeline(pdoc):
    from pyxel.pipelines import DetectionPipeline, ModelFunction
    kwargs = {}
    for group, models in pdoc.items():
        if models is None:
            continue
        kwargs[group] = [ModelFunction(func=m["func"], name=m["name"],
                                       **({"arguments": copy.deepcopy(m["arguments"])} if m.get("arguments") else {}),
                                       **({"enabled": m["enabled"]} if "enabled" in m else {}))
                         for m in models]
    return DetectionPipeline(**kwargs)


def py_mode(doc, oracle):
    from pyxel.exposure import Exposure, Readout
    from pyxel.observation import Observation, ParameterValues
    from pyxel.outputs import ExposureOutputs, ObservationOutputs
    mode = oracle["mode"]
    mdoc = doc[mode] or {}
    kw = {k: mdoc[k] for k in ("result_type", "pipeline_seed", "working_directory") if k in mdoc}
    readout = Readout(**copy.deepcopy(oracle["readout_py"]))
    if mode == "exposure":
        if "outputs" in mdoc:
            kw["outputs"] = ExposureOutputs(**copy.deepcopy(mdoc["outputs"]))
        return Exposure(readout=readout, **kw)
    params = []
    for pd, po in zip(mdoc["parameters"], oracle["parameters"]):
        extra = {k: pd[k] for k in ("enabled", "logarithmic") if k in pd}
        params.append(ParameterValues(key=pd["key"], values=copy.deepcopy(po["values"]), **extra))
    if "outputs" in mdoc:
        kw["outputs"] = ObservationOutputs(**copy.deepcopy(mdoc["outputs"]))
    for k in ("mode", "with_dask"):
        if k in mdoc:
            kw[k] = mdoc[k]
    return Observation(parameters=params, readout=readout, **kw)


def tree_arrays(tree) -> dict:
    out = {}
    for node in tree.subtree:
        if node.path == "/output" or node.path.startswith("/output/"):
            continue  # names of the files written: legitimately differ between two runs
        for name, var in list(node.data_vars.items()) + list(node.coords.items()):
            out[f"{node.path}:{name}"] = np.asarray(var.values)
    return out


def arrays_equal(a, b) -> bool:
    if a.shape != b.shape or a.dtype != b.dtype:
        return False
    try:
        return bool(np.array_equal(a, b, equal_nan=True))
    except TypeError:
        return bool(np.array_equal(a, b))


def norm_events(evs):
    out = []
    for e in evs:
        out.append({k: v for k, v in e.items() if k not in ("seq", "pid", "tid", "det", "buckets")})
    return out


def run_once(mode, detector, pipeline):
    import pyxel
    probes.reset()
    tree = pyxel.run_mode(mode=mode, detector=detector, pipeline=pipeline, with_inherited_coords=True)
    return tree_arrays(tree), norm_events(probes.events())


def parity(rec, cfg, doc, oracle, case, index, tag="", edits=()):
    """`edits`: changes already made to `cfg` through its public setters; the Python-built objects get the same ones."""
    mode = oracle["mode"]
    mech = f"C12:{tag}parity:{mode}"
    try:
        arrays_y, events_y = run_once(getattr(cfg, mode), cfg.detector, cfg.pipeline)
    except Exception as exc:  # noqa: BLE001
        import traceback
        rec.violation(f"{mech}:yaml-run-failed", f"{type(exc).__name__}: {exc} :: {traceback.format_exc()[-700:]}", case, index)
        return
    try:
        py_objects = (py_mode(doc, oracle), py_detector(oracle["dspec"]), py_pipeline(doc["pipeline"]))
        for ed in edits:
            apply_edit(ed, *py_objects)
        arrays_p, events_p = run_once(*py_objects)
    except Exception as exc:  # noqa: BLE001
        import traceback
        rec.violation(f"{mech}:python-run-failed-yaml-run-succeeded",
                      f"{type(exc).__name__}: {exc} :: {traceback.format_exc()[-700:]}", case, index)
        return
    rec.count("parity_runs")
    rec.count("parity_events_compared", len(events_p))
    if len(events_y) != len(events_p):
        rec.violation(f"{mech}:model-calls-differ",
                      f"YAML-built run made {len(events_y)} probe-model calls {[e['model'] for e in events_y][:30]}, "
                      f"Python-built {len(events_p)} {[e['model'] for e in events_p][:30]}", case, index)
        return
    for j, (ey, ep) in enumerate(zip(events_y, events_p)):
        if not same(ey, ep):
            diff = {k: (ey.get(k), ep.get(k)) for k in set(ey) | set(ep) if not same(ey.get(k), ep.get(k))}
            rec.violation(f"{mech}:model-call-differs", f"probe call #{j} ({ep.get('model')}): yaml vs python {diff}", case, index)
            return
    if sorted(arrays_y) != sorted(arrays_p):
        rec.violation(f"{mech}:result-layout-differs",
                      f"only yaml: {sorted(set(arrays_y) - set(arrays_p))[:8]} only python: {sorted(set(arrays_p) - set(arrays_y))[:8]}",
                      case, index)
        return
    for name in arrays_p:
        rec.count("parity_arrays_compared")
        if not arrays_equal(arrays_y[name], arrays_p[name]):
            rec.violation(f"{mech}:result-differs", f"{name}: yaml-built {arrays_y[name].ravel()[:8]!r} "
                          f"python-built {arrays_p[name].ravel()[:8]!r}", case, index)
            return
    if not events_p:
        rec.count("parity_runs_without_probe_calls")


def docs_case(rec, i, rng, shard):
    import pyxel
    kind = KINDS[(i + shard) % 4]
    mode = MODES[((i + shard) // 4) % 3]
    doc, oracle = gen_document(rng, kind, mode, rec.tmp, f"{shard}_{i}")
    text = build.dump_yaml(shuffled(doc, rng))
    case = {"yaml": text, "kind": kind, "mode": mode, "readout_form": oracle["readout"]["form"]}
    mdoc = doc[mode] or {}
    sig = (kind, mode, oracle["readout"]["form"], sorted(mdoc), sorted(doc["pipeline"]),
           sorted(doc[build.DETECTOR_KEYS[kind]]["geometry"]), sorted(doc[build.DETECTOR_KEYS[kind]]["characteristics"]),
           sorted(doc[build.DETECTOR_KEYS[kind]]["environment"]))
    from_file = rng.random() < 0.35
    try:
        if from_file:
            path = os.path.join(rec.tmp, f"doc_{shard}_{i}.yaml")
            with open(path, "w") as fh:
                fh.write(text)
            cfg = pyxel.load(path if rng.random() < 0.5 else pathlib.Path(path))
            rec.count("docs_loaded_from_file")
        else:
            cfg = pyxel.loads(text)
    except Exception as exc:  # noqa: BLE001
        import traceback
        rec.violation(f"C12:fidelity:valid-document-refused:{mode}", f"{type(exc).__name__}: {exc} :: "
                      f"{traceback.format_exc()[-600:]}", case, i)
        rec.case(sig, True)
        return
    rec.count("docs_loaded")
    rec.observe("doc_combinations", f"{kind}/{mode}")
    rec.observe("readout_forms", oracle["readout"]["form"])
    ok = compare_config(rec, cfg, doc, oracle, case, i)
    if ok and mode != "calibration":
        parity(rec, cfg, doc, oracle, case, i)
    rec.case(sig, True, sample={"kind": kind, "mode": mode, "yaml": text[:1500]})


# =============================================================================== sessions: histories of loads and edits
# The statement quantifies over *every* loaded configuration, also when other configurations live in the same
# process and are changed "later ... through [their] attribute".  A session loads several documents (independent
# ones, variants of one kind, the same text twice), changes ONE loaded configuration through public setters, loads
# further documents afterwards, and then demands of every configuration what is demanded of a single load:
# the edited one holds file + edits and runs like Python-built objects that got the same edits, every other one
# still holds exactly its file and runs like the objects built in Python from its file.
SESSION_FORMS = ["omitted", "list", "expr", "scalar", "file", "intlist"]
SESSION_EDITS = ["readout", "detector", "pipeline", "mode"]
N_SESSION_SHARDS = 6
EDITABLE_FIELDS = {"geometry": ["total_thickness", "pixel_vert_size", "pixel_horz_size", "pixel_scale"],
                   "environment": ["temperature", "wavelength"],
                   "characteristics": ["quantum_efficiency", "full_well_capacity", "adc_bit_resolution", "adc_voltage_range",
                                       "charge_to_volt_conversion", "pre_amplification"]}


def session_strata():
    return [f"{f}/{t}" for t in SESSION_EDITS for f in SESSION_FORMS]


def gen_readout_edits(rng, roracle):
    """1-3 changes of a loaded Readout that its setters document as legal (first time > start time, increasing)."""
    times = list(roracle["times"])
    start = float(roracle.get("start_time", 0.0))
    nd = bool(roracle.get("non_destructive", False))
    what = rng.choice([["times"], ["times"], ["non_destructive"], ["start_time"], ["times", "non_destructive"],
                       ["times", "non_destructive"], ["times", "start_time"], ["times", "start_time", "non_destructive"]])
    edits = []
    for w in what:
        if w == "times":
            n = rng.randint(1, 4)
            first = max(start, 0.0) + round(rng.uniform(0.5, 10.0), rng.randint(0, 3)) + (0.25 if rng.random() < 0.5 else 0.0)
            if rng.random() < 0.3:
                first = float(math.ceil(first))
            times = [first]
            for _ in range(n - 1):
                times.append(times[-1] + rng.choice([1.0, 0.5, 2.5, round(rng.uniform(0.1, 20.0), 2)]))
            integral = all(float(t).is_integer() for t in times)
            as_ = rng.choice(["list", "list", "array"] + (["scalar"] if n == 1 else []) + (["intlist"] if integral else []))
            value = times[0] if as_ == "scalar" else ([int(t) for t in times] if as_ == "intlist" else list(times))
            edits.append({"path": ["readout", "times"], "value": value, "as": as_})
        elif w == "start_time":
            first = float(times[0])
            st = rng.choice([0.0, first / 2, first - rng.uniform(0.1, 5.0), -rng.uniform(0.5, 20.0)])
            if not st < first or st == start:
                st = first - 1.5
            start = st
            edits.append({"path": ["readout", "start_time"], "value": st})
        else:
            nd = (not nd) if rng.random() < 0.8 else nd
            edits.append({"path": ["readout", "non_destructive"], "value": nd})
    return edits


def gen_detector_edits(rng, kind, ddoc):
    fresh = gen_detector(rng, kind, full=True)       # in-range values of the same generator
    cands = []
    for part, fields in EDITABLE_FIELDS.items():
        for f in fields:
            if f not in fresh[part]:
                continue
            if f == "wavelength" and isinstance(ddoc["environment"].get("wavelength"), dict):
                continue
            cands.append((part, f))
    chosen = rng.sample(cands, rng.randint(1, 3))
    return [{"path": ["detector", part, f], "value": fresh[part][f]} for part, f in chosen]


def gen_pipeline_edits(rng, pdoc):
    cands = []
    for group, models in pdoc.items():
        for m in models or []:
            if m["name"] == "fp":
                cands += [("arg", group, m, "a"), ("arg", group, m, "b"), ("arg", group, m, "s"), ("arg", group, m, "v")]
            elif m["name"] != "imgw":
                cands.append(("enabled", group, m, None))
                for k in m.get("arguments") or {}:
                    cands.append(("arg", group, m, k))
    edits = []
    for what, group, m, k in rng.sample(cands, min(len(cands), rng.randint(1, 3))):
        if what == "enabled":
            edits.append({"path": ["pipeline", group, m["name"], "enabled"], "value": not m.get("enabled", True)})
            continue
        if m["name"] == "fp":
            value = {"a": rng.randint(10, 99), "b": rng.choice([0.375, 4.5, 11.25]), "s": rng.choice(VOCAB),
                     "v": [float(rng.randint(1, 9)), 0.5 * rng.randint(1, 9), -1.25]}[k]
        else:
            value = rand_value(rng)
        edits.append({"path": ["pipeline", group, m["name"], "arguments", k], "value": value})
    return edits


def gen_mode_edits(rng, mode):
    edits = [{"path": ["mode", "pipeline_seed"], "value": rng.choice([rng.randint(0, 2**31), rng.randint(0, 99), None])}]
    if mode == "calibration":
        edits[0]["value"] = rng.randint(0, 2**31)
    elif rng.random() < 0.5:
        edits.append({"path": ["mode", "result_type"], "value": rng.choice(["all", "image", "pixel", "signal"])})
        rng.shuffle(edits)
    return edits


def gen_edits(rng, target, doc, oracle):
    kind, mode = oracle["kind"], oracle["mode"]
    if target == "readout":
        return gen_readout_edits(rng, oracle["readout"])
    if target == "detector":
        return gen_detector_edits(rng, kind, doc[build.DETECTOR_KEYS[kind]])
    if target == "pipeline":
        return gen_pipeline_edits(rng, doc["pipeline"])
    return gen_mode_edits(rng, mode)


def edit_value(ed):
    v = copy.deepcopy(ed["value"])
    return np.array(v, dtype=float) if ed.get("as") == "array" else v


def apply_edit(ed, run, detector, pipeline) -> None:
    """One change through the public setters / mutable mappings a user has (same call for YAML- and Python-built objects)."""
    path, value = ed["path"], edit_value(ed)
    if path[0] == "readout":
        setattr(run.readout, path[1], value)
    elif path[0] == "detector":
        setattr(getattr(detector, path[1]), path[2], value)
    elif path[0] == "mode":
        setattr(run, path[1], value)
    else:
        model = next(m for m in getattr(pipeline, path[1]).models if m.name == path[2])
        if path[3] == "enabled":
            model.enabled = value
        else:
            model.arguments[path[4]] = value


def edited_document(doc, oracle, edits):
    """-> (document, oracle) saying what the file says *plus* the edits (only used to read the settings back)."""
    doc, oracle = copy.deepcopy(doc), copy.deepcopy(oracle)
    kind, mode = oracle["kind"], oracle["mode"]
    for ed in edits:
        path, value = ed["path"], copy.deepcopy(ed["value"])
        if path[0] == "readout":
            mdoc = doc[mode] = doc[mode] or {}
            rdoc = mdoc["readout"] = mdoc.get("readout") or {}
            if path[1] == "times":
                rdoc.pop("times_from_file", None)
                rdoc["times"] = value
                oracle["readout"] = dict(oracle["readout"], form="edited",
                                         times=[float(t) for t in (value if isinstance(value, list) else [value])])
            else:
                rdoc[path[1]] = value
        elif path[0] == "detector":
            doc[build.DETECTOR_KEYS[kind]][path[1]][path[2]] = value
        elif path[0] == "mode":
            mdoc = doc[mode] = doc[mode] or {}
            mdoc[path[1]] = value
        else:
            m = next(m for m in doc["pipeline"][path[1]] if m["name"] == path[2])
            if path[3] == "enabled":
                m["enabled"] = value
            else:
                m["arguments"][path[4]] = value
    return doc, oracle


def session_case(rec, i, rng):
    import pyxel
    form = SESSION_FORMS[i % len(SESSION_FORMS)]
    target = SESSION_EDITS[(i // len(SESSION_FORMS)) % len(SESSION_EDITS)]
    n = rng.choice([2, 3, 3, 4, 4])
    kind0 = rng.choice(KINDS)
    modes = ["exposure", "exposure", "observation", "observation", "calibration"]
    entries = []
    for k in range(n):
        if k and rng.random() < 0.25:                       # the same document once more (text re-shuffled or verbatim)
            src = rng.choice(entries)
            ent = dict(src, text=src["text"] if rng.random() < 0.5 else build.dump_yaml(shuffled(src["doc"], rng)), dup=True)
        else:
            kind = kind0 if rng.random() < 0.5 else rng.choice(KINDS)
            mode = rng.choice(modes)
            doc, oracle = gen_document(rng, kind, mode, rec.tmp, f"s{i}_{k}", form if rng.random() < 0.8 else None)
            ent = {"doc": doc, "oracle": oracle, "text": build.dump_yaml(shuffled(doc, rng)), "dup": False}
        entries.append(ent)
    entries = [dict(e, slot=k, from_file=rng.random() < 0.3) for k, e in enumerate(entries)]
    n_late = 1 if rng.random() < 0.45 else 0              # loaded only after the edits
    early, late = entries[:n - n_late], entries[n - n_late:]
    edited = rng.choice(early)
    edits = gen_edits(rng, target, edited["doc"], edited["oracle"])
    if rng.random() < 0.25:
        other = rng.choice([t for t in SESSION_EDITS if t != target])
        edits += gen_edits(rng, other, *edited_document(edited["doc"], edited["oracle"], edits))
    if rng.random() < 0.35:
        edited["from_file"] = True
    if rng.random() < 0.4:                                  # the edited document itself, loaded again afterwards
        again = dict(edited, slot=len(entries), dup=True, from_file=rng.random() < 0.3)
        if edited["from_file"] and rng.random() < 0.75:
            # ... from the very same, untouched file (same path, same modification time)
            again.update(from_file=True, file_slot=edited["slot"], reuse_file=True)
        late.append(again)
    case = {"readout_form": form, "edit_target": target, "edits": edits, "edited_slot": edited["slot"],
            "history": [f"load {e['slot']}" for e in early] + [f"edit {edited['slot']}"] + [f"load {e['slot']}" for e in late],
            "documents": {e["slot"]: e["text"] for e in early + late}}
    sig = ("session", form, target, [(e["oracle"]["kind"], e["oracle"]["mode"], e["oracle"]["readout"]["form"], e["dup"])
                                     for e in early + late], [ed["path"] for ed in edits], len(late))
    rec.observe("session_strata", f"{form}/{target}")

    def load(ent):
        if ent["from_file"]:
            path = os.path.join(rec.tmp, f"session_{i}_{ent.get('file_slot', ent['slot'])}.yaml")
            if ent.get("reuse_file") and os.path.exists(path):
                rec.count("session_edited_file_loaded_again_untouched")
            else:
                with open(path, "w") as fh:
                    fh.write(ent["text"])
            return pyxel.load(path)
        return pyxel.loads(ent["text"])

    def load_all(ents):
        for ent in ents:
            try:
                ent["cfg"] = load(ent)
            except Exception as exc:  # noqa: BLE001
                import traceback
                rec.violation(f"C12:session:valid-document-refused:{ent['oracle']['mode']}", f"slot {ent['slot']}: "
                              f"{type(exc).__name__}: {exc} :: {traceback.format_exc()[-600:]}", case, i)
                return False
            rec.count("session_docs_loaded")
        return True

    if not load_all(early):
        rec.case(sig, True)
        return
    if rng.random() < 0.5:                                  # a user who looks at everything right after loading
        for ent in early:
            compare_config(rec, ent["cfg"], ent["doc"], ent["oracle"], case, i, "session:just-loaded:")
    cfg = edited["cfg"]
    for j, ed in enumerate(edits):
        try:
            apply_edit(ed, cfg.running_mode, cfg.detector, cfg.pipeline)
        except Exception as exc:  # noqa: BLE001 - a legal change refused: not this monitor's business (range probes own it)
            rec.count("session_edit_refused")
            rec.observe("session_edit_refusals", f"{'.'.join(ed['path'][:2])}:{type(exc).__name__}")
            case["edits"] = edits = edits[:j]
            break
        rec.count("session_edits_applied")
        rec.observe("session_edit_paths", ".".join(ed["path"] if ed["path"][0] != "pipeline" else ["pipeline", ed["path"][3]]))
    if not load_all(late):
        rec.case(sig, True)
        return
    todo = early + late
    rng.shuffle(todo)
    for ent in todo:
        mode = ent["oracle"]["mode"]
        if ent is edited:
            role = f"session:edited-{target}:"
            doc_e, oracle_e = edited_document(ent["doc"], ent["oracle"], edits)
            ok = compare_config(rec, ent["cfg"], doc_e, oracle_e, case, i, role)
            rec.count("session_edited_checked")
            if ok and mode != "calibration":
                parity(rec, ent["cfg"], ent["doc"], ent["oracle"], case, i, role, edits)
                rec.count("session_parity_checks")
            continue
        when = "loaded-after" if any(ent is e for e in late) else "loaded-before"
        role = f"session:{when}-{target}-edit-of-another:"
        ok = compare_config(rec, ent["cfg"], ent["doc"], ent["oracle"], case, i, role)
        rec.count("session_bystanders_checked")
        if when == "loaded-after":
            rec.count("session_loaded_after_edit_checked")
        if ok and mode != "calibration":
            parity(rec, ent["cfg"], ent["doc"], ent["oracle"], case, i, role)
            rec.count("session_parity_checks")
            if ent["oracle"]["readout"]["form"] == "omitted":
                rec.count("session_bystanders_with_omitted_readout_run")
    rec.count("sessions")
    rec.case(sig, True, sample={"readout_form": form, "edit_target": target, "history": case["history"], "edits": edits})


# =============================================================================== refusal
REFUSALS = ["no_mode", "two_modes", "three_modes", "null_exposure_plus_mode", "no_detector", "two_detectors",
            "four_detectors", "two_modes_two_detectors"]


def refusal_case(rec, i, rng):
    import pyxel
    from pyxel.configuration import Configuration
    cls = REFUSALS[i % len(REFUSALS)]
    route = "yaml" if (i // len(REFUSALS)) % 3 else "object"
    kinds = KINDS[:]
    rng.shuffle(kinds)
    modes = [m for m in MODES if m != "calibration"] if rng.random() < 0.6 else MODES[:]
    rng.shuffle(modes)
    base, oracle = gen_document(rng, kinds[0], modes[0], rec.tmp, f"r{i}")
    doc = copy.deepcopy(base)
    extra_modes = {m: gen_document(rng, kinds[0], m, rec.tmp, f"r{i}{m}")[0][m] for m in MODES if m != modes[0]}
    extra_dets = {k: gen_document(rng, k, "exposure", rec.tmp, f"r{i}{k}")[0][build.DETECTOR_KEYS[k]] for k in kinds[1:]}
    # calibration / observation sections refer to the model `fp` of their own pipeline: re-point them
    g_fp = next(g for g, ms in base["pipeline"].items() if ms and any(m["name"] == "fp" for m in ms))

    def repoint(section):
        for p in (section or {}).get("parameters", []) + (section or {}).get("result_input_arguments", []):
            if p["key"].startswith("pipeline."):
                p["key"] = f"pipeline.{g_fp}.fp.arguments." + p["key"].rsplit(".", 1)[1]
        return section
    n_modes, n_dets = 1, 1
    if cls == "no_mode":
        del doc[modes[0]]
        n_modes = 0
    elif cls in ("two_modes", "two_modes_two_detectors"):
        m = rng.choice([m for m in MODES if m != modes[0]])
        doc[m] = repoint(extra_modes[m])
        n_modes = 2
    elif cls == "three_modes":
        for m in extra_modes:
            doc[m] = repoint(extra_modes[m])
        n_modes = 3
    elif cls == "null_exposure_plus_mode":
        if modes[0] == "exposure":
            doc["observation"] = repoint(extra_modes["observation"])
            doc["exposure"] = None
        else:
            doc["exposure"] = None
        n_modes = 2
    if cls == "no_detector":
        del doc[build.DETECTOR_KEYS[kinds[0]]]
        n_dets = 0
    elif cls in ("two_detectors", "two_modes_two_detectors"):
        doc[build.DETECTOR_KEYS[kinds[1]]] = extra_dets[kinds[1]]
        n_dets = 2
    elif cls == "four_detectors":
        for k in kinds[1:]:
            doc[build.DETECTOR_KEYS[k]] = extra_dets[k]
        n_dets = 4
    text = build.dump_yaml(shuffled(doc, rng))
    case = {"class": cls, "route": route, "yaml": text}
    rec.count("refusal_cases")
    try:
        base_cfg = pyxel.loads(build.dump_yaml(base))
    except Exception as exc:  # noqa: BLE001
        rec.violation("C12:fidelity:valid-document-refused:refusal-base", f"{type(exc).__name__}: {exc}", case, i)
        return
    try:
        if route == "yaml":
            if rng.random() < 0.3:
                path = os.path.join(rec.tmp, f"refusal_{i}.yaml")
                with open(path, "w") as fh:
                    fh.write(text)
                pyxel.load(path)
            else:
                pyxel.loads(text)
        else:
            # the same nonsense as objects: every section loaded on its own, then put into one Configuration
            kw = {"pipeline": base_cfg.pipeline}
            for m in MODES:
                if m in doc:
                    sub = {"pipeline": copy.deepcopy(base["pipeline"]), m: copy.deepcopy(doc[m]),
                           build.DETECTOR_KEYS[kinds[0]]: copy.deepcopy(base[build.DETECTOR_KEYS[kinds[0]]])}
                    kw[m] = getattr(pyxel.loads(build.dump_yaml(sub)), m)
            for k in KINDS:
                if build.DETECTOR_KEYS[k] in doc:
                    sub = {"pipeline": copy.deepcopy(base["pipeline"]), "exposure": None,
                           build.DETECTOR_KEYS[k]: copy.deepcopy(doc[build.DETECTOR_KEYS[k]])}
                    kw[build.DETECTOR_KEYS[k]] = getattr(pyxel.loads(build.dump_yaml(sub)), build.DETECTOR_KEYS[k])
            case["object_slots"] = sorted(kw)
            Configuration(**kw)
    except Exception as exc:  # noqa: BLE001 - any error is a refusal
        rec.count("refusal_refused")
        rec.observe("refusal_errors", f"{route}:{type(exc).__name__}")
        rec.case(("refusal", cls, route, modes[0], kinds[0]), True, sample={"class": cls, "route": route})
        return
    rec.violation(f"C12:refusal:{route}:{n_modes}-modes-{n_dets}-detectors-accepted",
                  f"a configuration with {n_modes} running mode(s) and {n_dets} detector(s) was accepted", case, i)
    rec.case(("refusal", cls, route, modes[0], kinds[0]), True)


# =============================================================================== range table
INF = None
G, E, C, A, W = "geometry", "environment", "characteristics", "apd", "wavelength_handling"
STD = ["ccd", "cmos", "mkid"]
RANGE_TABLE = [
    # name, part, field, detector kinds, lo, lo inclusive, hi, hi inclusive, integer, NaN demanded, source
    dict(name="geometry.row", part=G, field="row", kinds=KINDS, lo=1, lo_incl=True, hi=INF, hi_incl=None, integer=True, nan=False,
         src="geometry.py Geometry.__init__/row.setter: \"'row' must be strictly greater than 0.\""),
    dict(name="geometry.col", part=G, field="col", kinds=KINDS, lo=1, lo_incl=True, hi=INF, hi_incl=None, integer=True, nan=False,
         src="geometry.py Geometry.__init__/col.setter: \"'col' must be strictly greater than 0.\""),
    dict(name="geometry.total_thickness", part=G, field="total_thickness", kinds=KINDS, lo=0.0, lo_incl=True, hi=10000.0, hi_incl=True,
         integer=False, nan=True, src="geometry.py: \"'total_thickness' must be between 0.0 and 10000.0.\""),
    dict(name="geometry.pixel_vert_size", part=G, field="pixel_vert_size", kinds=KINDS, lo=0.0, lo_incl=True, hi=1000.0, hi_incl=True,
         integer=False, nan=True, src="geometry.py: \"'pixel_vert_size' must be between 0.0 and 1000.0.\""),
    dict(name="geometry.pixel_horz_size", part=G, field="pixel_horz_size", kinds=KINDS, lo=0.0, lo_incl=True, hi=1000.0, hi_incl=True,
         integer=False, nan=True, src="geometry.py: \"'pixel_horz_size' must be between 0.0 and 1000.0.\""),
    dict(name="geometry.pixel_scale", part=G, field="pixel_scale", kinds=KINDS, lo=0.0, lo_incl=True, hi=1000.0, hi_incl=True,
         integer=False, nan=True, src="geometry.py pixel_scale.setter (+ constructor since d1dd40e): \"'pixel_scale' must be between 0.0 and 1000.0.\""),
    dict(name="environment.temperature", part=E, field="temperature", kinds=KINDS, lo=0.0, lo_incl=False, hi=1000.0, hi_incl=True,
         integer=False, nan=True, src="environment.py: `0.0 < temperature <= 1000.0`, \"'temperature' must be between 0.0 and 1000.0.\"; statement: non-positive temperature refused"),
    dict(name="environment.wavelength", part=E, field="wavelength", kinds=KINDS, lo=0.0, lo_incl=False, hi=INF, hi_incl=None,
         integer=False, nan=True, src="environment.py: \"'wavelength' must be strictly positive.\""),
    dict(name="characteristics.quantum_efficiency", part=C, field="quantum_efficiency", kinds=STD, lo=0.0, lo_incl=True, hi=1.0, hi_incl=True,
         integer=False, nan=True, src="characteristics.py: \"'quantum_efficiency' must be between 0.0 and 1.0.\""),
    dict(name="characteristics.charge_to_volt_conversion", part=C, field="charge_to_volt_conversion", kinds=STD, lo=0.0, lo_incl=True,
         hi=100.0, hi_incl=True, integer=False, nan=True, src="characteristics.py: \"'charge_to_volt_conversion' must be between 0.0 and 100.0.\""),
    dict(name="characteristics.pre_amplification", part=C, field="pre_amplification", kinds=STD, lo=0.0, lo_incl=True, hi=10000.0,
         hi_incl=True, integer=False, nan=True, src="characteristics.py: \"'pre_amplification' must be between 0.0 and 10000.0.\""),
    dict(name="characteristics.full_well_capacity", part=C, field="full_well_capacity", kinds=STD, lo=0.0, lo_incl=True, hi=1.0e7,
         hi_incl=True, integer=False, nan=True, src="characteristics.py: \"'full_well_capacity' must be between 0 and 1e7.\""),
    dict(name="characteristics.adc_bit_resolution", part=C, field="adc_bit_resolution", kinds=STD, lo=4, lo_incl=True, hi=64, hi_incl=True,
         integer=True, nan=True, src="characteristics.py: \"'adc_bit_resolution' must be between 4 and 64.\" (setter since d1dd40e)"),
    dict(name="characteristics.adc_voltage_range", part=C, field="adc_voltage_range", kinds=STD, special="len2",
         src="characteristics.py: \"Voltage range must have length of 2.\" (setter since 9bcf7de)"),
    dict(name="apd.quantum_efficiency", part=A, field="quantum_efficiency", kinds=["apd"], lo=0.0, lo_incl=True, hi=1.0, hi_incl=True,
         integer=False, nan=True, src="apd_characteristics.py: \"'quantum_efficiency' must be between 0.0 and 1.0.\""),
    dict(name="apd.full_well_capacity", part=A, field="full_well_capacity", kinds=["apd"], lo=0.0, lo_incl=True, hi=1.0e7, hi_incl=True,
         integer=False, nan=True, src="apd_characteristics.py: \"'full_well_capacity' must be between 0 and 1e7.\""),
    dict(name="apd.adc_bit_resolution", part=A, field="adc_bit_resolution", kinds=["apd"], lo=4, lo_incl=True, hi=64, hi_incl=True,
         integer=True, nan=True, src="apd_characteristics.py: \"'adc_bit_resolution' must be between 4 and 64.\" (0 refused since 89a8591)"),
    dict(name="apd.adc_voltage_range", part=A, field="adc_voltage_range", kinds=["apd"], special="len2",
         src="apd_characteristics.py: \"Voltage range must have length of 2.\" (setter since 9bcf7de, empty range since 89a8591)"),
    dict(name="apd.avalanche_gain", part=A, field="avalanche_gain", kinds=["apd"], lo=1.0, lo_incl=True, hi=1000.0, hi_incl=True,
         integer=False, nan=True, src="apd_characteristics.py: \"'apd_gain' must be between 1.0 and 1000.0.\""),
    dict(name="wavelength_handling.cut_on", part=W, field="cut_on", kinds=KINDS, lo=0.0, lo_incl=False, hi=INF, hi_incl=None,
         integer=False, nan=False, src="environment.py WavelengthHandling.__post_init__: \"'cut_on' must be > 0.\""),
    dict(name="wavelength_handling.resolution", part=W, field="resolution", kinds=KINDS, lo=0, lo_incl=False, hi=INF, hi_incl=None,
         integer=True, nan=False, src="environment.py WavelengthHandling.__post_init__: \"'resolution' must be > 0.\""),
    dict(name="wavelength_handling.cut_off", part=W, field="cut_off", kinds=KINDS, lo=500.0, lo_incl=None, hi=INF, hi_incl=None,
         integer=False, nan=False, relation=True,
         src="environment.py WavelengthHandling.__post_init__: \"'cut_off' must be bigger than 'cut_on'.\" (probed with cut_on = 500)"),
]
INTERVAL_CLASSES = ["interior", "lo", "hi", "in_lo", "in_hi", "below", "above", "far_below", "far_above", "wrong_sign",
                    "zero", "nan"]
LEN2_CLASSES = ["len2_list", "len2_tuple", "len2_ints", "len0", "len1", "len3", "scalar"]
ROUTES = ["ctor", "yaml", "attr", "sweep"]


def classes_of(e):
    if e.get("special") == "len2":
        return LEN2_CLASSES
    out = []
    for cls in INTERVAL_CLASSES:
        if cls in ("hi", "in_hi", "above", "far_above") and e["hi"] is None:
            continue
        if cls == "lo" and e["lo_incl"] is None:
            continue
        if cls == "nan" and not e["nan"]:
            continue
        if e.get("relation") and cls in ("zero",):
            continue
        out.append(cls)
    return out


def all_triples():
    return [(e["name"], cls, route) for e in RANGE_TABLE for cls in classes_of(e) for route in ROUTES]


def gen_value(rng, e, cls):
    """-> (value, valid)."""
    if e.get("special") == "len2":
        a, b = round(rng.uniform(-10, 5), 3), round(rng.uniform(6, 20), 3)
        return {"len2_list": ([a, b], True), "len2_tuple": ((a, b), True), "len2_ints": ([rng.randint(-5, 0), rng.randint(1, 12)], True),
                "len0": ([], False), "len1": ([a], False), "len3": ([a, b, b + 1.5], False),
                "scalar": (rng.choice([b, 5]), False)}[cls]
    lo, hi, integer = e["lo"], e["hi"], e["integer"]
    top = hi if hi is not None else (lo + 64 if integer else lo + 5000.0)

    def interior():
        if integer:
            return rng.randint(lo + 1, top - 1)
        for _ in range(20):
            v = rand_float(rng, lo + (top - lo) * 1e-6, top - (top - lo) * 1e-6)
            if lo < v < top:
                return v
        return (lo + top) / 2
    if cls == "interior":
        return interior(), True
    if cls == "lo":
        return (lo if integer else rng.choice([float(lo), int(lo)] if float(lo).is_integer() else [lo])), bool(e["lo_incl"])
    if cls == "hi":
        return (hi if integer else rng.choice([float(hi), int(hi)])), bool(e["hi_incl"])
    if cls == "in_lo":
        if integer:
            return lo + 1, True
        if lo == 0:
            return rng.choice([1e-12, 1e-9, 1e-6, 1e-3]), True
        return rng.choice([math.nextafter(lo, math.inf), lo * (1 + 1e-9), lo + 1e-3]), True
    if cls == "in_hi":
        if integer:
            return hi - 1, True
        return rng.choice([math.nextafter(hi, -math.inf), hi * (1 - 1e-9), hi - 1e-3]), True
    if cls == "below":
        if integer:
            return lo - 1, False
        if lo == 0:
            return rng.choice([-1e-12, -1e-9, -1e-6, -1e-3]), False
        return rng.choice([math.nextafter(lo, -math.inf), lo * (1 - 1e-9), lo - 1e-3]), False
    if cls == "above":
        if integer:
            return hi + 1, False
        return rng.choice([math.nextafter(hi, math.inf), hi * (1 + 1e-9), hi + 1e-3]), False
    if cls == "far_below":
        v = lo - 10 ** rng.randint(1, 6) * rng.randint(1, 9)
        return (int(v) if integer else float(v) + rng.random()), False
    if cls == "far_above":
        v = hi * 10 ** rng.randint(1, 4) + rng.randint(1, 9)
        return (int(v) if integer else float(v) + rng.random()), False
    if cls == "wrong_sign":
        v = interior()
        return -v, False
    if cls == "zero":
        valid = (lo < 0 or (lo == 0 and bool(e["lo_incl"]))) and (hi is None or hi >= 0)
        return (0 if integer or rng.random() < 0.5 else 0.0), valid
    if cls == "nan":
        return float("nan"), False
    raise KeyError(cls)


def part_classes(kind):
    from pyxel import detectors as d
    from pyxel.detectors.environment import WavelengthHandling
    geo = {"ccd": d.CCDGeometry, "cmos": d.CMOSGeometry, "mkid": d.MKIDGeometry, "apd": d.APDGeometry}[kind]
    return {G: geo, E: d.Environment, C: d.Characteristics, A: d.APDCharacteristics, W: WavelengthHandling}


WH_BASE = {"cut_on": 500.0, "cut_off": 1.0e7, "resolution": 10}


def spec_with(e, dspec, value):
    """Detector specification with the probed value put in place."""
    spec = copy.deepcopy(dspec)
    if e["part"] == W:
        wh = dict(WH_BASE)
        wh[e["field"]] = value
        spec["environment"]["wavelength"] = wh
    else:
        part = "characteristics" if e["part"] in (C, A) else e["part"]
        spec[part][e["field"]] = value
    return spec


def part_object(e, det):
    if e["part"] == W:
        return det.environment.wavelength
    return getattr(det, "characteristics" if e["part"] in (C, A) else e["part"])


def sweep_key(e):
    if e["part"] == W:
        return f"detector.environment.wavelength.{e['field']}"
    return f"detector.{'characteristics' if e['part'] in (C, A) else e['part']}.{e['field']}"


def watch_key(e):
    if e["part"] == W:
        return "environment.wavelength", e["field"]
    return f"{'characteristics' if e['part'] in (C, A) else e['part']}.{e['field']}", None


def mech_for(e, route, what):
    if e["part"] == W and route in ("attr", "sweep"):
        # listed family C12:attr:wavelength_handling* (plain dataclass, validated only in __post_init__)
        mid = f"attr:{e['name']}" + (":sweep" if route == "sweep" else "")
        return f"C12:{mid}:{what}"
    return f"C12:{route}:{e['name']}:{what}"


def range_case(rec, i, rng, triple):
    import pyxel
    from pyxel.exposure import Readout
    from pyxel.observation import Observation, ParameterValues
    name, cls, route = triple
    e = next(x for x in RANGE_TABLE if x["name"] == name)
    kind = rng.choice(e["kinds"])
    value, valid = gen_value(rng, e, cls)
    dspec = gen_detector(rng, kind, full=True)
    if e["part"] == W:
        dspec["environment"]["wavelength"] = dict(WH_BASE)
    if e["field"] == "avalanche_gain":
        dspec["characteristics"].pop("common_voltage", None)
    case = {"field": name, "class": cls, "route": route, "value": repr(value), "valid": valid, "detector": kind,
            "source": e["src"]}
    rec.count("range_probes")
    rec.observe("range_triples", "|".join(triple))
    accepted, detail, arrived = None, "", None
    try:
        if route == "ctor":
            classes = part_classes(kind)
            if e["part"] == W:
                kw = dict(WH_BASE)
            else:
                kw = copy.deepcopy(dspec["characteristics" if e["part"] in (C, A) else e["part"]])
                if "adc_voltage_range" in kw:
                    kw["adc_voltage_range"] = tuple(kw["adc_voltage_range"])
            kw[e["field"]] = value
            try:
                obj = classes[e["part"]](**kw)
                accepted = True
                arrived = read_back(obj, e["field"], value)
            except Exception as exc:  # noqa: BLE001
                accepted, detail = False, f"{type(exc).__name__}: {exc}"
        elif route == "yaml":
            spec = spec_with(e, dspec, list(value) if isinstance(value, tuple) else value)
            doc = {"exposure": {"readout": {"times": [1.0]}},
                   "pipeline": {"photon_collection": [{"name": "t", "func": "vf.probes.trace", "enabled": True}]}}
            doc.update(build.detector_yaml_dict(spec))
            text = build.dump_yaml(shuffled(doc, rng))
            case["yaml"] = text
            try:
                cfg = pyxel.loads(text)
                accepted = True
                arrived = read_back(part_object(e, cfg.detector), e["field"], value)
            except Exception as exc:  # noqa: BLE001
                accepted, detail = False, f"{type(exc).__name__}: {exc}"
        elif route == "attr":
            det = py_detector(dspec)
            obj = part_object(e, det)
            before = safe_get(obj, e["field"])
            try:
                setattr(obj, e["field"], value)
                accepted = True
                arrived = read_back(obj, e["field"], value)
            except Exception as exc:  # noqa: BLE001
                accepted, detail = False, f"{type(exc).__name__}: {exc}"
                after = safe_get(obj, e["field"])
                if not same(after, before) and not (isinstance(before, tuple) and same(list(after), list(before))):
                    accepted, detail = True, f"assignment raised ({detail}) but the attribute now reads {after!r} (was {before!r})"
        else:
            det = py_detector(dspec)
            wkey, wsub = watch_key(e)
            pdoc = {"charge_generation": [{"name": "fp", "func": "vf.checks.c12.fieldprobe", "enabled": True,
                                           "arguments": {"watch": wkey}}]}
            values = [value]
            if rng.random() < 0.5:
                ok_value, _ = gen_value(rng, e, "len2_list" if e.get("special") else "interior")
                values = [ok_value, value] if rng.random() < 0.7 else [value, ok_value]
            values = [list(v) if isinstance(v, tuple) else v for v in values]
            written = values
            if all(is_num(v) and not (isinstance(v, float) and math.isnan(v)) for v in values) and rng.random() < 0.35 \
                    and (all(isinstance(v, int) for v in values) or all(isinstance(v, float) for v in values)):
                written = f"numpy.array({values!r})"
            case["sweep_values"] = repr(written)
            key = sweep_key(e)
            via_yaml = rng.random() < 0.3 and not any(isinstance(v, float) and math.isnan(v) for v in values if is_num(v))
            probes.reset()
            try:
                if via_yaml:
                    doc = {"observation": {"parameters": [{"key": key, "values": written}], "readout": {"times": [1.0]}},
                           "pipeline": pdoc}
                    doc.update(build.detector_yaml_dict(dspec))
                    cfg = pyxel.loads(build.dump_yaml(shuffled(doc, rng)))
                    mode, det, pipe = cfg.observation, cfg.detector, cfg.pipeline
                else:
                    mode = Observation(parameters=[ParameterValues(key=key, values=written)], readout=Readout(times=[1.0]))
                    pipe = py_pipeline(pdoc)
                pyxel.run_mode(mode=mode, detector=det, pipeline=pipe, with_inherited_coords=True)
                accepted = True
            except Exception as exc:  # noqa: BLE001
                accepted, detail = False, f"{type(exc).__name__}: {exc}"
            evs = [ev for ev in probes.events() if ev.get("kind") == "field"]
            rec.count("sweep_probe_events", len(evs))
            seen = []
            for ev in evs:
                got = ev["settings"].get(wkey)
                if wsub is not None and isinstance(got, dict):
                    got = got.get(wsub)
                seen.append(got)
            saw = any(same(s, value) or (isinstance(value, tuple) and same(s, list(value))) for s in seen)
            case["models_saw"] = repr(seen)
            if valid:
                arrived = saw if accepted else None
                if not value and not saw and "<unset>" in seen:
                    arrived = None  # pyxel reports a falsy geometry value as "not specified"
            elif saw:
                accepted, detail = True, (f"a model executed with the out-of-range value (sweep "
                                          f"{'raised afterwards: ' + detail if detail else 'did not raise'})")
    except Exception as exc:  # noqa: BLE001 - harness trouble must not look like a verdict
        import traceback
        rec.violation(f"C12:{route}:{name}:harness-error", f"{type(exc).__name__}: {exc} :: {traceback.format_exc()[-600:]}", case, i)
        return
    sig = ("range", name, cls, route, kind, repr(value))
    if valid and not accepted:
        rec.violation(mech_for(e, route, "valid-refused"), f"{name} = {value!r} ({cls}) is inside the documented range "
                      f"[{e.get('src')}] but route '{route}' refused it: {detail}", case, i)
    elif valid and arrived is False:
        rec.violation(mech_for(e, route, "valid-value-not-applied"), f"{name} = {value!r} ({cls}) accepted by route '{route}' but the "
                      f"object / the models do not hold it", case, i)
    elif valid:
        rec.count("range_valid_accepted")
    elif accepted:
        what = "nan-accepted" if cls == "nan" else "out-of-range-accepted"
        rec.violation(mech_for(e, route, what), f"{name} = {value!r} ({cls}) is outside the documented range [{e.get('src')}] "
                      f"but route '{route}' accepted it. {detail}", case, i)
    else:
        rec.count("range_invalid_refused")
        rec.observe("range_refusal_errors", detail.split(":")[0])
    rec.case(sig, True, sample=case)


def safe_get(obj, field):
    try:
        return getattr(obj, field)
    except Exception:  # noqa: BLE001
        return "<unset>"


def read_back(obj, field, value):
    """True / False when the accepted value can be read back, None when reading is not meaningful
    (pyxel reports a falsy geometry value as 'not specified')."""
    try:
        got = getattr(obj, field)
    except ValueError:
        return None if not value else False
    return same(got, value) or (isinstance(value, tuple) and same(list(got), list(value)))


# =============================================================================== driver
def run_shard(spec, rec):
    kind = spec["kind"]
    if kind == "ranges":
        triples = all_triples()
        for i in range(spec["n"]):
            if i % spec["parts"] != spec["part"] or not rec.wanted(i):
                continue
            range_case(rec, i, rec.rng(i), triples[i % len(triples)])
        return
    if kind == "sessions":
        for i in range(spec["n"]):
            if i % spec["parts"] != spec["part"] or not rec.wanted(i):
                continue
            session_case(rec, i, rec.rng(i))
        return
    for i in range(spec["n"]):
        if not rec.wanted(i):
            continue
        rng = rec.rng(i)
        if kind == "docs":
            docs_case(rec, i, rng, spec["shard"])
        else:
            refusal_case(rec, i, rng)


def finalize(counters, sets, tier):
    out = []
    want = {"|".join(t) for t in all_triples()}
    got = set(sets.get("range_triples", []))
    if want - got:
        out.append(f"{len(want - got)} of {len(want)} (field, class, route) triples were not probed, e.g. {sorted(want - got)[:3]}")
    combos = set(sets.get("doc_combinations", []))
    if len(combos) < 12:
        out.append(f"only {len(combos)}/12 detector x mode combinations were loaded")
    missing = set(session_strata()) - set(sets.get("session_strata", []))
    if missing:
        out.append(f"session strata (readout form / edited part) never exercised: {sorted(missing)[:4]}")
    return out


def coverage_extra(counters, sets, tier):
    return {"range_table": [{k: e.get(k) for k in ("name", "lo", "lo_incl", "hi", "hi_incl", "integer", "nan", "special", "src")}
                            for e in RANGE_TABLE],
            "range_triples_total": len(all_triples()),
            "range_triples_probed": len(sets.get("range_triples", [])),
            "exhaustive": len(sets.get("range_triples", [])) == len(all_triples()),
            "exhaustive_note": "the (field, value class, route) table is enumerated completely; concrete values and documents are sampled"}

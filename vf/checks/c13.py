"""C13 -- data buckets only ever hold arrays of the detector's shape and unit type.

Monitors
* M4: icontract class invariants attached *from here* to the real Photon, Pixel, Signal, Image,
  Phase (and ArrayBase for the inherited methods).  They are evaluated by icontract before and
  after every public operation, *record* what they see and always return True (they never
  perturb the execution); the number of evaluations is reported per class.
* M8: a small reference state machine (``RefBucket``; numpy/xarray only, no pyxel import) predicts
  for every operation of a generated sequence accepted / rejected / either and the content
  afterwards; the harness observes the real containers through the public API only.

What is demanded is what the statement says (see the comments marked STATEMENT); behaviour
that the statement leaves open is *counted* under a named counter, never alarmed on.

The module doubles as a conftest-free pytest plugin (``-p vf.checks.c13`` with
VF_C13_PLUGIN_OUT set): thorough tier runs the repository's tests/data_structure with the
invariants attached; contract failures there are findings to analyse, not violations.
"""
from __future__ import annotations

import copy
import functools
import json
import os
import subprocess
import sys
import weakref

import numpy as np

ID = "C13"
LEVEL = "exploration"
TECHNIQUE = ("runtime monitoring: icontract class invariants on the real bucket classes (recording, "
             "non-raising) + reference state machine over generated operation sequences")
RULE = ("random operation sequences (1-30 operations: array=/array_2d=/array_3d=, update, +=, +, empty, "
        "Detector.empty, detector-level setters, reads, ==) on the five containers of two detectors "
        "(CCD/CMOS/MKID/APD, 1-5 rows/cols, same or different geometry) with arrays of right/wrong shape, "
        "17 dtypes, negative/NaN/inf/huge values, 2-D and 3-D photons; plus a deterministic grid "
        "(kind x shape class x dtype x pre-state x operation), an equality grid, a refused-addition-on-empty grid "
        "(route to empty x unstorable operand class x +=/+ -> read -> compare with an empty twin) and real model pipelines "
        "with the invariants switched on; a case is non-trivial when it holds >=2 operations of which "
        ">=1 mutates a container; distinct = distinct (detectors, operation list) signatures")
ASSUMPTIONS = [
    "emptiness and content are observed through the public attributes only (.array/.array_3d raising ValueError = empty)",
    "the expected geometry of a container is what its constructor received (recorded by a wrapper of __init__)",
    "behaviour the statement leaves open (list-likes, long double, NaN, dimension switches, whether += on an empty "
    "container stores the operand or is refused, negative sums after +=) is counted, not judged; a *refused* += / + "
    "on an empty container must leave it empty (nothing was ever assigned)",
    "arrays handed to a container are never modified by the harness afterwards (ArrayBase keeps a reference)",
]
REQUIRED_COUNTERS = [
    "inv_evals_photon", "inv_evals_pixel", "inv_evals_signal", "inv_evals_image", "inv_evals_phase",
    "ops_set", "ops_update", "ops_iadd", "ops_empty", "ops_det_empty", "ops_det_set", "ops_read", "ops_eq",
    "ops_set3d", "rejected_checked_unchanged", "accepted_checked_content", "read_empty_raised",
    "eq_checked", "eq_expected_true", "eq_expected_false", "photon_negative_assigned_clipped",
    "iadd_sum_checked", "reset_checked", "model_runs_ok", "inv_evals_in_models", "grid_cells",
    "iadd_refused_on_empty_checked",
]
TIMEOUT = {"quick": 900, "thorough": 5400}

# A genuine defect of the pinned tree that this check reproduces (see the final report of the
# author): Detector.photon's setter copies the *private* array of the other container without any
# validation.  Until it is either repaired or listed in KNOWN_FINDINGS.json the mechanisms below are
# counted ("open_finding_*", evidence key open_findings_reproduced) instead of raised; run with
# VERIF_C13_STRICT=1 to raise them.  Remove the entry once the setter validates.
OPEN_FINDINGS: dict = {}  # the Detector.photon setter finding was repaired in /repo (see KNOWN_FINDINGS.json)
STRICT = os.environ.get("VERIF_C13_STRICT", "") not in ("", "0")

KINDS = ("photon", "pixel", "signal", "image", "phase")
DET_KINDS = ("ccd", "cmos", "mkid", "apd")


# =====================================================================================
# M8 -- reference model (numpy / xarray only; NO pyxel import below this line until "harness")
# =====================================================================================
CERTAIN = {"f": ("float16", "float32", "float64"), "u": ("uint8", "uint16", "uint32", "uint64")}
DIMS3 = ("wavelength", "y", "x")


def dtype_allowed(kind: str, dt) -> bool:
    """STATEMENT: floating point for photon, pixel, signal, phase; unsigned integer for image."""
    try:
        k = np.dtype(dt).kind
    except TypeError:
        return False
    return k == ("u" if kind == "image" else "f")


def dtype_certain(kind: str, dt) -> bool:
    return np.dtype(dt).name in CERTAIN["u" if kind == "image" else "f"]


def _finite(a) -> bool:
    a = np.asarray(a)
    return bool(np.isfinite(a).all()) if a.dtype.kind in "fc" else True


def _has_neg(a) -> bool:
    with np.errstate(all="ignore"):
        return bool(np.any(np.asarray(a) < 0))


def _is_da(v) -> bool:
    import xarray as xr
    return isinstance(v, xr.DataArray)


def judge(kind: str, state: tuple, expected) -> list[str]:
    """The class invariant: [] when `state` (as read through the public API) is empty or holds an
    array of exactly `expected` = (rows, cols) (plus a leading wavelength axis, 3-D photon) of an
    allowed dtype; otherwise the list of what is wrong."""
    tag = state[0]
    if tag == "empty":
        return []
    if tag == "bad":
        return [state[1]]
    if tag == "2d":
        a = state[1]
        if not isinstance(a, np.ndarray):
            return ["not-ndarray"]
        out = []
        if a.ndim != 2 or (expected is not None and tuple(a.shape) != tuple(expected)):
            out.append("wrong-shape")
        if not dtype_allowed(kind, a.dtype):
            out.append("bad-dtype")
        return out
    if tag == "3d":
        da = state[1]
        if kind != "photon":
            return ["3d-in-2d-container"]
        if not _is_da(da):
            return ["3d-not-dataarray"]
        out = []
        if tuple(da.dims) != DIMS3:
            out.append("3d-wrong-dims")
        elif expected is not None and (da.sizes["y"], da.sizes["x"]) != tuple(expected):
            out.append("wrong-shape")
        if not dtype_allowed(kind, da.dtype):
            out.append("bad-dtype")
        return out
    return ["unknown-state"]


class Pred:
    def __init__(self, outcome, after, reason=""):
        self.outcome = outcome    # accept | accept_soft | reject | either
        self.after = after        # ("same",) ("empty",) ("state", st) ("empty_or_zeros",) ("valid",) ("sum", st) ...
        self.reason = reason


class RefBucket:
    """Reference state machine of one container.  state: None | ("2d", arr) | ("3d", values, wl)."""

    def __init__(self, kind: str, rows: int, cols: int):
        self.kind, self.rows, self.cols = kind, rows, cols
        self.state = None
        self.fragile = False  # content came from a read-only / exotic array: in-place ops may refuse

    # ---- classification of a value that is being assigned
    def classify2d(self, v):
        if not isinstance(v, np.ndarray):
            return "either", "non-ndarray"
        bad = []
        if tuple(v.shape) != (self.rows, self.cols):
            bad.append("shape")
        if not dtype_allowed(self.kind, v.dtype):
            bad.append("dtype")
        if bad:
            return "reject", "+".join(bad)
        if type(v) is not np.ndarray or not dtype_certain(self.kind, v.dtype):
            return "either", "exotic"
        return ("accept" if _finite(v) else "accept_soft"), ""

    def classify3d(self, v):
        if self.kind != "photon":
            return "reject", "3d-for-2d-container"
        if not _is_da(v):
            return "either", "non-dataarray"
        if not dtype_allowed(self.kind, v.dtype):
            return "reject", "dtype"
        if v.ndim != 3:
            return "reject", "ndim"
        want = (self.rows, self.cols)
        if tuple(v.dims) == DIMS3:
            if (v.sizes["y"], v.sizes["x"]) != want:
                return "reject", "yx-size"
            if "wavelength" not in v.coords or not dtype_certain(self.kind, v.dtype):
                return "either", "no-coords-or-exotic"
            return ("accept" if _finite(v.values) else "accept_soft"), ""
        named = ("y" in v.dims and "x" in v.dims and (v.sizes["y"], v.sizes["x"]) == want)
        positional = tuple(v.shape[1:]) == want
        if not named and not positional:
            return "reject", "dims+size"
        return "either", "dims"

    def stored(self, v):
        """Content after an accepted assignment.  STATEMENT: assigned photon counts are never negative
        (the implementation clips to 0, which satisfies it)."""
        with np.errstate(all="ignore"):
            if _is_da(v):
                vals = np.array(v.values, copy=True)
                if self.kind == "photon":
                    vals = np.where(vals < 0, 0, vals).astype(vals.dtype)
                wl = np.array(v.coords["wavelength"].values, copy=True) if "wavelength" in v.coords else None
                return ("3d", vals, wl)
            arr = np.array(v, copy=True)
            if self.kind == "photon":
                arr = np.where(arr < 0, 0, arr).astype(arr.dtype)
            return ("2d", arr)

    # ---- transitions
    def p_assign(self, v, three_d: bool) -> Pred:
        outcome, reason = self.classify3d(v) if three_d else self.classify2d(v)
        if outcome in ("accept", "accept_soft"):
            return Pred(outcome, ("state", self.stored(v)), reason)
        if outcome == "reject":
            return Pred("reject", ("same",), reason)
        return Pred("either", ("valid",), reason)

    def p_update(self, v) -> Pred:
        if v is None:
            # Pixel: the override really empties; zeros would be as good for the statement
            return Pred("accept", ("empty_or_zeros",) if self.kind == "pixel" else ("empty",))
        if isinstance(v, np.ndarray):
            return self.p_assign(v, False)
        return Pred("either", ("valid",), "array-like")

    def p_iadd(self, v) -> Pred:
        """In-place addition.  The statement only demands that the container stays valid and that a
        refused operation leaves the content untouched; `+=` on an *empty* container may be treated
        as an assignment (today) or refused -- both are fine.  In the clean case (same shape, same
        certain dtype, finite operands and finite sum) the sum itself is checked with a tolerance."""
        st = self.state
        if st is None:
            three_d = _is_da(v)
            outcome, reason = self.classify3d(v) if three_d else self.classify2d(v)
            if outcome == "accept":
                return Pred("either", ("same_or_state", self.stored(v)), "iadd-on-empty")
            return Pred("either", ("valid",), "iadd-on-empty:" + reason)
        if self.fragile:
            return Pred("either", ("valid",), "fragile")
        with np.errstate(all="ignore"):
            if st[0] == "2d" and type(v) is np.ndarray:
                a = st[1]
                if (v.shape == a.shape and v.dtype == a.dtype and dtype_certain(self.kind, v.dtype)
                        and _finite(v) and _finite(a)):
                    s = a + v
                    if _finite(s):
                        return Pred("accept", ("sum", ("2d", s)), "clean")
            if st[0] == "3d" and _is_da(v) and tuple(v.dims) == DIMS3 and "wavelength" in v.coords:
                a, wl = st[1], st[2]
                if (tuple(v.shape) == a.shape and v.dtype == a.dtype and dtype_certain(self.kind, v.dtype)
                        and wl is not None and np.array_equal(np.asarray(v.coords["wavelength"].values), wl)
                        and _finite(v.values) and _finite(a)):
                    s = a + v.values
                    if _finite(s):
                        return Pred("accept", ("sum", ("3d", s, wl)), "clean")
        return Pred("either", ("valid",), "unclean")

    def p_empty(self) -> Pred:
        # STATEMENT: "resets".  Pixel.empty() legitimately leaves zeros (a never-initialised Pixel is empty).
        return Pred("accept", ("empty_or_zeros",) if self.kind == "pixel" else ("empty",))

    def p_det_empty(self, reset: bool) -> Pred:
        if self.kind in ("photon", "signal", "image"):
            return Pred("accept", ("empty",))
        if not reset:
            return Pred("accept", ("same",))
        if self.kind == "pixel":
            return Pred("accept", ("empty_or_zeros",))
        # phase (MKID): zeroed when it held data (x*0: NaN/inf stay NaN -> only 'valid' demanded then)
        if self.state is not None and not _finite(self.state[1]):
            return Pred("accept", ("valid",), "phase-nonfinite")
        return Pred("accept", ("empty_or_zeros",))

    def p_det_set(self, src_kind: str, src_state) -> Pred:
        """detector.<kind> = <other container>."""
        if src_state is None:
            return Pred("either", ("same_or_empty",), "empty-source")
        if src_state[0] == "3d":
            import xarray as xr
            v = xr.DataArray(src_state[1], dims=list(DIMS3),
                             coords=({"wavelength": src_state[2]} if src_state[2] is not None else None))
            pred = self.p_assign(v, True)
        else:
            pred = self.p_assign(src_state[1], False)
        if pred.outcome in ("accept", "accept_soft") and src_kind != self.kind:
            return Pred("either", ("same_or_state", pred.after[1]), "foreign-kind")
        return pred

    def p_read(self, attr: str):
        st = self.state
        if attr in ("array", "array_2d"):
            if st is None:
                return ("raise_value_error",)
            return ("value2d", st[1]) if st[0] == "2d" else ("any",)
        if attr == "array_3d":
            if st is None:
                return ("raise_value_error",)
            return ("value3d", st[1], st[2]) if st[0] == "3d" else ("any",)
        if attr == "dtype":
            return ("raise_value_error",) if st is None else ("equals", st[1].dtype)
        if attr == "shape":
            if self.kind != "photon":
                return ("equals", (self.rows, self.cols))
            return ("any",) if st is None else ("equals", tuple(st[1].shape))
        if attr == "asarray":
            if st is None:
                return ("raise_any",)
            return ("value2d", st[1]) if st[0] == "2d" else ("any",)
        return ("any",)


def eq_oracle(kx, gx, sx, ky, gy, sy):
    """STATEMENT: equal exactly when same kind and shape and (both empty or equal arrays).
    Returns (True | False | None, reason); None = the statement leaves it open."""
    if kx != ky:
        return False, "different-kind"
    if kx != "photon" and gx != gy:
        return False, "different-detector-shape"
    if sx is None and sy is None:
        if gx != gy:
            return None, "empty-photons-of-different-geometry"  # the public shape of both is ()
        return True, "both-empty"
    if sx is None or sy is None:
        return False, "one-empty"
    if sx[0] != sy[0]:
        return False, "2d-vs-3d"
    a, b = sx[1], sy[1]
    if a.shape != b.shape:
        return False, "different-array-shape"
    with np.errstate(all="ignore"):
        if (a.dtype.kind == "f" and np.isnan(a).any()) or (b.dtype.kind == "f" and np.isnan(b).any()):
            return None, "nan"
        if not np.array_equal(a, b):
            return False, "unequal-arrays"
    if a.dtype != b.dtype:
        return None, "equal-values-different-dtype"
    if sx[0] == "3d":
        if sx[2] is None or sy[2] is None or not np.array_equal(sx[2], sy[2]):
            return None, "equal-values-different-wavelengths"
    return True, "equal-arrays"


def states_same_bits(s1, s2) -> bool:
    if s1 is None or s2 is None:
        return s1 is None and s2 is None
    if s1[0] != s2[0]:
        return False
    a, b = s1[1], s2[1]
    if a.dtype != b.dtype or a.shape != b.shape:
        return False
    if a.dtype.kind == "O":
        return bool(np.array_equal(a, b))
    if np.ascontiguousarray(a).tobytes() != np.ascontiguousarray(b).tobytes():
        return False
    if s1[0] == "3d":
        w1, w2 = s1[2], s2[2]
        if (w1 is None) != (w2 is None) or (w1 is not None and not np.array_equal(w1, w2)):
            return False
    return True


def states_equal_values(s1, s2) -> bool:
    """Numerically equal content (NaN == NaN), dtype not compared."""
    if s1 is None or s2 is None:
        return s1 is None and s2 is None
    if s1[0] != s2[0] or s1[1].shape != s2[1].shape:
        return False
    with np.errstate(all="ignore"):
        try:
            if not np.array_equal(s1[1], s2[1], equal_nan=True):
                return False
        except TypeError:
            if not np.array_equal(s1[1], s2[1]):
                return False
    if s1[0] == "3d" and s1[2] is not None and s2[2] is not None and not np.array_equal(s1[2], s2[2]):
        return False
    return True


def states_close(s1, s2) -> bool:
    if s1 is None or s2 is None or s1[0] != s2[0] or s1[1].shape != s2[1].shape:
        return False
    a, b = s1[1], s2[1]
    if a.dtype.kind == "u":
        return bool(np.array_equal(a, b))
    rtol = 1e-2 if min(a.dtype.itemsize, b.dtype.itemsize) <= 2 else 1e-5
    with np.errstate(all="ignore"):
        return bool(np.allclose(a.astype(np.float64), b.astype(np.float64), rtol=rtol, atol=1e-300))


# =====================================================================================
# value generators (deterministic from a JSON-able description, so a case can be replayed)
# =====================================================================================
DTYPES = ["bool", "int8", "int16", "int32", "int64", "uint8", "uint16", "uint32", "uint64",
          "float16", "float32", "float64", "longdouble", "complex64", "complex128", "object", "str"]
SHAPES = ["ok", "T", "r+1", "r-1", "c+1", "c-1", "1d_c", "1d_rc", "3d_1", "3d_2", "trail1", "0d"]
PATTERNS = ["zeros", "ones", "ramp", "rand", "neg", "mixed", "nan", "inf", "ninf", "huge", "tiny", "nan_neg"]
LAYOUTS = ["C", "C", "C", "F", "strided", "readonly"]
OTHER_FORMS = ["list", "none", "scalar", "masked", "dataarray2d"]


def shape_of(cls: str, rows: int, cols: int) -> tuple:
    return {
        "ok": (rows, cols),
        "T": (cols, rows) if rows != cols else (rows + 1, cols + 1),
        "r+1": (rows + 1, cols), "r-1": (rows - 1, cols), "c+1": (rows, cols + 1), "c-1": (rows, cols - 1),
        "1d_c": (cols,), "1d_rc": (rows * cols,), "3d_1": (1, rows, cols), "3d_2": (2, rows, cols),
        "trail1": (rows, cols, 1), "0d": (),
    }[cls]


def _pattern(pattern: str, n: int, salt: int) -> np.ndarray:
    idx = np.arange(n, dtype=np.float64)
    if pattern == "zeros":
        return np.zeros(n)
    if pattern == "ones":
        return np.ones(n)
    if pattern == "rand":
        return np.random.RandomState(1000 + salt).random_sample(n) * 1000.0 + 0.5
    if pattern == "neg":
        return -(idx + 1.0 + salt)
    if pattern == "mixed":
        return (idx - (n // 2)) * 3.5 - 0.25 - salt
    if pattern == "nan_neg":
        # negative values next to a NaN (added after a seeded change -- `value.min() < 0` instead of
        # `np.any(value < 0)` -- was missed: NaN swallowed the negative-value guard)
        v = (idx - (n // 2)) * 3.5 - 0.25 - salt
        if n > 1:
            v[-1] = np.nan
        return v
    if pattern == "huge":
        return (idx + 1.0 + salt) * 1e300
    if pattern == "tiny":
        return (idx + 1.0 + salt) * 1e-300
    v = idx + 1.0 + salt  # ramp and the non-finite variants of it
    if n:
        if pattern == "nan":
            v[0] = np.nan
        elif pattern == "inf":
            v[-1] = np.inf
        elif pattern == "ninf":
            v[0] = -np.inf
    return v


def _cast(v: np.ndarray, dtype: str) -> np.ndarray:
    with np.errstate(all="ignore"):
        if dtype == "object":
            return v.astype(object)
        if dtype == "str":
            return v.astype(str)
        dt = np.dtype(dtype)
        if dt.kind == "b":
            return np.nan_to_num(v) != 0
        if dt.kind in "iu":
            info = np.iinfo(dt)
            out = []
            for x in v.tolist():
                if x != x:
                    x = 0
                elif x in (float("inf"), float("-inf")):
                    x = info.max if x > 0 else info.min
                out.append(min(max(int(x), int(info.min)), int(info.max)))
            return np.array(out, dtype=dt).reshape(v.shape)
        if dt.kind == "c":
            return (v + 1j * v).astype(dt)
        return v.astype(dt)


def build_ndarray(desc: dict, rows: int, cols: int) -> np.ndarray:
    shape = shape_of(desc.get("shape", "ok"), rows, cols)
    n = int(np.prod(shape)) if shape else 1
    arr = _cast(_pattern(desc.get("pattern", "ramp"), n, desc.get("salt", 0)), desc.get("dtype", "float64")).reshape(shape)
    layout = desc.get("layout", "C")
    if layout == "F" and arr.ndim >= 2:
        arr = np.asfortranarray(arr)
    elif layout == "strided" and arr.ndim >= 1:
        big = np.zeros(arr.shape[:-1] + (arr.shape[-1] * 2,), dtype=arr.dtype)
        big[..., ::2] = arr
        arr = big[..., ::2]
    elif layout == "readonly":
        arr = arr.copy()
        arr.setflags(write=False)
    return arr


def build_dataarray(desc: dict, rows: int, cols: int):
    import xarray as xr
    nw = desc.get("nw", 2)
    r, c = shape_of(desc.get("yx", "ok"), rows, cols)
    vals = _cast(_pattern(desc.get("pattern", "ramp"), nw * r * c, desc.get("salt", 0)),
                 desc.get("dtype", "float64")).reshape((nw, r, c))
    wl = (400.0 if desc.get("coords", "ok") != "shift" else 410.0) + 50.0 * np.arange(nw)
    dims_v = desc.get("dims", "ok")
    if dims_v == "order":
        data, dims = np.transpose(vals, (1, 0, 2)), ("y", "wavelength", "x")
    elif dims_v == "names":
        data, dims = vals, ("w", "y", "x")
    elif dims_v == "2d":
        data, dims = vals[0], ("y", "x")
    elif dims_v == "4d":
        data, dims = vals[None], ("t", "wavelength", "y", "x")
    else:
        data, dims = vals, DIMS3
    coords = {"wavelength": wl} if ("wavelength" in dims and desc.get("coords", "ok") != "missing") else None
    return xr.DataArray(data, dims=list(dims), coords=coords)


def build_value(desc, rows: int, cols: int):
    form = desc.get("form", "ndarray")
    if form == "ndarray":
        return build_ndarray(desc, rows, cols)
    if form == "dataarray":
        return build_dataarray(desc, rows, cols)
    if form == "ndarray3d":
        return np.asarray(build_dataarray(dict(desc, dims="ok"), rows, cols).values)
    if form == "list":
        return build_ndarray(dict(desc, layout="C"), rows, cols).tolist()
    if form == "none":
        return None
    if form == "scalar":
        return 3.5
    if form == "masked":
        return np.ma.masked_array(build_ndarray(dict(desc, layout="C"), rows, cols))
    if form == "dataarray2d":
        import xarray as xr
        arr = build_ndarray(dict(desc, layout="C"), rows, cols)
        return xr.DataArray(arr, dims=["y", "x"][: arr.ndim] if arr.ndim <= 2 else [f"d{i}" for i in range(arr.ndim)])
    raise ValueError(form)


def gen_value2d(rng, kind: str, p_valid: float = 0.55) -> dict:
    if rng.random() < 0.07:
        return {"form": rng.choice(OTHER_FORMS), "shape": "ok", "dtype": "float64",
                "pattern": rng.choice(PATTERNS[:4]), "salt": rng.randint(0, 1)}
    if rng.random() < p_valid:
        dts = CERTAIN["u" if kind == "image" else "f"]
        return {"form": "ndarray", "shape": "ok", "dtype": rng.choice(dts), "pattern": rng.choice(PATTERNS),
                "layout": rng.choice(LAYOUTS), "salt": rng.randint(0, 1)}
    return {"form": "ndarray", "shape": rng.choice(SHAPES + ["ok", "ok"]), "dtype": rng.choice(DTYPES),
            "pattern": rng.choice(PATTERNS), "layout": rng.choice(LAYOUTS), "salt": rng.randint(0, 1)}


def gen_value3d(rng, p_valid: float = 0.55) -> dict:
    if rng.random() < 0.06:
        return {"form": rng.choice(["ndarray3d", "none", "ndarray"]), "nw": 2, "shape": "ok", "dtype": "float64",
                "pattern": "ramp", "salt": 0}
    if rng.random() < p_valid:
        return {"form": "dataarray", "nw": rng.randint(1, 3), "yx": "ok", "dims": "ok", "coords": "ok",
                "dtype": rng.choice(CERTAIN["f"]), "pattern": rng.choice(PATTERNS), "salt": rng.randint(0, 1)}
    return {"form": "dataarray", "nw": rng.randint(1, 3), "yx": rng.choice(["ok", "ok", "T", "r+1", "c-1", "c+1"]),
            "dims": rng.choice(["ok", "ok", "ok", "order", "names", "2d", "4d"]),
            "coords": rng.choice(["ok", "ok", "missing", "shift"]),
            "dtype": rng.choice(DTYPES), "pattern": rng.choice(PATTERNS), "salt": rng.randint(0, 1)}


# =====================================================================================
# M4 -- contracts on the real classes (harness side; pyxel is imported lazily from here on)
# =====================================================================================
_EVALS: dict[str, int] = {}
_FAILS: list[dict] = []
_REG: dict[int, tuple] = {}
_CTX = {"op": "startup"}
_STATS = {"internal_errors": 0, "unregistered": 0, "shape_unknown": 0}
_ATTACHED = False


class BucketInvariantError(AssertionError):
    """Never raised: the invariants record and return True."""


def _inv_error(self) -> Exception:
    return BucketInvariantError(f"bucket invariant of {type(self).__name__}")


def register(obj, rows: int, cols: int) -> None:
    key = id(obj)

    def _gone(ref, key=key):
        cur = _REG.get(key)
        if cur is not None and cur[2] is ref:
            _REG.pop(key, None)

    _REG[key] = (int(rows), int(cols), weakref.ref(obj, _gone))


def expected_shape(obj):
    ent = _REG.get(id(obj))
    if ent is None or ent[2]() is not obj:
        return None
    return ent[0], ent[1]


def kind_of(obj):
    for cls in type(obj).__mro__:
        if cls.__name__.lower() in KINDS:
            return cls.__name__.lower()
    return None


def public_state(obj, kind: str) -> tuple:
    """("empty",) | ("2d", object returned by .array) | ("3d", object returned by .array_3d) | ("bad", what).
    Public attributes only: an empty container is one whose .array raises ValueError."""
    try:
        a = obj.array
    except ValueError:
        return ("empty",)
    except TypeError:
        if kind != "photon":
            return ("bad", "read-raises-TypeError")
        try:
            return ("3d", obj.array_3d)
        except Exception as exc:  # noqa: BLE001
            return ("bad", f"read-raises-{type(exc).__name__}")
    except Exception as exc:  # noqa: BLE001
        return ("bad", f"read-raises-{type(exc).__name__}")
    return ("2d", a)


def _check_invariant(self, kind) -> bool:
    try:
        if kind is None:
            kind = kind_of(self)
            if kind is None:
                return True
        _EVALS[kind] = _EVALS.get(kind, 0) + 1
        exp = expected_shape(self)
        if exp is None:
            _STATS["unregistered"] += 1
            if kind != "photon":
                exp = tuple(self.shape)   # public: the configured shape of an ArrayBase
            else:
                _STATS["shape_unknown"] += 1
        st = public_state(self, kind)
        for what in judge(kind, st, exp):
            if len(_FAILS) < 400:
                info = ""
                if st[0] in ("2d", "3d"):
                    info = f"{type(st[1]).__name__} shape={getattr(st[1], 'shape', None)} dtype={getattr(st[1], 'dtype', None)} expected={exp}"
                _FAILS.append({"kind": kind, "what": what, "op": _CTX["op"], "info": info})
    except Exception as exc:  # noqa: BLE001 - an invariant must never perturb the execution
        _STATS["internal_errors"] += 1
        _STATS["last_internal_error"] = repr(exc)
    return True


def inv_photon(self) -> bool:
    return _check_invariant(self, "photon")


def inv_pixel(self) -> bool:
    return _check_invariant(self, "pixel")


def inv_signal(self) -> bool:
    return _check_invariant(self, "signal")


def inv_image(self) -> bool:
    return _check_invariant(self, "image")


def inv_phase(self) -> bool:
    return _check_invariant(self, "phase")


def inv_arraybase(self) -> bool:
    return _check_invariant(self, None)


def _wrap_init(cls) -> None:
    orig = cls.__dict__.get("__init__")
    if orig is None:
        return

    @functools.wraps(orig)
    def __init__(self, *args, **kwargs):
        orig(self, *args, **kwargs)
        try:
            geo = args[0] if args else kwargs.get("geo", next(iter(kwargs.values()), None))
            register(self, int(geo.row), int(geo.col))
        except Exception:  # noqa: BLE001
            pass

    cls.__init__ = __init__


def attach_contracts() -> None:
    """Attach the recording invariants to the real classes (once per process)."""
    global _ATTACHED
    if _ATTACHED:
        return
    deps = os.path.join(os.path.dirname(os.path.dirname(os.path.dirname(os.path.abspath(__file__)))), ".deps")
    if os.path.isdir(deps) and deps not in sys.path:
        sys.path.append(deps)
    import icontract
    from pyxel.data_structure import ArrayBase, Image, Phase, Photon, Pixel, Signal

    table = {"photon": (Photon, inv_photon), "pixel": (Pixel, inv_pixel), "signal": (Signal, inv_signal),
             "image": (Image, inv_image), "phase": (Phase, inv_phase)}
    # subclasses first, ArrayBase last: each class then owns its invariant list, and the inherited
    # methods (array, update, +=, ==, ...) wrapped on ArrayBase evaluate the instance's own class.
    for _kind, (cls, inv) in table.items():
        _wrap_init(cls)
        icontract.invariant(inv, error=_inv_error)(cls)
    icontract.invariant(inv_arraybase, error=_inv_error)(ArrayBase)
    _ATTACHED = True


def drain_fails() -> list[dict]:
    out = list(_FAILS)
    _FAILS.clear()
    return out


def total_evals() -> int:
    return sum(_EVALS.values())


# =====================================================================================
# harness: real containers + reference buckets, one operation at a time
# =====================================================================================
def observe(obj, kind: str):
    """Snapshot through the public API: None (empty) | ("2d", copy) | ("3d", values copy, wl copy) | ("bad", what)."""
    st = public_state(obj, kind)
    if st[0] == "empty":
        return None
    if st[0] == "bad":
        return st
    if st[0] == "2d":
        if not isinstance(st[1], np.ndarray):
            return ("bad", "not-ndarray")
        return ("2d", np.array(st[1], copy=True))
    da = st[1]
    if not _is_da(da):
        return ("bad", "3d-not-dataarray")
    wl = np.array(da.coords["wavelength"].values, copy=True) if "wavelength" in da.coords else None
    return ("3d", np.array(da.values, copy=True), wl, tuple(da.dims))


def obs_problems(kind, obj, rows, cols) -> list[str]:
    return judge(kind, public_state(obj, kind), (rows, cols))


def brief(x) -> str:
    if x is None:
        return "empty"
    if isinstance(x, tuple) and len(x) >= 2 and x[0] == "bad":
        return f"bad:{x[1]}"
    if isinstance(x, tuple) and len(x) >= 2 and x[0] in ("2d", "3d") and isinstance(x[1], np.ndarray):
        return f"{x[0]} shape={x[1].shape} dtype={x[1].dtype} min={_safe_min(x[1])}"
    if isinstance(x, (tuple, int, float, str, np.dtype)):
        return repr(x)[:80]
    return f"{type(x).__name__} shape={getattr(x, 'shape', None)} dtype={getattr(x, 'dtype', None)}"


def _safe_min(a):
    try:
        with np.errstate(all="ignore"):
            return float(np.nanmin(a)) if a.size else None
    except Exception:  # noqa: BLE001
        return "?"


class Slot:
    def __init__(self, name, kind, rows, cols, obj, det_label):
        self.name, self.kind, self.rows, self.cols, self.obj, self.det = name, kind, rows, cols, obj, det_label
        self.model = RefBucket(kind, rows, cols)


class Case:
    """Two real detectors (A, B), their containers, and the reference bucket of each."""

    def __init__(self, rec, index, spec_a: dict, spec_b: dict, label: str):
        from pyxel.data_structure import Phase
        from vf import build
        self.rec, self.index, self.label = rec, index, label
        self.specs = {"A": spec_a, "B": spec_b}
        self.dets, self.slots, self.trace = {}, {}, []
        self.mutations = 0
        for lab, sp in self.specs.items():
            det = build.make_detector(build.default_detector_spec(sp["kind"], sp["rows"], sp["cols"]))
            self.dets[lab] = det
            for kind in KINDS:
                if kind == "phase":
                    obj = det.phase if sp["kind"] == "mkid" else Phase(geo=det.geometry)
                else:
                    obj = getattr(det, kind)
                self.slots[f"{lab}.{kind}"] = Slot(f"{lab}.{kind}", kind, sp["rows"], sp["cols"], obj, lab)
                if expected_shape(obj) != (sp["rows"], sp["cols"]):
                    rec.count("registry_mismatch")
                    register(obj, sp["rows"], sp["cols"])
        drain_fails()

    # ---------------------------------------------------------------- reporting
    def case_desc(self, d):
        return {"label": self.label, "detectors": self.specs, "failing_op": d, "ops_before": self.trace[-14:]}

    def viol(self, mech: str, detail: str, d) -> None:
        for prefix in OPEN_FINDINGS:
            if mech.startswith(prefix) and not STRICT:
                self.rec.count("open_finding_hits")
                self.rec.observe("open_findings", mech)
                return
        self.rec.violation(mech, detail, self.case_desc(d), self.index)

    def sync(self, slot: Slot, d=None) -> None:
        """Bring the reference bucket in line with the real container (repairing an invalid one)."""
        _CTX["op"] = "repair"
        if obs_problems(slot.kind, slot.obj, slot.rows, slot.cols):
            try:
                slot.obj.empty()
            except Exception:  # noqa: BLE001
                pass
            self.rec.count("repairs")
        obs = observe(slot.obj, slot.kind)
        slot.model.state = obs[:3] if obs is not None and obs[0] != "bad" else None
        drain_fails()

    # ---------------------------------------------------------------- one mutating operation
    def mutate(self, slot: Slot, label: str, pred: Pred, action, d, assign: bool, value=None) -> None:
        rec = self.rec
        mech = f"C13:{slot.kind}.{label}"
        before = observe(slot.obj, slot.kind)
        before = before[:3] if before is not None and before[0] != "bad" else before
        drain_fails()
        _CTX["op"] = f"{slot.kind}.{label}"
        exc = None
        try:
            action()
        except Exception as e:  # noqa: BLE001
            exc = e
        after_full = observe(slot.obj, slot.kind)
        problems = set(obs_problems(slot.kind, slot.obj, slot.rows, slot.cols))
        problems.update(f["what"] for f in drain_fails() if f["kind"] == slot.kind)
        after = after_full[:3] if after_full is not None and after_full[0] != "bad" else after_full
        ctx = (f"value={brief(value)} pred={pred.outcome}/{pred.reason} raised={type(exc).__name__ if exc else None}"
               f"({str(exc)[:80] if exc else ''}) before={brief(before)} after={brief(after)} geometry={(slot.rows, slot.cols)}")
        self.mutations += 1
        # (1) STATEMENT: a container is either empty or holds a valid array -- after ANY operation
        for what in sorted(problems):
            self.viol(f"{mech}:invariant-{what}", ctx, d)
        bad_after = after is not None and after[0] == "bad"
        bad_before = before is not None and before[0] == "bad"
        if exc is not None:
            # (2) STATEMENT: a refused operation leaves the previous content untouched (bit-wise)
            if not bad_after and not bad_before and not states_same_bits(before, after):
                if assign or label == "empty":
                    self.viol(f"{mech}:rejected-but-content-changed", ctx, d)
                elif before is None:
                    # `+=` / `+` on an EMPTY container: there is nothing to add to, so the operation can
                    # only be the assignment of the operand (what today's code does) or be refused.
                    # STATEMENT: "an assignment that violates this raises an error and leaves the previous
                    # content untouched" and "reading an empty container raises an explanatory error
                    # instead of returning ... data": a container whose every operation so far was
                    # refused (or a reset) has never been given data, hence must still read as empty.
                    # (Added after a seeded change -- zero-fill the empty container, then add -- was
                    # missed: the refused addition left zeros nobody assigned and the harness resynced
                    # its reference bucket to them.)
                    rec.count("iadd_refused_on_empty_not_empty")
                    self.viol(f"{mech}:rejected-on-empty-but-no-longer-empty", ctx, d)
                else:
                    # The sentence of the statement speaks of an *assignment*; `+=` / `+` are "in-place
                    # additions".  Seen on the pinned tree: `pixel += <DataArray>` adds in place and then
                    # raises TypeError from the setter.  The content is still valid (invariant above), so
                    # this is counted and reported, not alarmed on.
                    rec.count("iadd_refused_but_content_changed")
                    rec.observe("iadd_refused_but_content_changed", f"{slot.kind}:{type(value).__name__}:{type(exc).__name__}")
            elif assign:
                rec.count("rejected_checked_unchanged")
            elif before is None and after is None and label in ("+=", "+"):
                rec.count("iadd_refused_on_empty_checked")
            if pred.outcome == "accept":
                self.viol(f"{mech}:valid-rejected", ctx, d)
            elif pred.outcome == "accept_soft":
                rec.count("refused_nonfinite")
            elif pred.outcome == "either":
                rec.count("either_refused")
        else:
            if pred.outcome == "reject":
                # (3) STATEMENT: an assignment that violates the rule raises an error
                self.viol(f"{mech}:invalid-accepted:{pred.reason}", ctx, d)
            elif not bad_after and not problems:
                why = self.after_ok(pred.after, before, after, slot)
                if why:
                    self.viol(f"{mech}:{why}", ctx, d)
                if pred.outcome == "either":
                    rec.count("either_accepted")
                if pred.after[0] == "state":
                    rec.count("accepted_checked_content")
                if pred.after[0] == "sum":
                    rec.count("iadd_sum_checked")
            if slot.kind == "photon" and after is not None and not bad_after and _has_neg(after[1]):
                if assign:
                    # (4) STATEMENT: assigned photon counts are never negative
                    self.viol(f"{mech}:negative-after-assignment", ctx, d)
                else:
                    # `+=` is an "in-place addition", not an "assignment" in the wording of the statement:
                    # a negative sum (photon 1 += -5) is stored by today's code and is not covered by
                    # "assigned photon counts are never negative" -> counted, not alarmed on.
                    rec.count("photon_negative_after_iadd")
            if (slot.kind == "photon" and assign and value is not None and hasattr(value, "dtype")
                    and getattr(value.dtype, "kind", "") == "f" and _has_neg(getattr(value, "values", value))
                    and after is not None and not bad_after and not _has_neg(after[1])):
                rec.count("photon_negative_assigned_clipped")
        # resync the reference bucket (an 'either' outcome is resolved by what happened)
        if value is not None and isinstance(value, np.ndarray) and exc is None:
            slot.model.fragile = (not value.flags.writeable) or type(value) is not np.ndarray
        elif exc is None and label not in ("+=", "+"):
            slot.model.fragile = False
        self.sync(slot, d)

    def after_ok(self, spec, before, after, slot):
        tag = spec[0]
        if tag == "valid":
            return None
        if tag == "same":
            return None if states_same_bits(before, after) else "content-changed"
        if tag == "empty":
            self.rec.count("reset_checked")
            if after is None:
                return None
            return "stale-after-reset" if states_same_bits(before, after) else "not-empty-after-reset"
        if tag == "empty_or_zeros":
            self.rec.count("reset_checked")
            if after is None:
                return None
            if after[0] == "2d" and not np.any(after[1] != 0):
                self.rec.count("reset_left_zeros")
                return None
            return "stale-after-reset"
        if tag == "state":
            return None if states_equal_values(spec[1], after) else "content-differs-from-assigned"
        if tag == "same_or_empty":
            return None if after is None or states_same_bits(before, after) else "content-changed"
        if tag == "same_or_state":
            if states_same_bits(before, after) or states_equal_values(spec[1], after):
                return None
            return "content-differs-from-assigned"
        if tag == "sum":
            if states_close(spec[1], after):
                return None
            if slot.kind == "photon":
                clipped = (spec[1][0], np.where(spec[1][1] < 0, 0, spec[1][1])) + tuple(spec[1][2:])
                if states_close(clipped, after):
                    return None
            return "sum-wrong"
        return None

    # ---------------------------------------------------------------- operations
    def step(self, d: dict) -> None:
        self.rec.count("ops_total")
        getattr(self, "op_" + d["op"])(d)
        self.trace.append(d)

    def op_set(self, d):
        slot = self.slots[d["slot"]]
        attr = d["attr"]
        if not hasattr(type(slot.obj), attr):
            self.rec.count("attr_absent")
            return
        if d["value"].get("form") == "copy_of":
            src = observe(self.slots[d["value"]["from"]].obj, self.slots[d["value"]["from"]].kind)
            if src is None or src[0] != "2d":
                self.rec.count("copy_of_skipped")
                return
            v = np.array(src[1], copy=True)
        else:
            v = build_value(d["value"], slot.rows, slot.cols)
        three_d = attr == "array_3d"
        pred = slot.model.p_assign(v, three_d)
        self.rec.count("ops_set3d" if three_d else "ops_set")
        self.rec.observe("assigned_dtypes", str(getattr(v, "dtype", type(v).__name__)))
        self.rec.observe("assign_outcomes", f"{slot.kind}:{pred.outcome}:{pred.reason}")
        self.mutate(slot, attr + "=", pred, lambda: setattr(slot.obj, attr, v), d, assign=True, value=v)

    def op_update(self, d):
        slot = self.slots[d["slot"]]
        if not hasattr(type(slot.obj), "update"):
            self.rec.count("update_absent")   # Photon has no update()
            return
        v = None if d["value"] is None else build_value(d["value"], slot.rows, slot.cols)
        self.rec.count("ops_update")
        self.mutate(slot, "update", slot.model.p_update(v), lambda: slot.obj.update(v), d, assign=True, value=v)

    def op_iadd(self, d):
        slot = self.slots[d["slot"]]
        v = build_value(d["value"], slot.rows, slot.cols)
        pred = slot.model.p_iadd(v)
        holder = [slot.obj]
        if d.get("binary"):
            self.rec.count("ops_add")
            pred = Pred("either", pred.after if pred.after[0] == "valid" else ("valid",), "binary-add")

            def action():
                holder[0] + v  # noqa: B018
            self.mutate(slot, "+", pred, action, d, assign=False, value=v)
            return
        self.rec.count("ops_iadd")
        self.rec.observe("iadd_preds", f"{slot.kind}:{pred.outcome}:{pred.reason}")

        def action():
            holder[0] += v
            if holder[0] is not slot.obj:
                self.rec.count("iadd_returned_other_object")
        self.mutate(slot, "+=", pred, action, d, assign=False, value=v)

    def op_empty(self, d):
        slot = self.slots[d["slot"]]
        self.rec.count("ops_empty")
        self.mutate(slot, "empty", slot.model.p_empty(), slot.obj.empty, d, assign=False)

    def op_det_empty(self, d):
        lab, reset = d["det"], d["reset"]
        det = self.dets[lab]
        self.rec.count("ops_det_empty")
        slots = [s for s in self.slots.values() if s.det == lab and (s.kind != "phase" or self.specs[lab]["kind"] == "mkid")]
        befores = {s.name: observe(s.obj, s.kind) for s in slots}
        preds = {s.name: s.model.p_det_empty(reset) for s in slots}
        fragile = any(s.model.fragile for s in slots)
        drain_fails()
        _CTX["op"] = "detector.empty"
        exc = None
        try:
            det.empty(reset) if d.get("positional") else det.empty(reset=reset)
        except Exception as e:  # noqa: BLE001
            exc = e
        fails = drain_fails()
        for s in slots:
            mech = f"C13:{s.kind}.detector.empty"
            before = befores[s.name]
            before = before[:3] if before is not None and before[0] != "bad" else before
            after = observe(s.obj, s.kind)
            after = after[:3] if after is not None and after[0] != "bad" else after
            ctx = f"reset={reset} before={brief(before)} after={brief(after)} raised={exc!r}"
            problems = set(obs_problems(s.kind, s.obj, s.rows, s.cols)) | {f["what"] for f in fails if f["kind"] == s.kind}
            for what in sorted(problems):
                self.viol(f"{mech}:invariant-{what}", ctx, d)
            if exc is None and not problems:
                why = self.after_ok(preds[s.name].after, before, after, s)
                if why:
                    self.viol(f"{mech}:{why}", ctx, d)
            self.sync(s, d)
        if exc is not None:
            if fragile:
                self.rec.count("det_empty_refused_fragile")
            else:
                self.viol("C13:detector.empty:raised", f"{type(exc).__name__}: {str(exc)[:200]}", d)
        self.mutations += 1

    def op_det_set(self, d):
        from pyxel import data_structure as ds
        from vf import build
        lab, kind, src = d["det"], d["kind"], d["src"]
        slot = self.slots[f"{lab}.{kind}"]
        sdet = build.make_detector(build.default_detector_spec("ccd", src["rows"], src["cols"]))
        sobj = ds.Phase(geo=sdet.geometry) if src["kind"] == "phase" else getattr(sdet, src["kind"])
        _CTX["op"] = "source-setup"
        if src.get("value") is not None:
            try:
                v = build_value(src["value"], src["rows"], src["cols"])
                if src["value"].get("form") == "dataarray":
                    sobj.array_3d = v
                else:
                    sobj.array = v
            except Exception:  # noqa: BLE001
                pass
        sobs = observe(sobj, src["kind"])
        drain_fails()
        if sobs is not None and sobs[0] == "bad":
            self.rec.count("det_set_source_bad")
            return
        sstate = sobs[:3] if sobs is not None else None
        pred = slot.model.p_det_set(src["kind"], sstate)
        self.rec.count("ops_det_set")
        self.rec.observe("det_set_classes", f"{kind}<-{src['kind']}:{'empty' if sstate is None else sstate[0]}:"
                                            f"{'same' if (src['rows'], src['cols']) == (slot.rows, slot.cols) else 'foreign'}-geometry:{pred.outcome}")
        self.mutate(slot, "detector=", pred, lambda: setattr(self.dets[lab], kind, sobj), d, assign=True,
                    value=(sstate[1] if sstate is not None else None))
        sv = src.get("value") or {}
        if sv.get("layout") == "readonly" or sv.get("form") == "masked":
            slot.model.fragile = True   # ArrayBase keeps a reference to the (read-only) array of the source

    def op_read(self, d):
        slot, attr = self.slots[d["slot"]], d["attr"]
        rec = self.rec
        if attr not in ("asarray", "repr") and not hasattr(type(slot.obj), attr):
            rec.count("attr_absent")
            return
        exp = slot.model.p_read(attr)
        mech = f"C13:{slot.kind}.read.{attr}"
        drain_fails()
        _CTX["op"] = f"{slot.kind}.read.{attr}"
        exc, val = None, None
        try:
            if attr == "asarray":
                val = np.asarray(slot.obj)
            elif attr == "repr":
                val = repr(slot.obj)
            else:
                val = getattr(slot.obj, attr)
        except Exception as e:  # noqa: BLE001
            exc = e
        rec.count("ops_read")
        ctx = f"model={brief(slot.model.state)} returned={brief(val) if exc is None else None} raised={exc!r:.200}"
        for f in drain_fails():
            if f["kind"] == slot.kind:
                self.viol(f"{mech}:invariant-{f['what']}", ctx, d)
        if exp[0] == "raise_value_error":
            # STATEMENT: reading an empty container raises an explanatory error instead of returning
            # (stale) data.  The documented type of that error is ValueError (docstrings of .array).
            if exc is None:
                self.viol(f"{mech}:read-empty-returned-data", ctx, d)
            elif not isinstance(exc, ValueError):
                self.viol(f"{mech}:read-empty-not-ValueError", ctx, d)
            elif not str(exc).strip():
                self.viol(f"{mech}:read-empty-unexplained", ctx, d)
            else:
                rec.count("read_empty_raised")
        elif exp[0] == "raise_any":
            if exc is None:
                self.viol(f"{mech}:read-empty-returned-data", ctx, d)
            else:
                rec.count("read_empty_raised_any")
                rec.observe("asarray_empty_exception", type(exc).__name__)
        elif exp[0] == "any":
            rec.count("read_unspecified")
            if exc is not None:
                rec.observe("read_unspecified_exceptions", f"{slot.kind}.{attr}:{type(exc).__name__}")
        elif exc is not None:
            self.viol(f"{mech}:read-of-filled-container-raised", ctx, d)
        elif exp[0] == "value2d":
            ok = isinstance(val, np.ndarray) and states_equal_values(("2d", exp[1]), ("2d", np.asarray(val)))
            rec.count("read_values_checked")
            if not ok:
                self.viol(f"{mech}:read-differs-from-content", ctx, d)
        elif exp[0] == "value3d":
            ok = _is_da(val) and states_equal_values(("2d", exp[1]), ("2d", np.asarray(val.values)))
            rec.count("read_values_checked")
            if not ok:
                self.viol(f"{mech}:read-differs-from-content", ctx, d)
        elif exp[0] == "equals":
            rec.count("read_values_checked")
            got = tuple(val) if isinstance(exp[1], tuple) and isinstance(val, (tuple, list)) else val
            if got != exp[1]:
                self.viol(f"{mech}:read-wrong-value", ctx + f" expected={exp[1]}", d)
        self.sync(slot, d)

    def op_eq(self, d):
        rec = self.rec
        sx = self.slots[d["x"]]
        x = sx.obj
        stx = observe(x, sx.kind)
        other = d["y"]
        temp = None
        if isinstance(other, dict):
            if other.get("other") == "deepcopy":
                y = copy.deepcopy(x)
                register(y, sx.rows, sx.cols)
                ky, gy, sty, temp = sx.kind, (sx.rows, sx.cols), stx, y
            else:
                y = {"none": None, "int": 3, "str": "pixel", "ndarray": np.ones((sx.rows, sx.cols)),
                     "tuple": (sx.rows, sx.cols)}[other["other"]]
                ky, gy, sty = "not-a-container", None, None
        else:
            sy = self.slots[other]
            y, ky, gy, sty = sy.obj, sy.kind, (sy.rows, sy.cols), observe(sy.obj, sy.kind)
        if (stx is not None and stx[0] == "bad") or (sty is not None and sty[0] == "bad"):
            rec.count("eq_skipped_bad_state")
            return
        want, reason = eq_oracle(sx.kind, (sx.rows, sx.cols), stx, ky, gy, sty)
        rec.count("ops_eq")
        mech = f"C13:eq:{sx.kind}-vs-{ky if ky == sx.kind else ('other-kind' if ky in KINDS else 'non-container')}"
        ctx = f"x={d['x']}:{brief(stx)} y={other}:{brief(sty)} oracle={want} ({reason})"
        drain_fails()
        _CTX["op"] = "eq"
        results = []
        pairs = [(x, y)] if (ky == "not-a-container" and isinstance(y, np.ndarray)) else [(x, y), (y, x)]
        for a, b in pairs:
            try:
                r = a == b
                results.append(bool(r))
            except Exception as e:  # noqa: BLE001
                # STATEMENT: "compare equal exactly when ..." -- a comparison that raises gives no answer
                self.viol(f"{mech}:eq-raised:{reason}", ctx + f" raised={e!r:.200}", d)
                results.append(None)
        drain_fails()
        if None not in results:
            rec.count("eq_checked")
            rec.observe("eq_classes", f"{sx.kind}/{ky if ky in KINDS else 'x'}:{reason}")
            if len(results) == 2 and results[0] != results[1]:
                self.viol(f"{mech}:eq-asymmetric:{reason}", ctx + f" x==y:{results[0]} y==x:{results[1]}", d)
            if want is None:
                rec.count("eq_unspecified")
            else:
                rec.count("eq_expected_true" if want else "eq_expected_false")
                if any(r != want for r in results):
                    self.viol(f"{mech}:eq-differs-from-oracle:{reason}", ctx + f" got={results}", d)
        del temp


# =====================================================================================
# workload 1: random operation sequences
# =====================================================================================
FINITE_PATTERNS = ["zeros", "ones", "ramp", "rand", "neg", "mixed"]
READ_ATTRS = ["array", "array", "array_2d", "array_3d", "dtype", "shape", "ndim", "asarray", "repr"]


def other_geometry(rng, rows, cols):
    cands = [(rows + 1, cols), (rows, cols + 1), (cols, rows), (max(1, rows - 1), cols), (rows + 1, cols + 1)]
    cands = [g for g in cands if g != (rows, cols)]
    return rng.choice(cands)


def iadd_value(rng, slot: Slot) -> dict:
    st = slot.model.state
    if slot.kind == "photon":
        p3 = 0.75 if (st is not None and st[0] == "3d") else (0.3 if st is None else 0.1)
        if rng.random() < p3:
            v = gen_value3d(rng, 0.7)
            if st is not None and st[0] == "3d" and v.get("form") == "dataarray" and rng.random() < 0.7:
                v.update(nw=int(st[1].shape[0]), dims="ok", coords="ok", yx="ok", dtype=st[1].dtype.name,
                         pattern=rng.choice(FINITE_PATTERNS))
            return v
    v = gen_value2d(rng, slot.kind, 0.7)
    if st is not None and st[0] == "2d" and v.get("form") == "ndarray" and rng.random() < 0.6:
        v.update(shape="ok", dtype=st[1].dtype.name, pattern=rng.choice(FINITE_PATTERNS), layout="C")
    return v


def gen_op(rng, case: Case) -> dict:
    names = list(case.slots)
    if rng.random() < 0.3:
        name = rng.choice(["A.photon", "B.photon"])
    else:
        name = rng.choice(names)
    slot = case.slots[name]
    r = rng.random()
    if r < 0.27:
        if slot.kind == "photon":
            attr = rng.choice(["array", "array_2d", "array_3d", "array_3d"])
            value = gen_value3d(rng) if (attr == "array_3d") != (rng.random() < 0.08) else gen_value2d(rng, "photon")
        else:
            attr, value = "array", gen_value2d(rng, slot.kind)
            if rng.random() < 0.04:
                attr, value = "array_3d", gen_value3d(rng)   # attribute absent on ArrayBase: counted
        return {"op": "set", "slot": name, "attr": attr, "value": value}
    if r < 0.31:
        lab = "B" if name.startswith("A") else "A"
        return {"op": "set", "slot": name, "attr": "array", "value": {"form": "copy_of", "from": f"{lab}.{slot.kind}"}}
    if r < 0.39:
        return {"op": "update", "slot": name, "value": None if rng.random() < 0.3 else gen_value2d(rng, slot.kind)}
    if r < 0.53:
        return {"op": "iadd", "slot": name, "value": iadd_value(rng, slot)}
    if r < 0.56:
        return {"op": "iadd", "slot": name, "value": iadd_value(rng, slot), "binary": True}
    if r < 0.62:
        return {"op": "empty", "slot": name}
    if r < 0.65:
        return {"op": "det_empty", "det": name[0], "reset": rng.random() < 0.7, "positional": rng.random() < 0.3}
    if r < 0.73:
        kind = slot.kind if slot.kind != "phase" else rng.choice(["photon", "pixel", "signal", "image"])
        tgt = case.slots[f"{name[0]}.{kind}"]
        skind = kind if rng.random() < 0.75 else rng.choice(KINDS)
        rows, cols = (tgt.rows, tgt.cols) if rng.random() < 0.65 else other_geometry(rng, tgt.rows, tgt.cols)
        if rng.random() < 0.2:
            value = None
        elif skind == "photon" and rng.random() < 0.3:
            value = gen_value3d(rng, 0.9)
        else:
            value = gen_value2d(rng, skind, 0.9)
        return {"op": "det_set", "det": name[0], "kind": kind, "src": {"kind": skind, "rows": rows, "cols": cols, "value": value}}
    if r < 0.85:
        return {"op": "read", "slot": name, "attr": rng.choice(READ_ATTRS)}
    q = rng.random()
    lab = "B" if name.startswith("A") else "A"
    if q < 0.5:
        y = f"{lab}.{slot.kind}"
    elif q < 0.65:
        y = rng.choice(names)
    elif q < 0.73:
        y = name
    elif q < 0.85:
        y = {"other": "deepcopy"}
    else:
        y = {"other": rng.choice(["none", "int", "str", "ndarray", "tuple"])}
    return {"op": "eq", "x": name, "y": y}


def run_sequences(spec, rec) -> None:
    for i in range(spec["n"]):
        if not rec.wanted(i):
            continue
        rng = rec.rng(i)
        ka = DET_KINDS[(i + spec["shard"]) % 4]
        rows, cols = rng.randint(1, 5), rng.randint(1, 5)
        kb = rng.choice(DET_KINDS)
        gb = (rows, cols) if rng.random() < 0.6 else other_geometry(rng, rows, cols)
        case = Case(rec, i, {"kind": ka, "rows": rows, "cols": cols}, {"kind": kb, "rows": gb[0], "cols": gb[1]}, "sequence")
        n_ops = rng.randint(1, 30)
        for _ in range(n_ops):
            case.step(gen_op(rng, case))
        rec.observe("detector_kinds", ka)
        rec.observe("sequence_lengths", n_ops)
        sig = [case.specs, [(d["op"], d.get("slot") or d.get("x") or d.get("det"), d.get("attr"),
                             json.dumps(d.get("value") or d.get("y") or d.get("src"), sort_keys=True, default=str))
                            for d in case.trace]]
        rec.case(sig, nontrivial=len(case.trace) >= 2 and case.mutations >= 1,
                 sample={"detectors": case.specs, "ops": case.trace[:8]})


# =====================================================================================
# workload 2: deterministic grids (every cell of small finite sub-spaces)
# =====================================================================================
def valid_desc(kind: str, pattern="ramp", salt=0, dtype=None) -> dict:
    return {"form": "ndarray", "shape": "ok", "dtype": dtype or ("uint16" if kind == "image" else "float64"),
            "pattern": pattern, "layout": "C", "salt": salt}


def valid_desc3d(pattern="ramp", salt=0, nw=2, coords="ok") -> dict:
    return {"form": "dataarray", "nw": nw, "yx": "ok", "dims": "ok", "coords": coords, "dtype": "float64",
            "pattern": pattern, "salt": salt}


def force(case: Case, name: str, state: str, pattern="ramp", salt=0) -> None:
    """Bring a container into a pre-state through checked operations."""
    slot = case.slots[name]
    if state == "empty":
        if slot.kind == "pixel":
            case.step({"op": "update", "slot": name, "value": None})
        else:
            case.step({"op": "empty", "slot": name})
    elif state == "3d":
        case.step({"op": "set", "slot": name, "attr": "array_3d", "value": valid_desc3d(pattern, salt)})
    else:
        case.step({"op": "set", "slot": name, "attr": "array", "value": valid_desc(slot.kind, pattern, salt)})


def grid_assign(case: Case, rec, part: int, parts: int) -> None:
    cell = 0
    for kind in KINDS:
        name = f"A.{kind}"
        for pre in ("empty", "filled"):
            for shape in SHAPES:
                for dtype in DTYPES:
                    for op in ("set", "update", "iadd"):
                        cell += 1
                        if cell % parts != part:
                            continue
                        force(case, name, pre)
                        value = {"form": "ndarray", "shape": shape, "dtype": dtype, "layout": "C",
                                 "pattern": PATTERNS[cell % len(PATTERNS)], "salt": 0}
                        if op == "set":
                            attr = "array_2d" if (kind == "photon" and cell % 3 == 0) else "array"
                            case.step({"op": "set", "slot": name, "attr": attr, "value": value})
                        elif op == "update":
                            case.step({"op": "update", "slot": name, "value": value})
                        else:
                            case.step({"op": "iadd", "slot": name, "value": value, "binary": cell % 7 == 0})
                        rec.count("grid_cells")
        rec.case(["grid_assign", case.specs, kind, part], True)


def grid_photon3d(case: Case, rec) -> None:
    dts = ["float16", "float32", "float64", "longdouble", "int64", "uint16", "complex128", "bool", "object"]
    variants = [{"dims": "ok", "yx": yx, "coords": co, "nw": nw}
                for yx in ("ok", "T", "r+1", "c-1") for co in ("ok", "missing") for nw in (1, 2)]
    variants += [{"dims": dv, "yx": "ok", "coords": "ok", "nw": 2} for dv in ("order", "names", "2d", "4d")]
    cell = 0
    for pre in ("empty", "filled", "3d"):
        for op in ("set", "iadd"):
            for dt in dts:
                for var in variants:
                    cell += 1
                    force(case, "A.photon", pre)
                    value = dict(var, form="dataarray", dtype=dt, pattern=PATTERNS[cell % len(PATTERNS)], salt=0)
                    if op == "set":
                        case.step({"op": "set", "slot": "A.photon", "attr": "array_3d", "value": value})
                    else:
                        case.step({"op": "iadd", "slot": "A.photon", "value": value})
                    rec.count("grid_cells")
    # raw numpy handed to array_3d, DataArray handed to array, clean 3-D sums
    for form, attr in (("ndarray3d", "array_3d"), ("dataarray", "array"), ("none", "array_3d"), ("ndarray", "array_3d")):
        for pre in ("empty", "filled", "3d"):
            force(case, "A.photon", pre)
            case.step({"op": "set", "slot": "A.photon", "attr": attr,
                       "value": dict(valid_desc3d(), form=form, shape="ok", layout="C")})
    for pattern in FINITE_PATTERNS:
        force(case, "A.photon", "3d")
        case.step({"op": "iadd", "slot": "A.photon", "value": valid_desc3d(pattern)})
        case.step({"op": "read", "slot": "A.photon", "attr": "array_3d"})
    rec.case(["grid_photon3d", case.specs], True)


def grid_eq(rec, index, spec_a, geometries) -> None:
    for gname, (rows, cols) in geometries.items():
        case = Case(rec, index, spec_a, {"kind": "cmos", "rows": rows, "cols": cols}, f"grid_eq:{gname}")
        states = [("empty", "empty", 0, 0), ("empty", "filled", 0, 0), ("filled", "empty", 0, 0),
                  ("filled", "filled", 0, 0), ("filled", "filled", 0, 1)]
        for kx in KINDS:
            for ky in KINDS:
                for sx, sy, salt_x, salt_y in states:
                    force(case, f"A.{kx}", sx, "ramp", salt_x)
                    force(case, f"B.{ky}", sy, "ramp", salt_y)
                    case.step({"op": "eq", "x": f"A.{kx}", "y": f"B.{ky}"})
                    if kx != ky:
                        case.step({"op": "eq", "x": f"A.{kx}", "y": f"A.{ky}"})
                    rec.count("grid_cells")
            for pat in ("nan", "zeros", "neg"):
                force(case, f"A.{kx}", "filled", pat)
                force(case, f"B.{kx}", "filled", pat)
                case.step({"op": "eq", "x": f"A.{kx}", "y": f"B.{kx}"})
                case.step({"op": "eq", "x": f"A.{kx}", "y": {"other": "deepcopy"}})
            for other in ("none", "int", "str", "ndarray", "tuple"):
                case.step({"op": "eq", "x": f"A.{kx}", "y": {"other": other}})
            force(case, f"A.{kx}", "empty")
            case.step({"op": "eq", "x": f"A.{kx}", "y": {"other": "deepcopy"}})
            case.step({"op": "eq", "x": f"A.{kx}", "y": f"A.{kx}"})
        # photon: 3-D against 3-D / 2-D / empty, equal and different wavelengths
        for sx, sy in (("3d", "3d"), ("3d", "filled"), ("filled", "3d"), ("3d", "empty"), ("empty", "3d")):
            force(case, "A.photon", sx)
            force(case, "B.photon", sy)
            case.step({"op": "eq", "x": "A.photon", "y": "B.photon"})
        force(case, "A.photon", "3d")
        case.step({"op": "set", "slot": "B.photon", "attr": "array_3d", "value": valid_desc3d("ramp", 1)})
        case.step({"op": "eq", "x": "A.photon", "y": "B.photon"})
        case.step({"op": "set", "slot": "B.photon", "attr": "array_3d", "value": valid_desc3d("ramp", 0, coords="shift")})
        case.step({"op": "eq", "x": "A.photon", "y": "B.photon"})
        case.step({"op": "set", "slot": "B.photon", "attr": "array_3d", "value": valid_desc3d("ramp", 0, nw=3)})
        case.step({"op": "eq", "x": "A.photon", "y": "B.photon"})
        rec.case(["grid_eq", case.specs], True)


def grid_reads(rec, index, spec_a) -> None:
    attrs = ["array", "array_2d", "array_3d", "dtype", "shape", "asarray", "ndim", "repr"]
    routes = ["never-initialised", "set-then-empty", "detector.empty", "detector.empty-no-reset", "update-none",
              "rejected-set", "rejected-iadd", "filled", "3d"]
    for route in routes:
        case = Case(rec, index, spec_a, dict(spec_a), f"grid_reads:{route}")
        for kind in KINDS:
            name = f"A.{kind}"
            if route == "set-then-empty":
                force(case, name, "filled")
                case.step({"op": "empty", "slot": name})
            elif route.startswith("detector.empty"):
                force(case, name, "filled")
            elif route == "update-none":
                force(case, name, "filled")
                case.step({"op": "update", "slot": name, "value": None})
            elif route == "rejected-set":
                case.step({"op": "set", "slot": name, "attr": "array", "value": dict(valid_desc(kind), shape="r+1")})
                case.step({"op": "set", "slot": name, "attr": "array", "value": dict(valid_desc(kind), dtype="int32")})
            elif route == "rejected-iadd":
                case.step({"op": "iadd", "slot": name, "value": dict(valid_desc(kind), shape="T")})
                case.step({"op": "iadd", "slot": name, "value": dict(valid_desc(kind), dtype="complex128")})
            elif route == "filled":
                force(case, name, "filled", "mixed")
            elif route == "3d" and kind == "photon":
                force(case, name, "3d", "mixed")
        if route.startswith("detector.empty"):
            case.step({"op": "det_empty", "det": "A", "reset": route == "detector.empty"})
        for kind in KINDS:
            for attr in attrs:
                case.step({"op": "read", "slot": f"A.{kind}", "attr": attr})
                rec.count("grid_cells")
        rec.case(["grid_reads", route, case.specs], True)


EMPTY_ROUTES = ["never-initialised", "set-then-empty", "update-none", "detector.empty", "rejected-set"]


def grid_refused_on_empty(rec, index, spec_a, rng) -> None:
    """History class: container brought to EMPTY along every route -> `+=` / `+` with an operand that cannot
    be stored (every wrong-shape class x an allowed dtype, the right shape x every dtype that is not
    allowed, random combinations; wrong 3-D operands for the photon) -> read -> compare with the
    never-touched twin of detector B.  A refused addition must leave the container empty, the read
    must raise the explanatory error and the container must still equal the empty twin."""
    dims_bad = [{"yx": yx, "dims": "ok"} for yx in ("T", "r+1", "c-1", "c+1")] + [{"yx": "ok", "dims": dv} for dv in ("2d", "4d")]
    for kind in KINDS:
        name, twin = f"A.{kind}", f"B.{kind}"
        good = CERTAIN["u" if kind == "image" else "f"]
        operands = [{"form": "ndarray", "shape": sh, "dtype": rng.choice(good)} for sh in SHAPES if sh != "ok"]
        operands += [{"form": "ndarray", "shape": "ok", "dtype": dt} for dt in DTYPES if not dtype_allowed(kind, dt)]
        operands += [{"form": "ndarray", "shape": rng.choice(SHAPES[1:]), "dtype": rng.choice(DTYPES)} for _ in range(6)]
        operands += [{"form": rng.choice(["list", "scalar", "none", "dataarray2d"]), "shape": "ok", "dtype": "float64"}]
        if kind == "photon":
            operands += [dict(var, form="dataarray", nw=rng.randint(1, 3), coords="ok", dtype=rng.choice(good)) for var in dims_bad]
            operands += [{"form": "dataarray", "nw": 2, "yx": "ok", "dims": "ok", "coords": "ok", "dtype": dt}
                         for dt in ("int32", "uint16", "complex64", "bool")]
        for k, operand in enumerate(operands):
            route = EMPTY_ROUTES[(k + rng.randint(0, len(EMPTY_ROUTES) - 1)) % len(EMPTY_ROUTES)]
            case = Case(rec, index, spec_a, dict(spec_a), f"grid_refused_on_empty:{kind}:{route}")
            if route != "never-initialised":
                if route == "rejected-set":
                    case.step({"op": "set", "slot": name, "attr": "array", "value": dict(valid_desc(kind), shape="c+1")})
                else:
                    force(case, name, "3d" if (kind == "photon" and rng.random() < 0.3) else "filled", rng.choice(FINITE_PATTERNS))
                    if route == "set-then-empty":
                        force(case, name, "empty")
                    elif route == "update-none":
                        case.step({"op": "update", "slot": name, "value": None} if kind != "photon" else {"op": "empty", "slot": name})
                    else:
                        case.step({"op": "det_empty", "det": "A", "reset": True})
            slot = case.slots[name]
            if slot.model.state is not None:
                rec.count("refused_on_empty_route_not_empty")   # e.g. the stand-alone Phase of a non-MKID detector
                force(case, name, "empty")
            value = dict(operand, pattern=rng.choice(PATTERNS), layout=rng.choice(LAYOUTS), salt=rng.randint(0, 1))
            case.step({"op": "iadd", "slot": name, "value": value, "binary": rng.random() < 0.3})
            case.step({"op": "read", "slot": name, "attr": rng.choice(["array", "array", "dtype", "asarray"])})
            case.step({"op": "eq", "x": name, "y": twin})
            rec.observe("refused_on_empty_routes", f"{kind}:{route}")
            rec.count("grid_cells")
            rec.case(["grid_refused_on_empty", case.specs, kind, route, json.dumps(value, sort_keys=True)], True,
                     sample={"detectors": case.specs, "ops": case.trace[-4:]})


def grid_det_set(rec, index, spec_a) -> None:
    case = Case(rec, index, spec_a, dict(spec_a), "grid_det_set")
    rows, cols = spec_a["rows"], spec_a["cols"]
    for kind in ("photon", "pixel", "signal", "image"):
        for pre in ("empty", "filled"):
            for skind in (kind, "signal" if kind != "signal" else "pixel", "image" if kind != "image" else "signal", "photon"):
                for sval in ("empty", "valid", "negative", "3d"):
                    if sval == "3d" and skind != "photon":
                        continue
                    for geom in ("same", "foreign"):
                        g = (rows, cols) if geom == "same" else (rows + 1, cols)
                        value = {"empty": None, "valid": valid_desc(skind), "negative": valid_desc(skind, "mixed"),
                                 "3d": valid_desc3d()}[sval]
                        force(case, f"A.{kind}", pre)
                        case.step({"op": "det_set", "det": "A", "kind": kind,
                                   "src": {"kind": skind, "rows": g[0], "cols": g[1], "value": value}})
                        case.step({"op": "read", "slot": f"A.{kind}", "attr": "array"})
                        rec.count("grid_cells")
    rec.case(["grid_det_set", case.specs], True)


def run_grid(spec, rec) -> None:
    part, parts = spec["part"], spec["parts"]
    reps = spec.get("reps", 1)
    for rep in range(reps):
        index = rep
        if not rec.wanted(index):
            continue
        rng = rec.rng(index)
        kind = DET_KINDS[(part + rep + spec["seed"]) % 4]
        rows, cols = rng.randint(2, 5), rng.randint(2, 5)
        spec_a = {"kind": kind, "rows": rows, "cols": cols}
        rec.observe("detector_kinds", kind)
        case = Case(rec, index, spec_a, {"kind": DET_KINDS[(part + 1) % 4], "rows": rows, "cols": cols}, f"grid:{part}")
        grid_assign(case, rec, part, parts)
        grid_refused_on_empty(rec, index, spec_a, rng)
        extra = part % 4
        if extra == 0:
            grid_photon3d(case, rec)
        elif extra == 1:
            grid_eq(rec, index, spec_a, {"same": (rows, cols), "foreign": other_geometry(rng, rows, cols)})
        elif extra == 2:
            grid_reads(rec, index, spec_a)
        else:
            grid_det_set(rec, index, spec_a)


# =====================================================================================
# workload 3: real models in a small exposure with the invariants switched on
# =====================================================================================
def model_pipeline(variant: str, level: float) -> dict:
    m = "pyxel.models."
    illum = {"name": "illumination", "func": m + "photon_collection.illumination",
             "arguments": {"level": level}, "enabled": True}
    stripe = {"name": "stripe_pattern", "func": m + "photon_collection.stripe_pattern",
              "arguments": {"period": 2, "level": level / 2.0}, "enabled": True}
    photon = {"illum": [illum], "illum+stripe": [illum, stripe], "stripe": [stripe], "stripe+illum": [stripe, illum]}[variant]
    return {
        "photon_collection": photon,
        "charge_generation": [{"name": "simple_conversion", "func": m + "charge_generation.simple_conversion",
                               "arguments": {}, "enabled": True}],
        "charge_collection": [{"name": "simple_collection", "func": m + "charge_collection.simple_collection",
                               "arguments": {}, "enabled": True}],
        "charge_measurement": [{"name": "simple_measurement", "func": m + "charge_measurement.simple_measurement",
                                "arguments": {}, "enabled": True}],
        "readout_electronics": [{"name": "simple_adc", "func": m + "readout_electronics.simple_adc",
                                 "arguments": {}, "enabled": True}],
    }


MODEL_SIZES = [(4, 4), (5, 5), (4, 6), (3, 6), (6, 3), (2, 2), (7, 5), (1, 4), (3, 3), (8, 2)]
MODEL_VARIANTS = ["illum", "illum+stripe", "stripe", "stripe+illum"]


def run_models(spec, rec) -> None:
    import pyxel
    from pyxel.exposure import Exposure, Readout
    from vf import build
    for i in range(spec["n"]):
        if not rec.wanted(i):
            continue
        rng = rec.rng(i)
        kind = DET_KINDS[(i + spec["shard"]) % 4]
        rows, cols = MODEL_SIZES[(i // 4 + spec["shard"]) % len(MODEL_SIZES)]
        variant = MODEL_VARIANTS[(i // 2 + i // 8) % 4]
        times = [1.0] if rng.random() < 0.4 else [1.0, 2.5]
        nd = rng.random() < 0.5
        level = rng.choice([1.0, 50.0, 1.0e4])
        casd = {"label": "models", "detector": kind, "rows": rows, "cols": cols, "variant": variant,
                "times": times, "non_destructive": nd, "level": level}
        det = build.make_detector(build.default_detector_spec(kind, rows, cols))
        conts = {k: getattr(det, k) for k in ("photon", "pixel", "signal", "image")}
        if kind == "mkid":
            conts["phase"] = det.phase
        for k, obj in conts.items():
            if expected_shape(obj) != (rows, cols):
                rec.count("registry_mismatch")
        drain_fails()
        before = total_evals()
        _CTX["op"] = f"models:{variant}"
        outcome = "ok"
        try:
            pyxel.run_mode(mode=Exposure(readout=Readout(times=times, non_destructive=nd)), detector=det,
                           pipeline=build.make_pipeline(model_pipeline(variant, level)))
            rec.count("model_runs_ok")
        except Exception as exc:  # noqa: BLE001
            # documented refusal: stripe_pattern on an odd-sized detector produces a pattern of the wrong
            # shape, which `photon +=` now refuses
            outcome = f"refused:{type(exc).__name__}"
            rec.count("model_runs_refused")
        rec.observe("model_outcomes", f"{variant}:{'odd' if (rows % 2 or cols % 2) else 'even'}:{outcome}")
        rec.count("inv_evals_in_models", total_evals() - before)
        seen = set()
        for f in drain_fails():
            seen.add((f["kind"], f["what"], f["info"]))
        for k, obj in conts.items():
            for what in obs_problems(k, obj, rows, cols):
                seen.add((k, what, "after the run"))
        drain_fails()
        for k, what, info in sorted(seen):
            rec.violation(f"C13:models:{variant}:{k}-invariant-{what}", f"{info} outcome={outcome}", casd, i)
        rec.observe("detector_kinds", kind)
        rec.case(["models", kind, rows, cols, variant, times, nd, level], True, sample=casd)


# =====================================================================================
# workload 4 (thorough): the repository's tests/data_structure with the invariants attached
# =====================================================================================
def run_pytest(spec, rec) -> None:
    repo = os.environ.get("VERIF_REPO", "/repo")
    tests = next((p for p in (os.path.join(repo, "tests", "data_structure"), "/repo/tests/data_structure")
                  if os.path.isdir(p)), None)
    if tests is None:
        rec.count("pytest_skipped_no_tests")
        return
    verif = os.path.dirname(os.path.dirname(os.path.dirname(os.path.abspath(__file__))))
    ini = os.path.join(rec.tmp, "pytest.ini")
    with open(ini, "w") as fh:
        fh.write("[pytest]\n")
    results = {}
    for mode in ("plain", "contracts"):
        out = os.path.join(rec.tmp, f"c13_pytest_{mode}.json")
        env = dict(os.environ, PYTHONPATH=os.pathsep.join([repo, verif]), VF_C13_PLUGIN_OUT=out,
                   VF_C13_PLUGIN_ATTACH="1" if mode == "contracts" else "0")
        cmd = [sys.executable, "-m", "pytest", tests, "-p", "vf.checks.c13", "-q", "--import-mode=importlib",
               "-p", "no:cacheprovider", "-c", ini, "--rootdir", rec.tmp, "-o", "addopts="]
        try:
            res = subprocess.run(cmd, cwd=rec.tmp, env=env, capture_output=True, text=True, timeout=1500)
        except subprocess.TimeoutExpired:
            rec.count("pytest_timeout")
            return
        try:
            with open(out) as fh:
                results[mode] = json.load(fh)
        except Exception:  # noqa: BLE001
            rec.count("pytest_no_report")
            rec.observe("pytest_stderr", (res.stdout + res.stderr)[-600:])
            return
    plain, con = results["plain"], results["contracts"]
    if not con.get("pyxel_from_repo", False):
        rec.count("pytest_wrong_tree")
    rec.count("pytest_tests_run", len(con["outcomes"]))
    rec.count("pytest_inv_evals", con["evals"])
    diff = sorted(t for t in set(plain["outcomes"]) | set(con["outcomes"])
                  if plain["outcomes"].get(t) != con["outcomes"].get(t))
    rec.count("pytest_outcome_diffs", len(diff))
    for t in diff[:20]:
        rec.observe("pytest_outcome_diffs", f"{t}: plain={plain['outcomes'].get(t)} contracts={con['outcomes'].get(t)}")
    for f in con["fails"]:
        # findings to analyse (tests poke private attributes on purpose), not violations
        rec.count("pytest_contract_findings")
        rec.observe("pytest_contract_findings", f"{f['op']} :: {f['kind']}:{f['what']} {f['info']}")
    rec.case(["pytest", sorted(con["outcomes"])[:3], len(con["outcomes"])], True,
             sample={"label": "pytest", "tests": len(con["outcomes"]), "evals": con["evals"], "findings": len(con["fails"])})
    rec.case(["pytest-plain", len(plain["outcomes"])], True)


_PLUGIN = {"outcomes": {}, "fails": []}


def pytest_configure(config):  # pytest plugin hook (only active with VF_C13_PLUGIN_OUT)
    if not os.environ.get("VF_C13_PLUGIN_OUT"):
        return
    if os.environ.get("VF_C13_PLUGIN_ATTACH", "1") == "1":
        attach_contracts()
    _CTX["op"] = "pytest:collection"


def pytest_runtest_setup(item):
    _CTX["op"] = "pytest:" + item.nodeid.split("/")[-1]


def pytest_runtest_logreport(report):
    if not os.environ.get("VF_C13_PLUGIN_OUT"):
        return
    key = report.nodeid.split("/")[-1]
    if report.when == "call" or (report.when == "setup" and report.outcome != "passed"):
        _PLUGIN["outcomes"][key] = report.outcome
    _PLUGIN["fails"].extend(drain_fails())


def pytest_sessionfinish(session, exitstatus):
    out = os.environ.get("VF_C13_PLUGIN_OUT")
    if not out:
        return
    root = os.path.realpath(os.environ.get("VERIF_REPO", "/repo")) + os.sep
    ok = all(os.path.realpath(m.__file__).startswith(root) for n, m in list(sys.modules.items())
             if (n == "pyxel" or n.startswith("pyxel.")) and getattr(m, "__file__", None))
    seen, fails = set(), []
    for f in _PLUGIN["fails"] + drain_fails():
        key = (f["op"], f["kind"], f["what"])
        if key not in seen:
            seen.add(key)
            fails.append(f)
    with open(out, "w") as fh:
        json.dump({"outcomes": _PLUGIN["outcomes"], "fails": fails, "evals": total_evals(),
                   "pyxel_from_repo": ok, "internal_errors": _STATS["internal_errors"]}, fh)


# =====================================================================================
# framework interface
# =====================================================================================
def plan(tier, seed):
    specs = []
    if tier == "quick":
        for s in range(10):
            specs.append({"shard": s, "seed": seed, "kind": "seq", "n": 400})
        for p in range(4):
            specs.append({"shard": 100 + p, "seed": seed, "kind": "grid", "n": 1, "part": p, "parts": 4, "reps": 1})
        for s in range(2):
            specs.append({"shard": 200 + s, "seed": seed, "kind": "models", "n": 32})
    else:
        for s in range(16):
            specs.append({"shard": s, "seed": seed, "kind": "seq", "n": 3200})
        for p in range(8):
            specs.append({"shard": 100 + p, "seed": seed, "kind": "grid", "n": 3, "part": p % 4, "parts": 4, "reps": 3})
        for s in range(4):
            specs.append({"shard": 200 + s, "seed": seed, "kind": "models", "n": 160})
        specs.append({"shard": 300, "seed": seed, "kind": "pytest", "n": 1})
    return specs


def run_shard(spec, rec) -> None:
    kind = spec["kind"]
    if kind == "pytest":
        run_pytest(spec, rec)
        return
    import pyxel  # noqa: F401
    attach_contracts()
    rec.count("contracts_attached")
    with np.errstate(all="ignore"):
        if kind == "seq":
            run_sequences(spec, rec)
        elif kind == "grid":
            run_grid(spec, rec)
        elif kind == "models":
            run_models(spec, rec)
    for k, n in _EVALS.items():
        rec.count(f"inv_evals_{k}", n)
    rec.count("inv_internal_errors", _STATS["internal_errors"])
    rec.count("inv_unregistered_objects", _STATS["unregistered"])
    rec.count("inv_shape_unknown", _STATS["shape_unknown"])
    if _STATS["internal_errors"]:
        rec.observe("inv_internal_error", _STATS.get("last_internal_error", ""))


def finalize(counters, sets, tier):
    out = []
    if counters.get("inv_internal_errors", 0):
        out.append(f"{counters['inv_internal_errors']} invariant evaluations failed internally: {sets.get('inv_internal_error')}")
    if counters.get("registry_mismatch", 0):
        out.append("the geometry recorded at construction differs from the detector specification")
    if len(sets.get("detector_kinds", [])) < 4:
        out.append(f"only detector kinds {sets.get('detector_kinds')} were driven")
    if tier == "thorough":
        if counters.get("pytest_inv_evals", 0) <= 0:
            out.append("the invariants were never evaluated under the repository's tests/data_structure")
        if counters.get("pytest_outcome_diffs", 0):
            out.append(f"attaching the contracts changed test outcomes: {sets.get('pytest_outcome_diffs')}")
        if counters.get("pytest_wrong_tree", 0):
            out.append("pytest imported pyxel from another tree than VERIF_REPO")
    return out


def coverage_extra(counters, sets, tier):
    return {
        "exhaustive": False,
        "grid_cells": counters.get("grid_cells", 0),
        "invariant_evaluations": {k: counters.get(f"inv_evals_{k}", 0) for k in KINDS},
        "open_findings_reproduced": sets.get("open_findings", []),
        "open_findings_text": OPEN_FINDINGS if sets.get("open_findings") else {},
        "strict": STRICT,
        "pytest_contract_findings": sets.get("pytest_contract_findings", []),
        "unspecified_by_statement_counted": {k: counters.get(k, 0) for k in (
            "photon_negative_after_iadd", "either_accepted", "either_refused", "refused_nonfinite",
            "eq_unspecified", "read_unspecified", "reset_left_zeros", "det_empty_refused_fragile")},
    }


REGISTER = True
LEVEL_TEXT = ("Exploration by runtime monitoring: recording icontract class invariants are attached from the harness to "
              "the real Photon/Pixel/Signal/Image/Phase classes and evaluated around every public operation while "
              "(a) thousands of generated operation sequences, (b) a deterministic grid over kind x shape class x dtype "
              "x pre-state x operation, an equality grid, a read grid, a detector-setter grid and a refused-addition-on-empty "
              "grid (every route to empty x unstorable operand class -> read -> compare with an empty twin), and (c) real model "
              "pipelines on even and odd detector sizes are executed on all four detector types; a numpy-only "
              "reference state machine predicts accepted/rejected and the content after each operation, equality is "
              "compared with an oracle in both directions. Thorough additionally runs the repository's "
              "tests/data_structure with the invariants attached. Held = on the executions observed.")
LEVEL_NOTE = ("Trusted: icontract, numpy/xarray, the reference bucket (RefBucket, eq_oracle, judge). Behaviour the statement "
              "leaves open is counted (unspecified_by_statement_counted). The unvalidated Detector.photon setter is an "
              "open finding counted under open_findings_reproduced unless VERIF_C13_STRICT=1.")

"""C14 -- charge is accounted identically as arrays and as positioned clusters.

Monitor: generated operation histories (array additions, cluster additions through
``add_charge`` and ``add_charge_dataframe``, reads of ``.array`` / ``.frame``, removals by id,
resets; the added arrays are fresh objects or buffers that the caller keeps, refills in place and adds
again) are executed on the real ``detector.charge`` of real detectors; after every operation
(or, for "sparse-read" histories, only at the explicit reads and at the end) the reported
``detector.charge.array`` is compared with an independent per-pixel ledger (M8: exact
rational arithmetic on the double values, no pyxel imports).  Sanitizer layer (M6): the very
same histories run in workers with the default numba JIT, with ``NUMBA_BOUNDSCHECK=1`` and
with ``NUMBA_DISABLE_JIT=1``; a worker killed by a signal while inside a history that holds
clusters outside the sensitive area is itself the witness of "never corrupts memory".
"""
from __future__ import annotations

import collections
import math
import os
import traceback
from fractions import Fraction

ID = "C14"
LEVEL = "exploration"
TECHNIQUE = ("runtime monitoring: generated operation histories on the real Charge container of real detectors vs. "
             "an exact-rational per-pixel ledger, re-run under the numba sanitizers (NUMBA_BOUNDSCHECK=1, "
             "NUMBA_DISABLE_JIT=1) and the default JIT with a dying-worker witness")
RULE = ("random histories of 2-14 operations (add_charge_array float64/32/16, add_charge, add_charge_dataframe, reads "
        "of .array and .frame, remove_from_frame by id, empty()) on CCD/CMOS/MKID/APD detectors of 1x1..8x8 pixels; "
        "the arrays added are C-ordered, Fortran-ordered, strided windows or read-only views, made for one call or "
        "long-lived buffers of the caller that are refilled in place / added again unchanged across additions and "
        "resets (the values at the time of each call count, the caller's arrays must keep what the caller wrote); "
        "removals designate a random subset of the table rows through their ids, also when ids are shared; "
        "with integral and fractional, square and non-square pixel sizes; cluster positions at pixel centres, inside, "
        "exactly on borders, +-1 ulp around borders, at 0/-0/denormals, at the far edges, negative, just beyond and "
        "far beyond range; a history is non-trivial when it mixes both representations or holds a border/outside "
        "cluster; distinct = distinct (numba mode, geometry, operation list) signatures; every nojit history whose "
        "index is below the jit quota is also executed under the JIT and under the bounds-checking JIT")
ASSUMPTIONS = [
    "the semantics of a removal that empties the cluster table is not fixed by the statement (array keeps stale "
    "content before fix 51c48c8): STRICT_REMOVE_ALL (on since that fix) judges it as 'the removed charge is no longer "
    "reported'; 60 % of such removals are followed by more additions without a reset, 40 % by a reset",
    "NaN/inf positions and negative charge are outside the statement and not generated",
    "numba JIT modes recompile the binning kernel at every read (0.1 s): they run a prefix of the histories",
    "memory corruption that kills the worker later than the offending history is reported as inconclusive",
]
REQUIRED_COUNTERS = [
    "compares", "array_adds", "cluster_adds", "dataframe_adds", "frame_reads", "removals", "resets",
    "clusters_outside", "clusters_border", "clusters_ulp", "array_add_after_cluster", "cluster_after_array",
    "compares_mode_jit", "compares_mode_boundscheck", "compares_mode_nojit", "compares_with_outside_live",
    "frame_rows_checked", "histories_sparse_reads",
    "array_adds_buffer_first_use", "array_adds_buffer_refilled", "array_adds_buffer_readded_unchanged",
    "caller_arrays_checked", "remove_all_then_history_continues",
]
TIMEOUT = {"quick": 900, "thorough": 7200}

#: True (or VERIF_C14_STRICT_REMOVE_ALL=1) judges "remove every cluster => their charge is no longer
#: reported" (mechanism C14:remove-all:removed-charge-still-reported), see ASSUMPTIONS
STRICT_REMOVE_ALL = True  # deciding since fix 51c48c8 in /repo (was observe-only)

MODES = {
    "jit": {"NUMBA_DISABLE_JIT": "0", "NUMBA_BOUNDSCHECK": "0"},
    "boundscheck": {"NUMBA_DISABLE_JIT": "0", "NUMBA_BOUNDSCHECK": "1"},
    "nojit": {"NUMBA_DISABLE_JIT": "1", "NUMBA_BOUNDSCHECK": "0"},
}

REL_TOL = 1e-12
ABS_TOL = 1e-9


def plan(tier, seed):
    """Groups of histories (same 'shard' number => same histories) run in the three numba modes.

    The interpreted mode is cheap (0.1 ms per read) and runs all n histories of a group; the two
    JIT modes recompile the kernel at every read (about 0.1 s) and run the first n_jit of them.
    """
    if tier == "quick":
        n, n_jit, groups = 400, 28, {"jit": 5, "boundscheck": 5, "nojit": 6}
    else:
        n, n_jit, groups = 1900, 260, {"jit": 16, "boundscheck": 16, "nojit": 16}
    specs = []
    for mode in ("jit", "boundscheck", "nojit"):      # the JIT shards first: they are the long ones
        for g in range(groups[mode]):
            specs.append({"shard": g, "seed": seed, "kind": "hist", "mode": mode,
                          "n": n if mode == "nojit" else n_jit, "env": dict(MODES[mode])})
    return specs


# ====================================================================== oracle (no pyxel imports)
class Ledger:
    """Per-pixel charge ledger; a cluster goes to (floor(y/h), floor(x/w)) in exact rationals."""

    def __init__(self, rows, cols, h, w):
        self.rows, self.cols, self.h, self.w = rows, cols, Fraction(h), Fraction(w)
        self.reset()

    def reset(self):
        self.acc = [[Fraction(0)] * self.cols for _ in range(self.rows)]
        self.peak = [[0.0] * self.cols for _ in range(self.rows)]
        self.live = []          # clusters added and not removed since the last reset: (n, y, x)

    def locate(self, y, x):
        r, c = Fraction(y) // self.h, Fraction(x) // self.w      # exact floor of the true quotient
        return (r, c) if 0 <= r < self.rows and 0 <= c < self.cols else None

    def _credit(self, r, c, n):
        self.acc[r][c] += Fraction(n)
        self.peak[r][c] = max(self.peak[r][c], abs(float(self.acc[r][c])), abs(n))

    def add_array(self, values):
        for r in range(self.rows):
            for c in range(self.cols):
                self._credit(r, c, values[r][c])

    def add_clusters(self, clusters):
        for n, y, x in clusters:
            self.live.append((n, y, x))
            where = self.locate(y, x)
            if where is not None:
                self._credit(where[0], where[1], n)

    def remove_rows(self, rows):
        """rows = (number, position_ver, position_hor) of the table rows that were removed."""
        for n, y, x in rows:
            if (n, y, x) in self.live:
                self.live.remove((n, y, x))
            where = self.locate(y, x)
            if where is not None:
                self._credit(where[0], where[1], -n)

    def outside_live(self):
        return sum(1 for n, y, x in self.live if self.locate(y, x) is None)

    def expected(self):
        return [[float(v) for v in row] for row in self.acc]

    def tolerance(self, r, c):
        return ABS_TOL + REL_TOL * self.peak[r][c]


# ====================================================================== generators (pure data)
INTEGRAL_SIZES = [1.0, 2.0, 5.0, 10.0, 18.0, 64.0, 1000.0]
FRACTIONAL_SIZES = [0.1, 0.3, 0.7, 1.0 / 3.0, 2.5, 7.3, 12.35, 0.001, 999.999, 0.05, 3.3, 6.6, 0.9, 1.1, 14.7]

INSIDE_CLASSES = ["centre"] * 5 + ["interior"] * 4 + ["border"] * 4 + ["border_lo", "border_hi"] * 3 + \
                 ["border_sum"] * 2 + ["zero", "negzero", "tiny_pos", "far_edge_lo"] * 1
OUTSIDE_CLASSES = ["far_edge"] * 3 + ["far_edge_hi"] * 2 + ["neg_ulp", "neg_small", "neg_half", "neg_one"] + \
                  ["neg_many"] * 3 + ["beyond_just"] * 3 + ["beyond"] * 4 + ["far"] * 1
BORDER_CLASSES = {"border", "border_sum", "zero", "negzero", "far_edge"}
ULP_CLASSES = {"border_lo", "border_hi", "tiny_pos", "far_edge_lo", "far_edge_hi", "neg_ulp"}


def gen_size(rng):
    kind = rng.random()
    if kind < 0.35:
        return rng.choice(INTEGRAL_SIZES)
    if kind < 0.70:
        return rng.choice(FRACTIONAL_SIZES)
    if kind < 0.85:
        return round(rng.uniform(0.01, 1000.0), rng.randint(1, 4)) or 1.0
    return 10.0 ** rng.uniform(-2.5, 3.0)


def gen_coord(rng, npix, size, cls):
    """One coordinate (a Python float) of the named class; the ledger decides what it means."""
    up, down = math.inf, -math.inf
    k = rng.randrange(npix)
    if cls == "centre":
        return (k + 0.5) * size
    if cls == "interior":
        return (k + rng.uniform(0.02, 0.98)) * size
    if cls in ("border", "border_lo", "border_hi", "border_sum"):
        kb = rng.randint(1, npix - 1) if npix > 1 else rng.choice([0, 1])
        if cls == "border_sum":
            b = 0.0
            for _ in range(kb):
                b += size
        else:
            b = kb * size
        if cls == "border_lo":
            return math.nextafter(b, down)
        if cls == "border_hi":
            return math.nextafter(b, up)
        return b
    if cls == "zero":
        return 0.0
    if cls == "negzero":
        return -0.0
    if cls == "tiny_pos":
        return rng.choice([5e-324, 1e-300, 2.2250738585072014e-308])
    if cls == "far_edge":
        return npix * size
    if cls == "far_edge_lo":
        return math.nextafter(npix * size, down)
    if cls == "far_edge_hi":
        return math.nextafter(npix * size, up)
    if cls == "neg_ulp":
        return rng.choice([-5e-324, -1e-300])
    if cls == "neg_small":
        return -1e-9 * size
    if cls == "neg_half":
        return -size / 2.0
    if cls == "neg_one":
        return -size
    if cls == "neg_many":
        return -(rng.randint(0, npix + 2) + rng.choice([0.5, 0.25, 1.0])) * size
    if cls == "beyond_just":
        return (npix + rng.uniform(0.0, 1.0)) * size
    if cls == "beyond":
        return (npix + rng.randint(0, 3 * npix + 2) + rng.choice([0.5, 0.0, 0.75])) * size
    if cls == "far":
        return rng.choice([1e6 * size, -1e6 * size, 1e12, -1e12, 1e19, -1e19, 1e300, -1e300, 1.7e308])
    raise ValueError(cls)


def gen_number(rng):
    k = rng.random()
    if k < 0.10:
        return 0.0
    if k < 0.55:
        return float(rng.randint(1, 1000))
    if k < 0.75:
        return rng.randint(1, 8000) / 8.0
    if k < 0.88:
        return round(rng.uniform(0.0, 1.0), 6)
    return float(rng.randint(1, 10 ** 6))


def gen_clusters(rng, rows, cols, h, w, allow_outside):
    n = rng.choice([0, 1, 1, 1, 2, 2, 3, 4, 6])
    out = []
    for _ in range(n):
        if allow_outside and rng.random() < 0.45:
            # at least one coordinate from the hostile classes
            which = rng.choice(["y", "x", "both"])
            cy = rng.choice(OUTSIDE_CLASSES if which in ("y", "both") else INSIDE_CLASSES)
            cx = rng.choice(OUTSIDE_CLASSES if which in ("x", "both") else INSIDE_CLASSES)
        else:
            cy, cx = rng.choice(INSIDE_CLASSES), rng.choice(INSIDE_CLASSES)
        out.append({"n": gen_number(rng), "y": gen_coord(rng, rows, h, cy), "x": gen_coord(rng, cols, w, cx),
                    "cy": cy, "cx": cx})
    return out


ARRAY_LAYOUTS = ["c"] * 5 + ["f", "view", "readonly"]


def gen_array(rng, rows, cols, dtype=None):
    if dtype is None:
        dtype = rng.choice(["float64"] * 6 + ["float32"] * 2 + ["float16"])
    style = rng.choice(["ints", "ints", "eighths", "sub_unit", "sparse", "zeros", "large", "ramp"])
    vals = []
    for r in range(rows):
        row = []
        for c in range(cols):
            if style == "ints":
                v = float(rng.randint(0, 1000))
            elif style == "eighths":
                v = rng.randint(0, 2000) / 8.0
            elif style == "sub_unit":
                v = rng.randint(0, 255) / 256.0
            elif style == "sparse":
                v = float(rng.randint(1, 500)) if rng.random() < 0.3 else 0.0
            elif style == "zeros":
                v = 0.0
            elif style == "large":
                v = float(rng.randint(0, 2 ** 20)) if dtype != "float16" else float(rng.randint(0, 2048))
            else:
                v = float(1 + r * cols + c)
            row.append(v)
        vals.append(row)
    return {"dtype": dtype, "style": style, "values": vals}


def gen_array_op(rng, rows, cols, slots):
    """One array addition.  The array object handed to the detector is either made for this call
    ("buf": None) or one of the caller's long-lived buffers ("buf": slot): a buffer is allocated at
    its first use (dtype and memory layout then stay), and at every later use it is either refilled
    in place with new values ("refill": True) or added once more as it is ("refill": False; "values"
    repeats what the caller wrote last).  Buffers outlive resets of the detector.
    """
    slot = rng.choice([0, 0, 0, 1]) if rng.random() < 0.5 else None
    if slot is None:
        return {"op": "add_array", **gen_array(rng, rows, cols), "layout": rng.choice(ARRAY_LAYOUTS),
                "buf": None, "refill": True}
    if slot not in slots:
        arr = gen_array(rng, rows, cols)
        slots[slot] = {"dtype": arr["dtype"], "layout": rng.choice(ARRAY_LAYOUTS), "last": arr}
        return {"op": "add_array", **arr, "layout": slots[slot]["layout"], "buf": slot, "refill": True}
    info = slots[slot]
    if rng.random() < 0.35:
        return {"op": "add_array", **info["last"], "layout": info["layout"], "buf": slot, "refill": False}
    info["last"] = gen_array(rng, rows, cols, dtype=info["dtype"])
    return {"op": "add_array", **info["last"], "layout": info["layout"], "buf": slot, "refill": True}


def gen_history(rng):
    kind = rng.choice(["ccd", "cmos", "mkid", "apd"])
    shape_kind = rng.random()
    if shape_kind < 0.08:
        rows, cols = 1, 1
    elif shape_kind < 0.16:
        rows, cols = rng.choice([(1, rng.randint(2, 8)), (rng.randint(2, 8), 1)])
    elif shape_kind < 0.22:
        rows, cols = 8, 8
    else:
        rows, cols = rng.randint(1, 8), rng.randint(1, 8)
    h = gen_size(rng)
    w = h if rng.random() < 0.4 else gen_size(rng)
    allow_outside = rng.random() < 0.55
    sparse_reads = rng.random() < 0.3
    n_ops = rng.randint(2, 14)
    weights = [("add_array", 5), ("add_cluster", 5), ("add_df", 3), ("read_array", 2), ("read_frame", 2),
               ("remove", 3), ("reset", 1), ("remove_all", 0.9)]
    names = [n for n, _ in weights]
    wts = [x for _, x in weights]
    ops = []
    slots = {}
    for _ in range(n_ops):
        op = rng.choices(names, wts)[0]
        if op == "add_array":
            ops.append(gen_array_op(rng, rows, cols, slots))
        elif op in ("add_cluster", "add_df"):
            ops.append({"op": op, "clusters": gen_clusters(rng, rows, cols, h, w, allow_outside),
                        "shuffle_columns": op == "add_df" and rng.random() < 0.3})
        elif op in ("remove", "remove_all"):
            ops.append({"op": op, "sel": rng.randrange(2 ** 30), "by_none": rng.random() < 0.5})
        else:
            ops.append({"op": op})
    return {"kind": kind, "rows": rows, "cols": cols, "h": h, "w": w,
            "sparse_reads": sparse_reads, "ops": ops}


# ====================================================================== execution on the real code
class Abort(Exception):
    """The history cannot be continued (a violation was recorded)."""


def frame_rows(frame):
    """[(label, number, position_ver, position_hor)] of a cluster table (public columns only)."""
    labels = [int(v) for v in frame.index.tolist()]
    num = [float(v) for v in frame["number"].tolist()]
    ver = [float(v) for v in frame["position_ver"].tolist()]
    hor = [float(v) for v in frame["position_hor"].tolist()]
    return list(zip(labels, num, ver, hor))


class Runner:
    def __init__(self, rec, mode, index, hist):
        self.rec, self.mode, self.index, self.hist = rec, mode, index, hist
        self.case = {"mode": mode, "history": hist}
        self.n_viol = len(rec.violations)
        self.border_live = False
        self.bufs = {}          # the caller's long-lived arrays: slot -> {"base", "arr", "written"}

    # -- reporting
    def violation(self, mech, detail, k):
        case = dict(self.case, failed_after_op=k)
        self.rec.violation(mech, detail, case, self.index)
        self.rec.flush(partial=True)        # a later crash of this worker must not lose it
        raise Abort()

    def guarded(self, k, opname, fn, ledger):
        try:
            return fn()
        except Abort:
            raise
        except Exception as exc:  # noqa: BLE001
            where = "cluster-outside-area" if ledger.outside_live() else opname
            self.violation(f"C14:{where}:raised-{type(exc).__name__}",
                           f"{opname} (op #{k}) raised {type(exc).__name__}: {exc} :: "
                           f"{' | '.join(traceback.format_exc()[-700:].splitlines())}", k)

    # -- the caller's arrays
    def materialise(self, op, rows, cols):
        """(array object handed to the detector, writable base the caller fills, float64 copy of the values)."""
        import numpy as np
        rec = self.rec
        vals = np.array(op["values"], dtype=op["dtype"]).reshape(rows, cols)
        slot, layout = op.get("buf"), op.get("layout", "c")
        if slot is not None and slot in self.bufs:
            b = self.bufs[slot]
            if op["refill"]:
                b["base"][...] = vals               # the caller refills its own buffer in place
                b["written"] = vals.copy()
                rec.count("array_adds_buffer_refilled")
            else:
                rec.count("array_adds_buffer_readded_unchanged")
            return b["arr"], b["base"], b["written"]
        if layout == "f":
            base = np.array(vals, order="F")
        elif layout == "view":                      # a strided window into a larger allocation
            big = np.zeros((rows + 2, 2 * cols + 1), dtype=vals.dtype)
            base = big[1:rows + 1, 1::2]
            base[...] = vals
        else:
            base = vals.copy()
        arr = base
        if layout == "readonly":                    # the caller hands out a read-only view of its data
            arr = base.view()
            arr.flags.writeable = False
        rec.observe("array_layouts", layout)
        if slot is not None:
            self.bufs[slot] = {"base": base, "arr": arr, "written": vals.copy()}
            rec.count("array_adds_buffer_first_use")
        return arr, base, vals

    def check_callers_arrays(self, k, opname, extra=()):
        """The detector accounts values; the arrays stay the caller's (what it wrote is still there)."""
        import numpy as np
        held = [(f"buffer {slot}", b["base"], b["written"]) for slot, b in self.bufs.items()] + list(extra)
        for label, base, written in held:
            self.rec.count("caller_arrays_checked")
            if not np.array_equal(base, written):
                diff = np.argwhere(base != written)[:4].tolist()
                self.violation("C14:add_array:callers-array-modified",
                               f"after op #{k} ({opname}) the caller's {label} no longer holds the values the "
                               f"caller wrote: first differing cells {diff}, holds "
                               f"{[float(base[tuple(d)]) for d in diff]}, written "
                               f"{[float(written[tuple(d)]) for d in diff]}", k)

    def compare(self, charge, ledger, k, opname):
        import numpy as np
        rec = self.rec
        got = self.guarded(k, "read-array", lambda: charge.array, ledger)
        rec.count("compares")
        rec.count(f"compares_mode_{self.mode}")
        n_out = ledger.outside_live()
        if n_out:
            rec.count("compares_with_outside_live")
        if not isinstance(got, np.ndarray) or got.shape != (ledger.rows, ledger.cols) or got.dtype.kind != "f":
            self.violation("C14:array:bad-shape-or-type",
                           f"after {opname}: .array is {type(got).__name__} "
                           f"shape={getattr(got, 'shape', None)} dtype={getattr(got, 'dtype', None)}", k)
        exp = ledger.expected()
        bad = []
        for r in range(ledger.rows):
            for c in range(ledger.cols):
                g = float(got[r, c])
                if not (abs(g - exp[r][c]) <= ledger.tolerance(r, c)):
                    bad.append((r, c, g, exp[r][c]))
        if bad:
            if opname == "reset":
                mech = "C14:reset:not-zero"
            elif opname == "remove-all":
                mech = "C14:remove-all:removed-charge-still-reported"
            elif n_out:
                mech = "C14:cluster-outside-area:credited-elsewhere"
            elif self.border_live:
                mech = "C14:cluster-on-border:array-differs"
            else:
                mech = f"C14:{opname}:array-differs"
            self.violation(mech,
                           f"after op #{k} ({opname}) on a {ledger.rows}x{ledger.cols} detector, pixel "
                           f"{float(ledger.h)}x{float(ledger.w)} um, mode {self.mode}: "
                           f"{len(bad)} pixel(s) differ, (row, col, reported, ledger)={bad[:6]}; "
                           f"live clusters outside the area: {n_out}", k)

    # -- one history
    def run(self):
        import numpy as np

        from vf import build
        rec, hist = self.rec, self.hist
        rows, cols, h, w = hist["rows"], hist["cols"], hist["h"], hist["w"]
        dspec = build.default_detector_spec(hist["kind"], rows, cols)
        dspec["geometry"]["pixel_vert_size"] = h
        dspec["geometry"]["pixel_horz_size"] = w
        detector = build.make_detector(dspec)
        charge = detector.charge
        ledger = Ledger(rows, cols, h, w)
        sparse = hist["sparse_reads"]
        if sparse:
            rec.count("histories_sparse_reads")
        seen_array = seen_cluster = False
        self.compare(charge, ledger, -1, "construction")

        for k, op in enumerate(hist["ops"]):
            name = op["op"]
            rec.count("ops")
            if name == "add_array":
                arr, base, written = self.materialise(op, rows, cols)
                exact = written.astype(np.float64).tolist()
                self.guarded(k, name, lambda: charge.add_charge_array(arr), ledger)
                ledger.add_array(exact)
                rec.count("array_adds")
                rec.observe("array_dtypes", op["dtype"])
                if op.get("buf") is None:
                    self.check_callers_arrays(k, name, extra=[("array of this call", base, written)])
                if seen_cluster:
                    rec.count("array_add_after_cluster")
                seen_array = seen_array or any(v > 0 for row in exact for v in row)
            elif name in ("add_cluster", "add_df"):
                cl = op["clusters"]
                n = len(cl)
                kwargs = dict(
                    particle_type="e",
                    particles_per_cluster=np.array([c["n"] for c in cl], dtype=float),
                    init_energy=np.zeros(n),
                    init_ver_position=np.array([c["y"] for c in cl], dtype=float),
                    init_hor_position=np.array([c["x"] for c in cl], dtype=float),
                    init_z_position=np.zeros(n),
                    init_ver_velocity=np.zeros(n),
                    init_hor_velocity=np.zeros(n),
                    init_z_velocity=np.zeros(n),
                )
                if name == "add_cluster":
                    self.guarded(k, name, lambda: charge.add_charge(**kwargs), ledger)
                    rec.count("cluster_adds")
                else:
                    df = self.guarded(k, "create_charges", lambda: type(charge).create_charges(**kwargs), ledger)
                    done = False
                    if op.get("shuffle_columns"):
                        order = list(df.columns)
                        __import__("random").Random(len(order) + n).shuffle(order)
                        try:
                            charge.add_charge_dataframe(df[order])
                            done = True
                            rec.count("dataframe_adds_shuffled_columns")
                        except ValueError:
                            rec.count("refused")    # a documented refusal would be legitimate here
                    if not done:
                        self.guarded(k, name, lambda: charge.add_charge_dataframe(df), ledger)
                    rec.count("dataframe_adds")
                ledger.add_clusters([(c["n"], c["y"], c["x"]) for c in cl])
                for c in cl:
                    rec.count("clusters_added")
                    classes = {c["cy"], c["cx"]}
                    rec.observe("position_classes", c["cy"])
                    rec.observe("position_classes", c["cx"])
                    if ledger.locate(c["y"], c["x"]) is None:
                        rec.count("clusters_outside")
                    if classes & BORDER_CLASSES:
                        rec.count("clusters_border")
                        self.border_live = True
                    if classes & ULP_CLASSES:
                        rec.count("clusters_ulp")
                        self.border_live = True
                if n:
                    if seen_array and not seen_cluster:
                        rec.count("cluster_after_array")
                    seen_cluster = True
            elif name == "read_array":
                self.compare(charge, ledger, k, name)     # and once more below unless sparse
                rec.count("array_reads")
            elif name == "read_frame":
                self.check_frame(charge, ledger, k)
            elif name in ("remove", "remove_all"):
                if self.remove(charge, ledger, k, op, everything=(name == "remove_all")):
                    seen_array = seen_cluster = False
                    continue
            elif name == "reset":
                self.guarded(k, name, charge.empty, ledger)
                ledger.reset()
                self.border_live = False
                seen_array = seen_cluster = False
                rec.count("resets")
                self.compare(charge, ledger, k, "reset")
                frame = self.guarded(k, "read-frame", lambda: charge.frame, ledger)
                if len(frame) != 0:
                    self.violation("C14:reset:frame-not-empty",
                                   f"after empty() the cluster table still holds {len(frame)} row(s)", k)
                continue
            self.check_callers_arrays(k, name)
            if not sparse:
                self.compare(charge, ledger, k, name)
        self.compare(charge, ledger, len(hist["ops"]), "end-of-history")
        self.check_callers_arrays(len(hist["ops"]), "end-of-history")
        # a final reset always returns everything to zero
        self.guarded(len(hist["ops"]), "reset", charge.empty, ledger)
        ledger.reset()
        self.compare(charge, ledger, len(hist["ops"]), "reset")

    def check_frame(self, charge, ledger, k):
        rec = self.rec
        frame = self.guarded(k, "read-frame", lambda: charge.frame, ledger)
        rows = self.guarded(k, "read-frame", lambda: frame_rows(frame), ledger)
        rec.count("frame_reads")
        have = collections.Counter((n, y, x) for _l, n, y, x in rows)
        want = collections.Counter(ledger.live)
        rec.count("frame_rows_checked", len(rows))
        missing = want - have
        if missing:
            self.violation("C14:read-frame:cluster-missing",
                           f"{sum(missing.values())} live cluster(s) (number, ver, hor) are not in .frame: "
                           f"{list(missing.items())[:4]}", k)
        return rows

    def remove(self, charge, ledger, k, op, everything):
        """Removal by id.  Returns True when the history was resynchronised by a reset."""
        import random
        rec = self.rec
        rows = self.check_frame(charge, ledger, k)
        labels = [r[0] for r in rows]
        # a removal designates clusters through the only public handle, their ids in .frame; when
        # an id is carried by several clusters the clusters that were *not* designated must stay
        shared = len(set(labels)) != len(labels)
        if shared:
            rec.count("remove_with_shared_ids")
        sel = random.Random(op["sel"])
        if not rows:
            # nothing to remove: removing "all" of nothing must change nothing
            self.guarded(k, "remove", lambda: charge.remove_from_frame(None), ledger)
            rec.count("remove_on_empty_table")
            return False
        if everything or len(rows) == 1:
            # Ambiguous territory (see ASSUMPTIONS): the table becomes empty.
            if op["by_none"]:
                self.guarded(k, "remove", lambda: charge.remove_from_frame(None), ledger)
            else:
                self.guarded(k, "remove", lambda: charge.remove_from_frame(list(labels)), ledger)
            ledger.remove_rows([(n, y, x) for _l, n, y, x in rows])
            rec.count("remove_all")
            frame = self.guarded(k, "read-frame", lambda: charge.frame, ledger)
            if len(frame) != 0:
                self.violation("C14:remove:frame-rows-differ",
                               f"all {len(rows)} ids removed but {len(frame)} row(s) remain", k)
            if STRICT_REMOVE_ALL:
                self.compare(charge, ledger, k, "remove-all")
            else:
                got = self.guarded(k, "read-array", lambda: charge.array, ledger)
                exp = ledger.expected()
                stale = getattr(got, "shape", None) != (ledger.rows, ledger.cols) or any(
                    abs(float(got[r, c]) - exp[r][c]) > ledger.tolerance(r, c)
                    for r in range(ledger.rows) for c in range(ledger.cols))
                rec.count("remove_all_stale_array_reported" if stale else "remove_all_charge_left")
            self.border_live = False
            if STRICT_REMOVE_ALL and sel.random() < 0.6:
                # the history goes on WITHOUT a reset: array and cluster additions after a removal that
                # emptied the table are "charge added since the last reset" like any other
                rec.count("remove_all_then_history_continues")
                return False
            # resynchronise: a reset returns everything to zero whatever happened before
            self.guarded(k, "reset", charge.empty, ledger)
            ledger.reset()
            self.border_live = False
            rec.count("resets")
            self.compare(charge, ledger, k, "reset")
            return True
        # strict, non-empty subset of the ids
        m = sel.randint(1, len(rows) - 1)
        chosen = sel.sample(rows, m)
        ids = [r[0] for r in chosen]
        sel.shuffle(ids)
        self.guarded(k, "remove", lambda: charge.remove_from_frame(list(ids)), ledger)
        ledger.remove_rows([(n, y, x) for _l, n, y, x in chosen])
        rec.count("removals")
        rec.count("rows_removed", m)
        after = self.guarded(k, "read-frame", lambda: frame_rows(charge.frame), ledger)
        want = collections.Counter((n, y, x) for _l, n, y, x in rows) - \
            collections.Counter((n, y, x) for _l, n, y, x in chosen)
        have = collections.Counter((n, y, x) for _l, n, y, x in after)
        if want != have:
            self.violation("C14:remove:shared-id-removes-undesignated-clusters" if shared else
                           "C14:remove:frame-rows-differ",
                           f"removed ids {ids} of {labels}: rows that should remain but do not "
                           f"{list((want - have).items())[:4]}, rows that should be gone but remain "
                           f"{list((have - want).items())[:4]}", k)
        return False


def history_has_outside(hist):
    led = Ledger(hist["rows"], hist["cols"], hist["h"], hist["w"])
    return any(led.locate(c["y"], c["x"]) is None
               for op in hist["ops"] if op["op"] in ("add_cluster", "add_df") for c in op["clusters"])


def history_signature(mode, hist):
    ops = []
    for op in hist["ops"]:
        if op["op"] == "add_array":
            ops.append(("a", op["dtype"], op["values"], op.get("layout"), op.get("buf"), op.get("refill")))
        elif op["op"] in ("add_cluster", "add_df"):
            ops.append((op["op"], [(c["n"], repr(c["y"]), repr(c["x"])) for c in op["clusters"]]))
        else:
            ops.append((op["op"], op.get("sel")))
    return (mode, hist["kind"], hist["rows"], hist["cols"], repr(hist["h"]), repr(hist["w"]),
            hist["sparse_reads"], ops)


def history_nontrivial(hist, outside):
    kinds = {op["op"] for op in hist["ops"]}
    has_arr = any(op["op"] == "add_array" and any(v > 0 for row in op["values"] for v in row)
                  for op in hist["ops"])
    has_cl = any(op["op"] in ("add_cluster", "add_df") and op["clusters"] for op in hist["ops"])
    special = any({c["cy"], c["cx"]} & (BORDER_CLASSES | ULP_CLASSES)
                  for op in hist["ops"] if op["op"] in ("add_cluster", "add_df") for c in op["clusters"])
    return (has_arr and has_cl) or outside or special or ("remove" in kinds and has_cl)


def assert_mode(mode):
    """The sanitizer switches must really be in effect in this interpreter."""
    import numba
    want_nojit = mode == "nojit"
    want_bc = mode == "boundscheck"
    if bool(numba.config.DISABLE_JIT) != want_nojit or bool(numba.config.BOUNDSCHECK) != want_bc:
        raise RuntimeError(f"numba mode {mode!r} not in effect: DISABLE_JIT={numba.config.DISABLE_JIT} "
                           f"BOUNDSCHECK={numba.config.BOUNDSCHECK}")


def run_shard(spec, rec):
    import warnings
    warnings.simplefilter("ignore")
    mode = spec["mode"]
    assert_mode(mode)
    rec.observe("numba_modes", mode)
    for i in range(spec["n"]):
        if not rec.wanted(i):
            continue
        rng = rec.rng(i)
        hist = gen_history(rng)
        outside = history_has_outside(hist)
        if outside:
            # progress marker for on_worker_failure: a worker dying inside this history is the witness
            rec.sets["oa_in_flight"] = {i}
            rec.count("histories_with_outside_clusters")
            rec.flush(partial=True)
        runner = Runner(rec, mode, i, hist)
        try:
            runner.run()
        except Abort:
            rec.count("histories_aborted_on_violation")
        except Exception as exc:  # noqa: BLE001  harness trouble is not a verdict on pyxel
            rec.sets.pop("oa_in_flight", None)
            raise RuntimeError(f"history {i} (mode {mode}): harness error {type(exc).__name__}: {exc}") from exc
        if outside:
            rec.sets.pop("oa_in_flight", None)
            rec.flush(partial=True)
        rec.observe("shapes", f"{hist['rows']}x{hist['cols']}")
        rec.observe("detector_kinds", hist["kind"])
        rec.observe("pixel_size_kinds",
                    ("square" if hist["h"] == hist["w"] else "non-square") + "/" +
                    ("integral" if float(hist["h"]).is_integer() and float(hist["w"]).is_integer()
                     else "fractional"))
        rec.count("histories")
        rec.case(history_signature(mode, hist), history_nontrivial(hist, outside),
                 sample={"mode": mode, "history": hist} if len(hist["ops"]) <= 4 else None)


def on_worker_failure(res):
    """A worker killed by a signal while executing a history with clusters outside the sensitive
    area witnesses 'never corrupts memory'; anything else stays inconclusive."""
    if res.get("status") != "died":
        return None
    rc = res.get("returncode")
    if rc is None or rc >= 0:
        return None
    partial = res.get("partial") or {}
    in_flight = (partial.get("sets") or {}).get("oa_in_flight") or []
    if not in_flight:
        return None
    index = in_flight[0]
    rspec = {k: v for k, v in res["spec"].items() if not k.startswith("_")}
    rspec["only"] = index
    err = res.get("stderr", "") or ""
    pos = max(err.find("Fatal Python error"), err.find("free()"), err.find("malloc"), err.find("corrupt"))
    err = " | ".join((err[pos:pos + 700] if pos >= 0 else err[-700:]).splitlines())
    return {"mechanism": "C14:worker-died-on-out-of-area-cluster",
            "detail": f"worker (numba mode {res['spec'].get('mode')}) was killed by signal {-rc} while executing "
                      f"history #{index} of shard {res['spec'].get('shard')}, which holds clusters outside the "
                      f"sensitive area; stderr: {err}",
            "case": {"mode": res["spec"].get("mode"), "history_index": index, "shard": res["spec"].get("shard"),
                     "note": "the history is regenerated from (seed, shard, kind, index)"},
            "replay_spec": rspec}


def finalize(counters, sets, tier):
    out = []
    modes = set(sets.get("numba_modes", []))
    if modes != set(MODES):
        out.append(f"numba modes observed {sorted(modes)} != {sorted(MODES)}")
    need = {"square/integral", "square/fractional", "non-square/integral", "non-square/fractional"}
    if not need <= set(sets.get("pixel_size_kinds", [])):
        out.append(f"pixel size kinds observed: {sets.get('pixel_size_kinds')}")
    if not {"1x1", "8x8"} <= set(sets.get("shapes", [])):
        out.append("1x1 or 8x8 detector never generated")
    if set(sets.get("array_layouts", [])) != set(ARRAY_LAYOUTS):
        out.append(f"array layouts observed: {sets.get('array_layouts')}")
    missing = (set(INSIDE_CLASSES) | set(OUTSIDE_CLASSES)) - set(sets.get("position_classes", []))
    if missing:
        out.append(f"position classes never generated: {sorted(missing)}")
    return out


def coverage_extra(counters, sets, tier):
    return {"exhaustive": False,
            "numba_modes": sorted(sets.get("numba_modes", [])),
            "remove_all_outcomes": {k: counters.get(k, 0) for k in
                                    ("remove_all", "remove_all_stale_array_reported", "remove_all_charge_left")},
            "strict_remove_all": STRICT_REMOVE_ALL}


REGISTER = True
LEVEL_TEXT = ("Exploration by runtime monitoring: about 2700 (quick) to 38000 (thorough) generated operation histories "
              "are executed on the real Charge container of real CCD/CMOS/MKID/APD detectors (1x1..8x8, integral and "
              "fractional pixel sizes) and the reported per-pixel array is compared after every operation with an "
              "exact-rational ledger; all histories run with interpreted kernels (NUMBA_DISABLE_JIT=1) and a prefix of "
              "the same histories under the default numba JIT and under NUMBA_BOUNDSCHECK=1; a worker dying inside an "
              "out-of-area history is a violation. Held = on the executions observed.")
LEVEL_NOTE = ("Trusted: fractions.Fraction / math.nextafter, numba's bounds-checking and interpreter switches, the "
              "public .frame table for choosing and interpreting the ids that are removed. Not judged: what .array "
              "reports after a removal that empties the cluster table (recorded only).")

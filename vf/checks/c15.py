"""C15 -- charge-handling models neither create nor lose charge unaccountably.

Monitor: every real model function (simple_collection, simple_conversion,
conversion_with_qe_map, simple_full_well, ipc_kernel / simple_ipc, cdm parallel / serial,
simple_persistence, persistence) is invoked on a real detector -- directly with the readout
clock of a real non-destructive readout, and inside real ``pyxel.run_mode`` exposures where
snapshot probes bracket each model -- and the bucket contents before / after the call
(public API reads: ``detector.photon.array``, ``detector.charge.array``,
``detector.pixel.array``, ``detector.persistence.trapped_charge_array``) are handed to small
NumPy-only oracles (section "oracles": no pyxel imports).  A ``sys.monitoring`` PY_RETURN spy
on ``ipc_kernel`` records the weights that the real ``simple_ipc`` call convolved with.
The numba kernels are also run with NUMBA_BOUNDSCHECK=1 and NUMBA_DISABLE_JIT=1 (M6).

Two further input classes (added after independently seeded changes were missed):
* the generated charge is held as *clusters* (the DataFrame form of the charge bucket used by the cosmic-ray
  models) with a random history of public bucket operations -- add clusters / add an array, look at the charge
  map, change number or position of some clusters in place, remove some -- before (and between) collections;
  the charge that simple_collection must add is then computed by a NumPy oracle from the cluster table;
* the CDM model runs on several detectors *at the same time* in a pool of threads (its kernels are compiled
  ``nogil`` for exactly that use: dask's threaded scheduler); every call is judged on its own detector.
Round 4:
* frames handed to the charge bucket / the pixel bucket / written to a QE-map file come in every memory layout a
  valid float64 array of the right shape can have (C, Fortran = transposed view, reversed strides, window of a larger
  buffer), and the charge that simple_collection must add is accounted from the *inputs* of the additions (frame or
  clusters handed over) whenever the history ends with additions -- not from what the bucket filed;
* QE maps with their own shape (smaller / larger than the detector, per axis) laid on the detector with the
  documented options ``position`` = (row, column) and ``align``; the efficiency per pixel is computed by a NumPy
  placement oracle.
"""
from __future__ import annotations

import math
import os
import sys

import numpy as np

from vf import build

ID = "C15"
LEVEL = "exploration"
REGISTER = True
TECHNIQUE = ("runtime monitoring: before/after bucket snapshots around real model calls (direct and inside real "
             "exposures) vs. NumPy conservation oracles; sys.monitoring return spy on ipc_kernel; numba "
             "bounds-check and interpreter modes")
RULE = ("generated non-negative frames (zero, uniform, saturated, single hot pixel, random, integer, sparse, tiny, "
        "huge) x parameter vectors from the documented ranges incl. boundaries (qe 0/1/interior from argument, "
        "characteristics and map; fwc from argument and characteristics; IPC couplings up to c+d=0.25; CDM 1-5 "
        "species, beta/volume/period/fwc in range, parallel, serial, both, charge injection; persistence 1-5 species "
        "with/without capacities over 1-6 steps of a non-destructive readout) on 1x1..16x16 CCD/CMOS detectors; "
        "charge held as an array or as clusters with a random history of add / look / in-place update / remove "
        "operations, square and non-square pixels; frames added to the charge bucket, set on the pixel bucket or stored "
        "as QE-map file in C / Fortran / reversed / windowed memory layout; QE maps of the detector shape or smaller / "
        "larger per axis placed by position=(row, column) (on and off the diagonal, rarely starting before the first "
        "row / column) or by one of the five align keywords; CDM also on 2-4 detectors of up to 128x128 processed "
        "concurrently by a pool of threads (same or different shape and parameter vector, several rounds); "
        "a case is non-trivial when an input frame holds a non-zero pixel; distinct = distinct (shard kind, "
        "detector, frame kinds, parameter vector) signatures")
ASSUMPTIONS = [
    "photon frames are 2D (the 3D wavelength path integrates first and is not driven here)",
    "with sampling on, besides 0 <= result <= photons and integrality: efficiency 0 yields no charge, efficiency 1 "
    "on whole photon counts yields all of them, and the frame total lies within 12 sigma of the binomial mean "
    "(a draw with another probability is charge created or lost unaccountably)",
    "IPC: the weights are observed as returned by ipc_kernel (directly and while simple_ipc runs); totals are only "
    "asserted on the interior of frames with an empty two-pixel border because the edge is padded with the mean",
    "persistence: besides conservation, the amount trapped from empty traps must depend on detector.time_step "
    "(identical results for two different short steps = the step length is ignored)",
    "ValueError / TypeError / NotImplementedError raised by a model are counted as a refusal of the input, not as a violation",
    "charge held as clusters: every cluster lies strictly inside the sensitive area (at least 5 % of a pixel away "
    "from a pixel border) and belongs to the pixel it lies in; the cluster table is read through the public "
    "Charge.frame accessor right before the collection; only electrons are generated",
    "QE map laid on the detector: position = (row, column) of the detector pixel under the first map pixel, the map "
    "is cropped at the detector border and pixels outside the map have efficiency zero; with 'align' both readings of "
    "top / bottom and both roundings of an odd centring offset are accepted",
    "the charge generated by a sequence of additions to the charge bucket is the per-pixel sum of what the bucket held "
    "before and of every frame / cluster handed over, whatever the memory layout of the frame",
    "threads: every thread owns its detector (a detector is never shared); a call is judged by the same oracle as a "
    "sequential call (no negative pixel, no more total charge than received)",
    "CDM parameter vectors keep max_electron_volume, full_well_capacity, release times, temperature and effective "
    "mass strictly positive (the formulas divide by them)",
]
MODELS = ["simple_collection", "simple_conversion", "conversion_with_qe_map", "simple_full_well",
          "ipc_kernel", "simple_ipc", "cdm_parallel", "cdm_serial", "simple_persistence", "persistence"]
REQUIRED_COUNTERS = ([f"judged:{m}" for m in MODELS] +
                     ["exposure_runs", "exposure_steps", "ipc_kernels_spied", "judged_boundscheck", "judged_nojit",
                      "cdm_changed_frame", "persist_trapping_steps", "persist_release_steps",
                      "persist_multi_species_steps", "timestep_pairs", "fullwell_idempotence_checks",
                      "conversion_sampled", "conversion_unsampled", "collection_nonempty_pixel",
                      "collection_from_clusters", "collection_after_inplace_update", "collection_after_look_and_update",
                      "cdm_concurrent_calls", "cdm_concurrent_same_layout",
                      "collection_of_accounted_additions", "array_added_to_clusters_other_layout",
                      "clusters_added_to_array", "qe_map_placed_off_diagonal"])
TIMEOUT = {"quick": 900, "thorough": 3600}
LEVEL_TEXT = ("Exploration by runtime monitoring: thousands (quick) to tens of thousands (thorough) of invocations of the "
              "real charge-handling model functions on real CCD/CMOS detectors, directly under the clock of a real "
              "non-destructive readout and inside real run_mode exposures with snapshot probes around every model; each "
              "before/after pair is decided by a NumPy-only conservation oracle taken from the property statement; the "
              "numba kernels additionally run bounds-checked and interpreted. Held = on the invocations observed.")
LEVEL_NOTE = ("Trusted: NumPy arithmetic and math.fsum in the oracles, the public bucket accessors used for the snapshots, "
              "CPython sys.monitoring for the ipc_kernel return spy, numba's NUMBA_BOUNDSCHECK / NUMBA_DISABLE_JIT switches.")

REFUSALS = (ValueError, TypeError, NotImplementedError)


def plan(tier, seed):
    q = tier == "quick"
    specs = []

    def add(kind, n, env=None, **more):
        spec = {"shard": len(specs), "seed": seed, "kind": kind, "n": n, **more}
        if env:
            spec["env"] = env
        specs.append(spec)

    # charge held as clusters: reading the charge map compiles a kernel at every access (0.15 s), so only a small
    # share of the jit-mode cases uses clusters; the bulk of them runs in an interpreter-mode shard (see below)
    for _ in range(3):
        add("simple", 800 if q else 20000, clusters=0.008 if q else 0.003)
    for _ in range(3):
        add("cdm", 1200 if q else 40000, hi=12 if q else 16)
    add("cdm", 600 if q else 10000, {"NUMBA_BOUNDSCHECK": "1"}, hi=12 if q else 16)
    add("cdm", 300 if q else 4000, {"NUMBA_DISABLE_JIT": "1"}, hi=10 if q else 16)
    for _ in range(3):
        add("persist", 400 if q else 12000, hi=8)
    add("persist", 300 if q else 6000, {"NUMBA_BOUNDSCHECK": "1"}, hi=8)
    add("persist", 100 if q else 2000, {"NUMBA_DISABLE_JIT": "1"}, hi=6)
    for _ in range(3 if q else 6):
        add("exposure", 40 if q else 500, hi=8)
    add("pool", 120 if q else 2500, hi=128 if q else 256)
    add("simple", 250 if q else 6000, {"NUMBA_DISABLE_JIT": "1"}, clusters=0.85)
    return specs


# =========================================================================== oracles
# NumPy only -- nothing below this line up to "harness" imports or touches pyxel.
def _fsum(a) -> float:
    return math.fsum(np.asarray(a, dtype=float).ravel().tolist())


def _worst(mask, *arrays):
    idx = tuple(int(v) for v in np.argwhere(mask)[0])
    return f"at {idx}: " + ", ".join(repr(float(np.asarray(a)[idx])) if np.ndim(a) else repr(float(a)) for a in arrays)


def orc_collection(pix_before, charge, pix_after):
    """simple collection adds exactly the generated charge to the pixels."""
    exp = pix_before + charge
    tol = 1e-12 * (np.abs(pix_before) + np.abs(charge))
    bad = ~(np.abs(pix_after - exp) <= tol)
    if bad.any():
        return "not-added", "pixel_after != pixel_before + charge " + _worst(bad, pix_before, charge, pix_after)
    return None


def orc_cluster_map(shape, pitch_ver, pitch_hor, numbers, ver, hor):
    """The charge per pixel that a table of clusters represents: each cluster (number of charges at a vertical /
    horizontal position) belongs to the pixel it lies in.  None when a cluster lies outside the frame."""
    numbers, ver, hor = (np.asarray(a, dtype=float) for a in (numbers, ver, hor))
    rows = np.floor(ver / float(pitch_ver)).astype(int)
    cols = np.floor(hor / float(pitch_hor)).astype(int)
    if ((rows < 0) | (rows >= shape[0]) | (cols < 0) | (cols >= shape[1])).any() or not np.isfinite(numbers).all():
        return None
    out = np.zeros(shape)
    np.add.at(out, (rows, cols), numbers)
    return out


def orc_place_map(shape, qmap, position, align):
    """The efficiency seen by each pixel of a detector of `shape` when a map is laid on it: `position` = (row,
    column) of the detector pixel under the first pixel of the map; the part of the map outside the detector is
    cropped, the pixels outside the map have efficiency zero.  With `align` the map is pushed into a corner or
    centred instead; which edge is 'top' and how an odd difference is halved is not stated anywhere, so every
    reading is returned -> list of candidate efficiency frames."""
    qmap = np.asarray(qmap, dtype=float)
    (oy, ox), (ay, ax) = shape, qmap.shape
    if align is None:
        offsets = [(int(position[0]), int(position[1]))]
    else:
        half = lambda d: sorted({math.floor(d / 2), math.ceil(d / 2)})   # noqa: E731
        ys = half(oy - ay) if align == "center" else sorted({0, oy - ay})
        xs = half(ox - ax) if align == "center" else [0] if align.endswith("left") else [ox - ax]
        offsets = [(y, x) for y in ys for x in xs]
    out = []
    for y0, x0 in offsets:
        eff = np.zeros(shape)
        ya, yb, xa, xb = max(0, y0), min(oy, y0 + ay), max(0, x0), min(ox, x0 + ax)
        if ya < yb and xa < xb:
            eff[ya:yb, xa:xb] = qmap[ya - y0:yb - y0, xa - x0:xb - x0]
        out.append(eff)
    return out


def orc_conversion_any(charge_before, photons, candidates, sampling, charge_after):
    """Holds when the conversion is right for one of the admissible readings of the efficiency frame."""
    first = None
    for qe in candidates:
        res = orc_conversion(charge_before, photons, qe, sampling, charge_after)
        if res is None:
            return None
        first = first or res
    return first


def orc_conversion(charge_before, photons, qe, sampling, charge_after):
    """0 <= result <= photons per pixel; exactly qe*photons without sampling."""
    qe_arr = np.broadcast_to(np.asarray(qe, dtype=float), photons.shape)
    if not sampling:
        exp = charge_before + qe_arr * photons
        tol = 1e-12 * (np.abs(charge_before) + np.abs(qe_arr * photons))
        bad = ~(np.abs(charge_after - exp) <= tol)
        if bad.any():
            return "not-qe-times-photons", "result != qe*photons " + _worst(bad, photons, qe_arr, charge_after - charge_before)
        return None
    res = charge_after - charge_before
    # the subtraction is exact when no charge was there before; otherwise allow its rounding
    tol = np.where(charge_before == 0, 0.0, 4.0 * np.finfo(float).eps * (np.abs(charge_before) + np.abs(charge_after)))
    bad = ~(res >= -tol)
    if bad.any():
        return "negative", "converted charge < 0 " + _worst(bad, photons, qe_arr, res)
    bad = ~(res <= photons + tol)
    if bad.any():
        return "more-than-photons", "converted charge > incident photons " + _worst(bad, photons, qe_arr, res)
    bad = ~(np.abs(res - np.round(res)) <= tol)
    if bad.any():
        return "not-integral", "sampled charge is not a whole number " + _worst(bad, photons, qe_arr, res)
    bad = (qe_arr == 0) & ~(np.abs(res) <= tol)
    if bad.any():
        return "charge-at-zero-efficiency", "efficiency 0 produced charge " + _worst(bad, photons, qe_arr, res)
    whole = photons == np.floor(photons)
    bad = (qe_arr == 1) & whole & ~(np.abs(res - photons) <= tol)
    if bad.any():
        return "loss-at-unit-efficiency", "efficiency 1 lost photons " + _worst(bad, photons, qe_arr, res)
    n = np.floor(photons)
    mean = _fsum(n * qe_arr)
    var = _fsum(n * qe_arr * (1.0 - qe_arr))
    total = _fsum(res)
    slack = 12.0 * math.sqrt(max(var, 0.0)) + 1e-9 * mean + 1.0 + _fsum(tol)
    if not abs(total - mean) <= slack:
        return "sampled-total-implausible", (f"frame total {total!r} is more than 12 sigma from the binomial mean "
                                             f"{mean!r} (sigma {math.sqrt(max(var, 0.0))!r})")
    return None


def orc_fullwell(pix_before, fwc, pix_after):
    """full-well limiting returns the minimum of charge and capacity."""
    exp = np.minimum(pix_before, float(fwc))
    bad = ~(np.abs(pix_after - exp) <= 1e-12 * np.abs(exp))
    if bad.any():
        return "not-minimum", f"result != minimum(pixel, {float(fwc)!r}) " + _worst(bad, pix_before, pix_after)
    return None


def orc_idempotent(first, second):
    bad = ~(np.abs(second - first) <= 1e-12 * np.abs(first))
    if bad.any():
        return "not-idempotent", "second application changed the frame " + _worst(bad, first, second)
    return None


def orc_kernel(kernel):
    """inter-pixel coupling uses weights that sum to one."""
    k = np.asarray(kernel, dtype=float)
    total = _fsum(k)
    if not abs(total - 1.0) <= 1e-12 * max(1.0, _fsum(np.abs(k))):
        return "weights-do-not-sum-to-one", f"kernel weights sum to {total!r}: {k.tolist()}"
    return None


def orc_uniform(value, out):
    """... so a uniform frame is unchanged (rel 1e-9)."""
    tol = 1e-9 * abs(value) if value else 1e-12
    bad = ~(np.abs(out - value) <= tol)
    if bad.any():
        return "uniform-frame-changed", f"uniform frame of {value!r} changed " + _worst(bad, out)
    return None


def orc_interior(inp, out):
    """3x3 unit-sum weights: all charge of a frame whose outer two rings are empty lands in out[1:-1, 1:-1]."""
    tin, tout = _fsum(inp), _fsum(out[1:-1, 1:-1])
    if not abs(tout - tin) <= 1e-9 * _fsum(np.abs(inp)) + 1e-12:
        return "interior-total-changed", f"total charge {tin!r} became {tout!r}"
    return None


def orc_cdm(inp, out):
    """never a negative pixel nor more total charge than received."""
    if np.isnan(out).any():
        return "nan", "NaN pixel after transfer " + _worst(np.isnan(out), inp, out)
    bad = out < 0
    if bad.any():
        return "negative-pixel", "negative pixel after transfer " + _worst(bad, inp, out)
    tin, tout = _fsum(inp), _fsum(out)
    if not tout <= tin * (1.0 + 1e-12) + 1e-300:
        return "charge-created", f"total charge {tin!r} became {tout!r} (ratio-1 = {tout / tin - 1 if tin else float('inf')!r})"
    return None


def orc_persistence(pix_before, trap_before, pix_after, trap_after):
    """pixel + trapped charge constant over a step (rel 1e-9); trapped charge never negative."""
    scale = _fsum(np.abs(pix_before)) + _fsum(np.abs(trap_before))
    tb = _fsum(pix_before) + _fsum(trap_before)
    ta = _fsum(pix_after) + _fsum(trap_after)
    if not abs(ta - tb) <= 1e-9 * scale + 1e-300:
        return "total-not-constant", (f"pixel+trapped {tb!r} became {ta!r} (relative {((ta - tb) / scale) if scale else float('nan')!r}); "
                                      f"pixel {_fsum(pix_before)!r}->{_fsum(pix_after)!r}, trapped {_fsum(trap_before)!r}->{_fsum(trap_after)!r}")
    floor = -1e-9 * max(float(np.max(np.abs(pix_before), initial=0.0)), float(np.max(np.abs(trap_before), initial=0.0)))
    bad = ~(trap_after >= floor)
    if bad.any():
        return "negative-trapped-charge", "trapped charge < 0 " + _worst(bad, trap_after)
    return None


# =========================================================================== harness
FRAME_KINDS = ["zero", "uniform", "saturated", "hot", "random", "randint", "sparse", "tiny", "huge", "ramp"]


def gen_frame(rng, shape, ref, kinds=None):
    """A non-negative float64 frame; `ref` is the natural charge scale (e.g. the full well)."""
    kind = rng.choice(kinds or FRAME_KINDS)
    g = np.random.default_rng(rng.getrandbits(63))
    r, c = shape
    ref = max(float(ref), 1.0)
    if kind == "zero":
        a = np.zeros(shape)
    elif kind == "uniform":
        a = np.full(shape, rng.choice([1.0, 0.5, 7.0, ref * 0.3, 12345.678, ref]))
    elif kind == "saturated":
        a = np.full(shape, ref * rng.choice([1.0, 1.5, 2.0, 10.0]))
    elif kind == "hot":
        a = np.zeros(shape)
        a[rng.randrange(r), rng.randrange(c)] = ref * rng.choice([0.5, 1.0, 3.0, 1e3])
    elif kind == "random":
        a = g.random(shape) * ref * rng.choice([1e-3, 0.1, 1.0, 2.5])
    elif kind == "randint":
        a = g.integers(0, int(min(ref, 1e9)) + 2, size=shape).astype(float)
    elif kind == "sparse":
        a = g.random(shape) * ref * 1.5 * (g.random(shape) < 0.3)
    elif kind == "tiny":
        a = g.random(shape) * 0.03
    elif kind == "huge":
        a = g.random(shape) * rng.choice([1e10, 1e13, 1e15])
        if rng.random() < 0.3:
            a = np.floor(a)
    else:  # ramp: strictly increasing along the transfer directions
        a = (np.arange(r * c, dtype=float).reshape(shape) + 1.0) * ref / (r * c)
    return kind, np.ascontiguousarray(a, dtype=float)


LAYOUTS = ["C", "C", "F", "F", "reversed", "strided", "strided_F"]


def relayout(rng, a):
    """The same frame (same shape, dtype and values) with another memory layout: what a model gets when its frame
    was loaded from a Fortran-ordered file, transposed / rotated to the detector orientation or cut out of a larger
    array.  -> (layout name, array)"""
    how = rng.choice(LAYOUTS)
    r, c = a.shape
    if how == "F":
        b = np.asfortranarray(a)                       # = a transposed view of the transposed frame
    elif how == "reversed":
        b = np.ascontiguousarray(a[::-1, ::-1])[::-1, ::-1]      # negative strides (np.rot90 twice, np.flip)
    elif how in ("strided", "strided_F"):
        big = np.full((2 * r + 1, 3 * c + 2), 7.0, order="F" if how == "strided_F" else "C")
        b = big[1::2, 2::3]
        b[...] = a                                     # a window of a larger buffer
    else:
        b = a
    assert b.shape == a.shape and b.dtype == a.dtype and np.array_equal(a, b)
    return how, b


def rand_shape(rng, lo=1, hi=8):
    pick = rng.random()
    if pick < 0.12:
        return rng.choice([(1, 1), (1, hi), (hi, 1), (2, 2)])
    return rng.randint(lo, hi), rng.randint(lo, hi)


def mk_detector(kind, shape, qe=0.9, fwc=100000.0, temperature=300.0, pitch=None):
    spec = build.default_detector_spec(kind, shape[0], shape[1])
    if pitch is not None:
        spec["geometry"]["pixel_vert_size"], spec["geometry"]["pixel_horz_size"] = float(pitch[0]), float(pitch[1])
    spec["characteristics"]["quantum_efficiency"] = qe
    spec["characteristics"]["full_well_capacity"] = fwc
    spec["environment"]["temperature"] = temperature
    return build.make_detector(spec), spec


def snapshot(det) -> dict:
    """Copies of what the public accessors show right now."""
    s = {"pixel": np.array(det.pixel.array, dtype=float, copy=True),
         "charge": np.array(det.charge.array, dtype=float, copy=True)}
    try:
        s["photon"] = np.array(det.photon.array, dtype=float, copy=True)
    except Exception:  # noqa: BLE001 - photon bucket empty
        s["photon"] = None
    if det.has_persistence():
        s["trapped"] = np.array(det.persistence.trapped_charge_array, dtype=float, copy=True)
    else:
        s["trapped"] = None
    try:
        s["time_step"] = float(det.time_step)
        s["count"] = int(det.pipeline_count)
    except Exception:  # noqa: BLE001 - no readout defined
        s["time_step"] = None
        s["count"] = None
    return s


class ReturnSpy:
    """sys.monitoring PY_RETURN spy on one code object: records the values a real function returned."""
    TOOL = 3

    def __init__(self, func):
        self.code = func.__code__
        self.values: list = []
        mon = sys.monitoring
        try:
            mon.use_tool_id(self.TOOL, "vf.c15")
        except ValueError:
            pass
        mon.register_callback(self.TOOL, mon.events.PY_RETURN, self._on_return)
        mon.set_local_events(self.TOOL, self.code, mon.events.PY_RETURN)

    def _on_return(self, code, offset, retval):
        if code is self.code:
            try:
                self.values.append(np.array(retval, dtype=float, copy=True))
            except Exception:  # noqa: BLE001
                self.values.append(None)


class Ctx:
    def __init__(self, spec, rec):
        import numba

        import pyxel.models.charge_collection as cc
        import pyxel.models.charge_generation as cg
        import pyxel.models.charge_transfer as ct
        self.rec = rec
        self.cc, self.cg, self.ct = cc, cg, ct
        self.env_tag = None
        env = spec.get("env") or {}
        if env.get("NUMBA_BOUNDSCHECK") == "1" and numba.config.BOUNDSCHECK:
            self.env_tag = "boundscheck"
        if env.get("NUMBA_DISABLE_JIT") == "1" and numba.config.DISABLE_JIT:
            self.env_tag = "nojit"
        rec.observe("numba_modes", self.env_tag or "jit")
        self.spy = None
        self.ipc_kernel = None
        try:
            from pyxel.models.charge_collection.inter_pixel_capacitance import ipc_kernel
            self.ipc_kernel = ipc_kernel
            self.spy = ReturnSpy(ipc_kernel)
        except Exception:  # noqa: BLE001 - counted: the required counters then stay at zero
            rec.count("ipc_kernel_unavailable")


def invoke(ctx, model, index, mkcase, fn, *args, **kwargs):
    """Call the real model; classify what it raised.  Returns True when it returned normally."""
    rec = ctx.rec
    rec.count(f"invoked:{model}")
    try:
        fn(*args, **kwargs)
    except REFUSALS as exc:
        rec.count(f"refused:{model}")
        rec.observe("refusal_types", f"{model}:{type(exc).__name__}")
        return False
    except IndexError as exc:
        rec.violation(f"C15:{model}:index-error", f"IndexError (out-of-bounds access): {exc}", mkcase(), index)
        return False
    except Exception as exc:  # noqa: BLE001
        import traceback
        rec.violation(f"C15:{model}:unexpected-exception",
                      f"{type(exc).__name__}: {exc} :: {traceback.format_exc()[-900:]}", mkcase(), index)
        return False
    return True


def verdict(ctx, model, outcome, index, mkcase, where="direct"):
    """Record the oracle's decision for one observed invocation."""
    rec = ctx.rec
    rec.count(f"judged:{model}")
    rec.count("invocations_judged")
    if ctx.env_tag:
        rec.count(f"judged_{ctx.env_tag}")
    if outcome is None:
        rec.count(f"held:{model}")
        return True
    what, detail = outcome
    rec.violation(f"C15:{model}:{what}", f"[{where}] {detail}", mkcase(), index)
    return False


def judge(ctx, model, params, before, after, index, mkcase, where="direct"):
    """Dispatch one before/after snapshot pair to the oracle of the model that ran in between."""
    rec = ctx.rec
    if model == "simple_collection":
        if before["pixel"].any():
            rec.count("collection_nonempty_pixel")
        # the generated charge: the charge map, or - when the bucket holds clusters - what the cluster table says
        held = params.get("held")
        if held is not None:
            rec.count("collection_from_clusters")
        return verdict(ctx, model, orc_collection(before["pixel"], before["charge"] if held is None else held,
                                                  after["pixel"]), index, mkcase, where)
    if model in ("simple_conversion", "conversion_with_qe_map"):
        rec.count("conversion_sampled" if params["sampling"] else "conversion_unsampled")
        if params.get("qe_candidates") is not None:      # a map laid on the detector with 'position' / 'align'
            return verdict(ctx, model, orc_conversion_any(before["charge"], before["photon"], params["qe_candidates"],
                                                          params["sampling"], after["charge"]), index, mkcase, where)
        return verdict(ctx, model, orc_conversion(before["charge"], before["photon"], params["qe"], params["sampling"],
                                                  after["charge"]), index, mkcase, where)
    if model == "simple_full_well":
        ok = verdict(ctx, model, orc_fullwell(before["pixel"], params["fwc"], after["pixel"]), index, mkcase, where)
        if params.get("repeat_of") is not None:
            rec.count("fullwell_idempotence_checks")
            out = orc_idempotent(params["repeat_of"], after["pixel"])
            if out is not None:
                rec.violation(f"C15:{model}:{out[0]}", f"[{where}] {out[1]}", mkcase(), index)
                ok = False
        return ok
    if model in ("cdm_parallel", "cdm_serial"):
        if not np.array_equal(before["pixel"], after["pixel"]):
            rec.count("cdm_changed_frame")
        return verdict(ctx, model, orc_cdm(before["pixel"], after["pixel"]), index, mkcase, where)
    if model in ("simple_persistence", "persistence"):
        tb = before["trapped"]
        ta = after["trapped"]
        if ta is None:
            rec.violation(f"C15:{model}:no-trapped-charge-record", f"[{where}] detector has no persistence record after the call",
                          mkcase(), index)
            return False
        if tb is None:
            tb = np.zeros_like(ta)
        st, sb = _fsum(ta), _fsum(tb)
        rec.count("persist_trapping_steps" if st > sb else "persist_release_steps" if st < sb else "persist_neutral_steps")
        if ta.shape[0] >= 2:
            rec.count("persist_multi_species_steps")
        rec.observe("trap_species", int(ta.shape[0]))
        return verdict(ctx, model, orc_persistence(before["pixel"], tb, after["pixel"], ta), index, mkcase, where)
    raise RuntimeError(f"no oracle for {model}")


# --------------------------------------------------------------------------- parameter generators
def gen_qe(rng):
    return rng.choice([0.0, 1.0, 0.5, 0.9, round(rng.random(), 6), rng.random() * 0.05, 1.0 - rng.random() * 0.05])


def gen_ipc(rng):
    style = rng.choice(["doc", "plain", "diag", "aniso", "all", "edge", "small", "negative", "plain", "all", "none"])
    if style == "doc":
        return 0.1, 0.05, 0.03
    if style == "none":      # no coupling at all (the identity kernel); the model may refuse it
        return 0.0, 0.0, 0.0
    c = rng.uniform(1e-6, 0.25)
    if style == "plain":
        return rng.choice([c, 0.25, 0.125, 1e-9]), 0.0, 0.0
    if style == "diag":
        c = rng.uniform(1e-3, 0.2)
        return c, rng.uniform(0.0, min(c, 0.25 - c)) * 0.999, 0.0
    if style == "aniso":
        return c, 0.0, rng.uniform(0.0, c) * 0.999
    if style == "all":
        c = rng.uniform(1e-3, 0.2)
        return c, rng.uniform(0.0, min(c, 0.25 - c)) * 0.999, rng.uniform(0.0, c) * 0.999
    if style == "edge":      # coupling + diagonal_coupling == 0.25 exactly representable
        return rng.choice([(0.1875, 0.0625, 0.0), (0.125, 0.0625, 0.0625), (0.25, 0.0, 0.125), (0.15, 0.1, 0.1)])
    if style == "small":
        return 10 ** rng.uniform(-9, -3), 0.0, 0.0
    c = rng.uniform(0.05, 0.2)          # accepted by the model: negative diagonal / anisotropic terms
    return c, -rng.uniform(0.0, c), -rng.uniform(0.0, c)


def gen_cdm(rng):
    k = rng.randint(1, 5)
    style = rng.choice(["doc", "effective", "effective", "wide", "boundary", "strong", "strong"])
    p = {"beta": rng.choice([0.3, 0.0, 1.0, round(rng.random(), 4)]),
         "max_electron_volume": rng.choice([1e-10, 1.0, 10 ** rng.uniform(-15, 0)]),
         "transfer_period": rng.choice([1e-4, 10.0, 10 ** rng.uniform(-7, 1)]),
         "charge_injection": rng.random() < 0.4,
         "electron_effective_mass": rng.choice([0.5, 1.0, rng.uniform(0.05, 2.0)])}
    fwc = rng.choice([1000.0, 1e7, 1.0, 10 ** rng.uniform(0, 7)])
    if style == "doc":
        p.update(beta=0.3, max_electron_volume=1e-10, transfer_period=1e-4)
        tr = [rng.choice([0.1, 1.0, 1e-3]) for _ in range(k)]
        nt = [rng.choice([0.307, 0.175, 1e9, 1e11]) for _ in range(k)]
        sg = [1e-15 for _ in range(k)]
    elif style == "effective":   # capture and release both matter within a few transfers
        vg, t = p["max_electron_volume"], p["transfer_period"]
        tr = [t * 10 ** rng.uniform(-2, 2) for _ in range(k)]
        nt = [10 ** rng.uniform(-3, 4) / vg for _ in range(k)]
        sg = [10 ** rng.uniform(-3, 2) * 2.0 * vg / (t * 1.6e7 * fwc ** p["beta"]) for _ in range(k)]
    elif style == "strong":
        # heavily irradiated device: every species alone captures a large part of a faint packet
        # (added after an independently seeded change -- capture computed from a stale row signal with
        # >= 2 species -- was missed by the other regimes)
        k = max(k, 2)
        p.update(beta=0.3, max_electron_volume=rng.choice([1e-10, 1.5e-10]), transfer_period=1e-3,
                 charge_injection=False)
        tr = [rng.choice([1e-2, 2e-2, 5e-3]) for _ in range(k)]
        nt = [rng.choice([1e12, 5e11, 2e12]) for _ in range(k)]
        sg = [rng.choice([1e-14, 1e-13]) for _ in range(k)]
        fwc = rng.choice([1e4, 3e4, 1e5])
    elif style == "wide":
        tr = [10 ** rng.uniform(-7, 3) for _ in range(k)]
        nt = [10 ** rng.uniform(-3, 12) for _ in range(k)]
        sg = [10 ** rng.uniform(-22, -10) for _ in range(k)]
    else:
        p["transfer_period"] = rng.choice([0.0, 10.0])
        tr = [rng.choice([1e-9, 1.0, 1e6]) for _ in range(k)]
        nt = [rng.choice([0.0, 1e10, 1e15]) for _ in range(k)]
        sg = [rng.choice([0.0, 1e-15, 1e-10]) for _ in range(k)]
    p.update(trap_release_times=tr, trap_densities=nt, sigma=sg)
    p["_style"] = style
    return p, fwc


def gen_traps(rng, simple):
    k = rng.randint(1, 5)
    taus = [rng.choice([1.0, 10.0, 100.0, 1000.0, 10000.0, 10 ** rng.uniform(-1, 4)]) for _ in range(k)]
    out = {"k": k, "trap_time_constants": taus}
    if simple:
        out["trap_densities"] = [rng.choice([0.307, 0.175, 1.0, 0.0, rng.random(), rng.random() * 0.2]) for _ in range(k)]
        out["trap_capacities"] = (None if rng.random() < 0.45 else
                                  [rng.choice([100.0, 0.0, 1e12, 10 ** rng.uniform(0, 5)]) for _ in range(k)])
    else:
        w = [rng.random() + 0.05 for _ in range(k)]
        if k > 1 and rng.random() < 0.15:
            w[rng.randrange(k)] = 0.0
        tot = sum(w)
        out["trap_proportions"] = [x / tot for x in w]
    return out


def gen_map(rng, shape, kind):
    g = np.random.default_rng(rng.getrandbits(63))
    if kind == "density":
        style = rng.choice(["uniform", "random", "ones", "patchy"])
        if style == "uniform":
            return np.full(shape, rng.choice([0.01, 0.5, 1.0, rng.random()]))
        if style == "ones":
            return np.ones(shape)
        if style == "random":
            return g.random(shape)
        return g.random(shape) * (g.random(shape) < 0.6)
    style = rng.choice(["uniform", "random", "zero_patch"])
    if style == "uniform":
        return np.full(shape, rng.choice([100.0, 0.0, 1e12, 10 ** rng.uniform(0, 5)]))
    if style == "random":
        return g.random(shape) * 10 ** rng.uniform(0, 5)
    return g.random(shape) * 1e3 * (g.random(shape) < 0.5)


def gen_times(rng, lo=1, hi=6):
    n = rng.randint(lo, hi)
    steps = [rng.choice([0.01, 0.5, 1.0, 1.0, 3.0, 30.0, 1e3, 2e4, round(10 ** rng.uniform(-2, 4), 4)]) for _ in range(n)]
    t, times = 0.0, []
    for s in steps:
        t += s
        times.append(round(t, 6))
    return times


def set_clock(det, i):
    """What the exposure loop does before each pipeline run (public setters)."""
    rp = det.readout_properties
    det.time = float(rp.times[i])
    det.time_step = float(rp.steps[i])
    det.pipeline_count = i


def jl(a):
    return None if a is None else np.asarray(a).tolist()


# --------------------------------------------------------------------------- charge held as clusters
def clusters_held(det):
    """Public read of the cluster table of the charge bucket -> (ids, numbers, ver, hor); None when it holds none."""
    table = det.charge.frame
    if len(table) == 0:
        return None
    return ([int(v) for v in table.index], np.array(table["number"], dtype=float),
            np.array(table["position_ver"], dtype=float), np.array(table["position_hor"], dtype=float))


def gen_clusters(rng, shape, pitch, ref, n):
    """n clusters strictly inside the sensitive area (several may share a pixel)."""
    ref = max(float(ref), 1.0)
    spots = [(rng.randrange(shape[0]), rng.randrange(shape[1])) for _ in range(rng.randint(1, n))]
    rows, cols = zip(*[rng.choice(spots) for _ in range(n)])
    centred = rng.random() < 0.4
    off = lambda: 0.5 if centred else rng.uniform(0.05, 0.95)   # noqa: E731
    numbers = [rng.choice([float(rng.randint(1, 5000)), rng.random() * ref, ref, 0.5, 1e-3, 1.0, 250.0, 1e6]) for _ in range(n)]
    return (np.array(numbers), np.array([(r + off()) * pitch[0] for r in rows]),
            np.array([(c + off()) * pitch[1] for c in cols]))


def cluster_history(ctx, rng, det, shape, pitch, ref, log, looked=False):
    """A random history of public operations on the charge bucket of `det` (the things the charge-generation
    models, the outputs and a recombination step do).  `looked`: the charge map was read since the last addition.
    -> (looked, clusters were changed in place since the last addition, ... after the map had been read,
        account).  `account`: the charge per pixel that the generators have put into the bucket, kept from the
    *inputs* of the additions (the clusters / the frame handed over) on top of what the bucket held before them;
    None when the last operation worked on the cluster table itself (then the table is the only statement of the
    generated charge)."""
    rec = ctx.rec
    ch = det.charge
    updated = looked_then_updated = False
    account = None
    for _ in range(rng.randint(1, 4)):
        held = clusters_held(det)
        if account is None:        # what the bucket holds before the next operation (public reads only)
            account = (np.array(ch.array, dtype=float, copy=True) if held is None
                       else orc_cluster_map(shape, pitch[0], pitch[1], *held[1:]))
        if held is None:
            op = rng.choice(["add", "add", "add_table", "look"])
        else:
            op = rng.choice(["add", "add_table", "add_array", "add_array", "look", "look", "scale_all", "scale_some",
                             "renumber", "move", "move", "remove", "remove", "remove_all"])
        ids = held[0] if held else []
        some = sorted(rng.sample(ids, rng.randint(1, max(1, len(ids) - 1)))) if ids else []
        if op in ("add", "add_table"):
            n = rng.randint(1, 6)
            numbers, ver, hor = gen_clusters(rng, shape, pitch, ref, n)
            kw = dict(particle_type="e", particles_per_cluster=numbers, init_energy=np.zeros(n),
                      init_ver_position=ver, init_hor_position=hor, init_z_position=np.zeros(n),
                      init_ver_velocity=np.zeros(n), init_hor_velocity=np.zeros(n), init_z_velocity=np.zeros(n))
            if op == "add":
                ch.add_charge(**kw)
            else:
                ch.add_charge_dataframe(ch.create_charges(**kw))
            log.append([f"charge:{op}", {"number": jl(numbers), "ver": jl(ver), "hor": jl(hor)}])
            looked = updated = looked_then_updated = False
            if account is not None:
                account = account + orc_cluster_map(shape, pitch[0], pitch[1], numbers, ver, hor)
                if held is None and account.any():
                    rec.count("clusters_added_to_array")
        elif op == "add_array":
            fk, arr = gen_frame(rng, shape, ref, ["hot", "sparse", "randint", "uniform", "zero", "random", "ramp"])
            lay, arr = relayout(rng, np.floor(arr) if rng.random() < 0.7 else arr)
            ch.add_charge_array(arr)
            log.append([f"charge:{op}", {"array": jl(arr), "layout": lay, "frame_kind": fk}])
            looked = updated = looked_then_updated = False
            rec.observe("charge_array_layouts", lay)
            if account is not None:
                account = account + arr
                rec.count("array_added_to_clusters")
                if not (arr.flags.c_contiguous or np.array_equal(arr, arr.T.reshape(arr.shape))):
                    rec.count("array_added_to_clusters_other_layout")
        elif op == "look":
            how = rng.choice(["array", "to_xarray"])
            _ = ch.array if how == "array" else ch.to_xarray()
            log.append([f"charge:{op}", {"how": how}])
            looked = True
        elif op in ("scale_all", "scale_some", "renumber"):
            target = ids if op == "scale_all" else some
            factor = rng.choice([0.5, 0.0, 0.9, 2.0, round(rng.random(), 3)])
            current = dict(zip(ids, held[1].tolist()))
            values = ([float(rng.randint(0, 3000)) for _ in target] if op == "renumber"
                      else [current[k] * factor for k in target])
            ch.set_frame_values(quantity="number", new_value_list=values,
                                id_list=None if op == "scale_all" and ids == list(range(len(ids))) and rng.random() < 0.5
                                else list(target))
            log.append([f"charge:{op}", {"ids": target, "values": values}])
            updated, looked_then_updated = True, looked_then_updated or looked
            account = None
        elif op == "move":
            quantity = rng.choice(["position_ver", "position_hor"])
            axis = 0 if quantity == "position_ver" else 1
            values = [(rng.randrange(shape[axis]) + rng.uniform(0.05, 0.95)) * pitch[axis] for _ in some]
            ch.set_frame_values(quantity=quantity, new_value_list=values, id_list=list(some))
            log.append([f"charge:{op}", {"quantity": quantity, "ids": some, "values": values}])
            updated, looked_then_updated = True, looked_then_updated or looked
            account = None
        elif op == "remove":
            if len(ids) < 2:
                continue
            ch.remove_from_frame(id_list=list(some))
            log.append([f"charge:{op}", {"ids": some}])
            updated, looked_then_updated = True, looked_then_updated or looked
            account = None
        else:
            if rng.random() < 0.7:     # rarely: nothing is left in the bucket
                continue
            ch.remove_from_frame()
            log.append([f"charge:{op}", {}])
            looked = updated = looked_then_updated = False
            account = None
        rec.observe("charge_bucket_operations", op)
    return looked, updated, looked_then_updated, account


# --------------------------------------------------------------------------- shard: simple models
def case_simple(ctx, rng, i, clusters=0.0):
    rec = ctx.rec
    kind = rng.choice(["ccd", "cmos", "cmos"])
    shape = rand_shape(rng, 1, 9)
    det_qe = gen_qe(rng)
    det_fwc = rng.choice([0.0, 1.0, 1e7, 100000.0, float(rng.randint(2, 5000)), round(10 ** rng.uniform(0, 7), 3)])
    pitch = rng.choice([(10.0, 10.0), (10.0, 10.0), (18.0, 18.0), (6.5, 6.5), (15.0, 30.0), (27.0, 12.0), (1.0, 1.0)])
    det, dspec = mk_detector(kind, shape, det_qe, det_fwc, pitch=pitch)
    det.set_readout(times=[1.0, 2.0], non_destructive=True)
    det.empty()
    set_clock(det, 0)
    ref = rng.choice([det_fwc, 1000.0, 50.0])
    info = {"detector": kind, "shape": list(shape), "pixel_size": list(pitch), "det_qe": det_qe, "det_fwc": det_fwc,
            "calls": []}
    frames = {}

    def mkcase():
        return {"kind": "simple", **info, "frames": {k: jl(v) for k, v in frames.items()}}

    nontrivial = False
    # ---- photo-conversion (1-2 calls; the second one meets charge that is already there)
    for rep in range(rng.choice([1, 1, 2])):
        fk, photons = gen_frame(rng, shape, ref)
        frames[f"photon{rep}"] = photons
        nontrivial |= bool(photons.any())
        sampling = rng.random() < 0.55
        if rep == 0 and rng.random() < 0.3:
            lay, prior = relayout(rng, np.floor(gen_frame(rng, shape, 1000.0, ["randint", "uniform", "hot"])[1]))
            frames["prior_charge"] = prior
            info["calls"].append(["charge:add_array", {"layout": lay}, "prior_charge"])
            det.charge.add_charge_array(prior)
        det.photon.array = photons.copy()
        use_map = rng.random() < 0.3
        if use_map:
            g = np.random.default_rng(rng.getrandbits(63))
            # the map has the shape of the detector, or its own shape (smaller / larger, per axis) and is laid on
            # the detector with the documented options 'position' (row, column of its first pixel) or 'align'
            placed = rng.random() < 0.6
            mshape = shape
            if placed:
                mshape = tuple(rng.choice([n, n, rng.randint(1, n), rng.randint(1, n), n + rng.randint(1, 3)]) for n in shape)
            qmap = rng.choice([g.random(mshape), np.round(g.random(mshape)), np.full(mshape, gen_qe(rng)),
                               np.where(g.random(mshape) < 0.3, 0.0, np.where(g.random(mshape) < 0.3, 1.0, g.random(mshape)))])
            layout, qmap = relayout(rng, qmap)          # e.g. a file written in Fortran order
            frames[f"qe_map{rep}"] = qmap
            path = os.path.join(rec.tmp, f"qe_{i}_{rep}.npy")
            np.save(path, qmap)
            params = {"qe": qmap, "sampling": sampling}
            kw = {"filename": path, "binomial_sampling": sampling}
            if placed:
                position, align = (0, 0), None
                if rng.random() < 0.25:
                    align = kw["align"] = rng.choice(["center", "top_left", "top_right", "bottom_left", "bottom_right"])
                elif rng.random() < 0.9:
                    # somewhere on the detector; now and then the map starts before the first row / column
                    position = kw["position"] = tuple(
                        rng.randint(1 - m, -1) if m > 1 and rng.random() < 0.12 else rng.randrange(n)
                        for n, m in zip(shape, mshape))
                params = {"qe": None, "qe_candidates": orc_place_map(shape, qmap, position, align), "sampling": sampling}
                rec.observe("qe_map_placement", "align:" + align if align else
                            "position:" + ("default" if "position" not in kw else "diagonal" if position[0] == position[1]
                                           else "off-diagonal"))
                if align is None and position[0] != position[1]:
                    rec.count("qe_map_placed_off_diagonal")
            rec.observe("qe_map_layouts", layout)
            if rng.random() < 0.5:
                kw["seed"] = rng.randint(0, 10 ** 6)
            model, fn = "conversion_with_qe_map", ctx.cg.conversion_with_qe_map
        else:
            arg_qe = None if rng.random() < 0.4 else gen_qe(rng)
            params = {"qe": det_qe if arg_qe is None else arg_qe, "sampling": sampling}
            kw = {"quantum_efficiency": arg_qe, "binomial_sampling": sampling}
            if rng.random() < 0.5:
                kw["seed"] = rng.randint(0, 10 ** 6)
            rec.observe("qe_source", "characteristics" if arg_qe is None else "argument")
            model, fn = "simple_conversion", ctx.cg.simple_conversion
        info["calls"].append([model, {k: (v if not isinstance(v, np.ndarray) else "<map>") for k, v in kw.items()}, fk])
        rec.observe("frame_kinds", fk)
        before = snapshot(det)
        if invoke(ctx, model, i, mkcase, fn, det, **kw):
            judge(ctx, model, params, before, snapshot(det), i, mkcase)
    # ---- simple collection (pixel empty or already holding charge; applied once or twice)
    if rng.random() < 0.6:
        fk, pix = gen_frame(rng, shape, ref)
        frames["pixel_before_collection"] = pix
        lay, det.pixel.array = relayout(rng, pix.copy())
        info["calls"].append(["pixel:set", {"layout": lay}, fk])
        nontrivial |= bool(pix.any())
    as_clusters = rng.random() < clusters     # the generated charge is held as clusters (with a history) or as an array
    looked = False
    for rep in range(rng.choice([1, 1, 2, 3] if as_clusters else [1, 1, 2])):
        updated = looked_then_updated = False
        account = None
        if as_clusters:
            try:
                looked, updated, looked_then_updated, account = cluster_history(ctx, rng, det, shape, pitch, ref,
                                                                                info["calls"], looked)
            except REFUSALS as exc:       # the bucket refused an operation: whatever it holds now is collected
                rec.count("refused:charge_bucket_operation")
                rec.observe("refusal_types", f"charge_bucket:{type(exc).__name__}")
        info["calls"].append(["simple_collection", {}, ""])
        before = snapshot(det)
        params = {}
        held = clusters_held(det)
        if held is not None:
            frames[f"clusters{rep}"] = np.column_stack(held[1:])
            nontrivial |= bool(held[1].any())
            params["held"] = orc_cluster_map(shape, pitch[0], pitch[1], *held[1:])
            if params["held"] is None:
                rec.count("clusters_outside_frame")      # not generated: left to the array view
            else:
                if account is not None:
                    # the generated charge as the generators handed it over (clusters and frames), not as the
                    # bucket filed it
                    params["held"] = account
                    rec.count("collection_of_accounted_additions")
                if updated:
                    rec.count("collection_after_inplace_update")
                if looked_then_updated:
                    rec.count("collection_after_look_and_update")
        looked = True       # the snapshot above has read the charge map
        if invoke(ctx, "simple_collection", i, mkcase, ctx.cc.simple_collection, det):
            judge(ctx, "simple_collection", params, before, snapshot(det), i, mkcase)
    # ---- full well (on the collected charge or on a fresh frame; twice for idempotence)
    if rng.random() < 0.7:
        fk, pix = gen_frame(rng, shape, det_fwc if rng.random() < 0.7 else ref)
        if rng.random() < 0.3 and pix.size > 1:   # plant exact-capacity and just-above values
            flat = pix.ravel()
            flat[0] = det_fwc
            flat[-1] = np.nextafter(det_fwc, np.inf)
        frames["pixel_before_full_well"] = pix
        det.pixel.array = pix.copy()
        nontrivial |= bool(pix.any())
        rec.observe("frame_kinds", fk)
    top = float(np.max(det.pixel.array, initial=0.0))
    arg_fwc = rng.choice([None, None, 0, 0.0, 1, det_fwc, int(top * rng.random()), top * rng.random(), top, top * 2 + 1,
                          rng.randint(1, 100000), round(10 ** rng.uniform(0, 7), 2)])
    fwc = det_fwc if arg_fwc is None else arg_fwc
    rec.observe("fwc_source", "characteristics" if arg_fwc is None else "argument")
    info["calls"].append(["simple_full_well", {"fwc": arg_fwc}, ""])
    before = snapshot(det)
    if (before["pixel"] > fwc).any() and (before["pixel"] < fwc).any():
        rec.count("fullwell_mixed_frames")
    if invoke(ctx, "simple_full_well", i, mkcase, ctx.cc.simple_full_well, det, fwc=arg_fwc):
        first = snapshot(det)
        judge(ctx, "simple_full_well", {"fwc": fwc}, before, first, i, mkcase)
        if invoke(ctx, "simple_full_well", i, mkcase, ctx.cc.simple_full_well, det, fwc=arg_fwc):
            judge(ctx, "simple_full_well", {"fwc": fwc, "repeat_of": first["pixel"]}, first, snapshot(det), i, mkcase)
    # ---- inter-pixel capacitance
    coupling = gen_ipc(rng)
    info["ipc"] = list(coupling)
    kw = dict(zip(("coupling", "diagonal_coupling", "anisotropic_coupling"), coupling))
    if ctx.ipc_kernel is not None:
        box = []
        if invoke(ctx, "ipc_kernel", i, mkcase, lambda: box.append(ctx.ipc_kernel(**kw))):
            verdict(ctx, "ipc_kernel", orc_kernel(box[0]), i, mkcase)
    if kind == "cmos":
        for mode in ("uniform", "interior"):
            if mode == "uniform":
                value = rng.choice([0.0, 1.0, 1234.5, ref, ref * 7.3, 1e15, rng.random() * ref])
                pix = np.full(shape, float(value))
            else:
                if min(shape) < 5:
                    continue
                pix = np.zeros(shape)
                pix[2:-2, 2:-2] = gen_frame(rng, (shape[0] - 4, shape[1] - 4), ref)[1]
            frames[f"ipc_{mode}"] = pix
            nontrivial |= bool(pix.any())
            det.pixel.array = pix.copy()
            if ctx.spy:
                ctx.spy.values.clear()
            info["calls"].append(["simple_ipc", kw, mode])
            if not invoke(ctx, "simple_ipc", i, mkcase, ctx.cc.simple_ipc, det, **kw):
                continue
            out = snapshot(det)["pixel"]
            res = orc_uniform(float(pix.flat[0]), out) if mode == "uniform" else orc_interior(pix, out)
            verdict(ctx, "simple_ipc", res, i, mkcase)
            for k in (ctx.spy.values if ctx.spy else []):
                rec.count("ipc_kernels_spied")
                if k is not None:
                    bad = orc_kernel(k)
                    if bad:
                        rec.violation(f"C15:simple_ipc:{bad[0]}", f"[weights used by simple_ipc] {bad[1]}", mkcase(), i)
    sig = ("simple", kind, shape, det_qe, det_fwc, [c[:2] for c in info["calls"]], list(coupling))
    rec.case(sig, nontrivial, sample={k: v for k, v in info.items()})


# --------------------------------------------------------------------------- shard: CDM
def case_cdm(ctx, rng, i, hi):
    rec = ctx.rec
    shape = rand_shape(rng, 1, hi)
    if rng.random() < 0.25:
        shape = (max(shape), max(1, min(shape) // 2))      # clearly more rows than columns ...
        if rng.random() < 0.5:
            shape = shape[::-1]                             # ... or the other way round
    params, fwc = gen_cdm(rng)
    style = params.pop("_style")
    if style == "strong":
        # many transfers before the packet (capture grows with the row index) and many empty rows after
        # it (the over-trapped charge must have time to come back)
        shape = (rng.randint(28, 36), rng.randint(1, 3))
    temperature = rng.choice([273.15, 300.0, 80.0, rng.uniform(30.0, 350.0)])
    fwc_from_arg = rng.random() < 0.5
    det, _ = mk_detector("ccd", shape, 0.9, fwc if not fwc_from_arg else 100000.0, temperature)
    det.set_readout(times=[1.0], non_destructive=False)
    det.empty()
    set_clock(det, 0)
    fk, frame = gen_frame(rng, shape, fwc)
    if style == "strong":
        # faint signal (tens of electrons) in the first rows, followed by empty rows
        fk = "faint"
        frame = np.zeros(shape)
        r0 = rng.randint(16, 21)
        if rng.random() < 0.5:
            frame[r0, rng.randrange(shape[1])] = rng.choice([40.0, 80.0, 160.0])   # single hot pixel
        else:
            frame[r0:r0 + rng.randint(1, 4), :] = rng.choice([20.0, 30.0, 80.0])    # faint strip
    det.pixel.array = frame.copy()
    kw = dict(params)
    if fwc_from_arg:
        kw["full_well_capacity"] = fwc
    order = rng.choice([["parallel"], ["serial"], ["parallel", "serial"], ["serial", "parallel"],
                        ["parallel", "parallel"], ["serial", "serial", "parallel"]])
    info = {"kind": "cdm", "shape": list(shape), "frame_kind": fk, "temperature": temperature, "fwc": fwc,
            "fwc_from": "argument" if fwc_from_arg else "characteristics", "directions": order, "arguments": kw}

    def mkcase():
        return {**info, "frame": jl(frame)}

    rec.observe("frame_kinds", fk)
    rec.observe("cdm_species", len(kw["trap_densities"]))
    for direction in order:
        before = snapshot(det)
        model = f"cdm_{direction}"
        if not invoke(ctx, model, i, mkcase, ctx.ct.cdm, det, direction=direction, **kw):
            break
        rec.observe("cdm_modes", f"{direction}:{'inj' if kw['charge_injection'] else 'noinj'}")
        if not judge(ctx, model, kw, before, snapshot(det), i, mkcase):
            break
    rec.case(("cdm", shape, fk, order, temperature, fwc, sorted(kw.items())), bool(frame.any()), sample=info)


# --------------------------------------------------------------------------- shard: CDM in a pool of threads
def case_pool(ctx, rng, i, hi):
    """The model processes several detectors at the same time (one thread per detector, as dask's threaded
    scheduler does with the parameter sets of an observation); every call is judged on its own detector."""
    import threading
    rec = ctx.rec
    n_threads = rng.choice([2, 2, 3, 4])
    rounds = rng.randint(2, 5)
    big = rng.random() < 0.6        # long calls overlap for certain; short ones only now and then
    lo = 24 if big else 2
    top = hi if big else 24
    same_layout = rng.random() < 0.75
    common_shape = (rng.randint(lo, top), rng.randint(lo, top))
    common_params = gen_cdm(rng)
    directions = [rng.choice(["parallel", "serial"]) for _ in range(rounds)]
    lanes = []
    for t in range(n_threads):
        shape = common_shape if same_layout or t == 0 else (rng.randint(lo, top), rng.randint(lo, top))
        params, fwc = common_params if same_layout or t == 0 else gen_cdm(rng)
        kw = {k: v for k, v in params.items() if k != "_style"}
        kw["full_well_capacity"] = fwc
        det, _ = mk_detector("ccd", shape, 0.9, 100000.0, rng.choice([273.15, 300.0, 80.0]))
        det.set_readout(times=[1.0], non_destructive=False)
        det.empty()
        set_clock(det, 0)
        fk, frame = gen_frame(rng, shape, fwc)
        rec.observe("frame_kinds", fk)
        order = directions if rng.random() < 0.8 else [rng.choice(["parallel", "serial"]) for _ in range(rounds)]
        lanes.append({"det": det, "shape": shape, "kw": kw, "frame_kind": fk, "frame": frame, "order": order,
                      "refill": rng.random() < 0.7, "results": []})
    info = {"kind": "pool", "threads": n_threads, "rounds": rounds, "same_layout": same_layout,
            "lanes": [{"shape": list(ln["shape"]), "frame_kind": ln["frame_kind"], "directions": ln["order"],
                       "refill": ln["refill"], "arguments": ln["kw"]} for ln in lanes]}

    def mkcase():
        return {**info, "frames": [jl(ln["frame"]) if ln["frame"].size <= 4096 else
                                   {"kind": ln["frame_kind"], "total": _fsum(ln["frame"])} for ln in lanes]}

    barrier = threading.Barrier(n_threads)

    def lane_main(ln):
        det = ln["det"]
        det.pixel.array = ln["frame"].copy()
        for rnd, direction in enumerate(ln["order"]):
            error = before = after = None
            try:
                if ln["refill"] and rnd:
                    det.pixel.array = ln["frame"].copy()     # a new exposure of the same scene
                before = snapshot(det)
            except Exception as exc:  # noqa: BLE001 - reported by the main thread
                error = exc
            try:
                barrier.wait(timeout=120)
            except threading.BrokenBarrierError:
                pass
            if error is None:
                try:
                    ctx.ct.cdm(det, direction=direction, **ln["kw"])
                    after = snapshot(det)
                except Exception as exc:  # noqa: BLE001 - classified by the main thread (invoke)
                    error = exc
            ln["results"].append((direction, before, after, error))

    threads = [threading.Thread(target=lane_main, args=(ln,), daemon=True) for ln in lanes]
    for th in threads:
        th.start()
    for th in threads:
        th.join(timeout=600)
    if any(th.is_alive() for th in threads):
        raise RuntimeError("harness: a pool thread did not finish within 600 s")
    # ---- the main thread judges what each thread observed on its own detector
    for t, ln in enumerate(lanes):
        for rnd, (direction, before, after, error) in enumerate(ln["results"]):
            model = f"cdm_{direction}"

            def outcome(error=error):
                if error is not None:
                    raise error

            if not invoke(ctx, model, i, mkcase, outcome):
                break
            rec.count("cdm_concurrent_calls")
            if same_layout:
                rec.count("cdm_concurrent_same_layout")
            rec.observe("cdm_modes", f"{direction}:{'inj' if ln['kw']['charge_injection'] else 'noinj'}:pool")
            if not judge(ctx, model, ln["kw"], before, after, i, mkcase,
                         where=f"thread {t} of {n_threads}, round {rnd}"):
                break
    rec.observe("pool_sizes", n_threads)
    rec.case(("pool", n_threads, rounds, same_layout, [(ln["shape"], ln["frame_kind"], ln["order"], sorted(ln["kw"].items()))
                                                       for ln in lanes]),
             any(bool(ln["frame"].any()) for ln in lanes), sample=info)


# --------------------------------------------------------------------------- shard: persistence
def persistence_call(ctx, rng, i, tag, shape, simple, traps, dens_map, cap_map):
    """-> (model name, callable(det)) for the real persistence model with these parameters."""
    rec = ctx.rec
    if simple:
        kw = {"trap_time_constants": traps["trap_time_constants"], "trap_densities": traps["trap_densities"],
              "trap_capacities": traps["trap_capacities"]}
        return "simple_persistence", kw, lambda det: ctx.cc.simple_persistence(det, **kw)
    dpath = os.path.join(rec.tmp, f"dens_{tag}_{i}.npy")
    np.save(dpath, dens_map)
    kw = {"trap_time_constants": traps["trap_time_constants"], "trap_proportions": traps["trap_proportions"],
          "trap_densities_filename": dpath}
    if cap_map is not None:
        cpath = os.path.join(rec.tmp, f"caps_{tag}_{i}.npy")
        np.save(cpath, cap_map)
        kw["trap_capacities_filename"] = cpath
    return "persistence", kw, lambda det: ctx.cc.persistence(det, **kw)


def case_persist(ctx, rng, i, hi):
    rec = ctx.rec
    shape = rand_shape(rng, 1, hi)
    simple = rng.random() < 0.5
    traps = gen_traps(rng, simple)
    dens_map = None if simple else gen_map(rng, shape, "density")
    cap_map = None if simple or rng.random() < 0.45 else gen_map(rng, shape, "capacity")
    model, kw, call = persistence_call(ctx, rng, i, "p", shape, simple, traps, dens_map, cap_map)
    fwc = rng.choice([100000.0, 1000.0, 1e7])
    det, _ = mk_detector("cmos", shape, 0.9, fwc)
    times = gen_times(rng, 2, 6)
    det.set_readout(times=times, non_destructive=True)
    det.empty()
    with_caps = (traps.get("trap_capacities") is not None) if simple else (cap_map is not None)
    rec.observe("persist_variants", f"{model}:{'caps' if with_caps else 'nocaps'}:k={traps['k']}")
    info = {"kind": "persist", "model": model, "shape": list(shape), "times": times, "with_capacities": with_caps,
            "arguments": {k: v for k, v in kw.items() if not k.endswith("filename")}, "illumination": []}
    frames = []

    def mkcase():
        return {**info, "density_map": jl(dens_map), "capacity_map": jl(cap_map), "frames": [jl(f) for f in frames]}

    nontrivial = False
    ok = True
    for step in range(len(times)):
        set_clock(det, step)
        # what reaches the pixels in this step: new light on top (non-destructive), nothing, or a reset
        action = rng.choice(["add", "add", "none", "reset_dark", "reset_new"] if step else ["add", "add", "add", "none"])
        if action in ("add", "reset_new"):
            fk, fr = gen_frame(rng, shape, fwc)
            frames.append(fr)
            det.pixel.array = (det.pixel.array + fr) if action == "add" else fr.copy()
            nontrivial |= bool(fr.any())
            rec.observe("frame_kinds", fk)
            info["illumination"].append([action, fk])
        elif action == "reset_dark":
            det.pixel.array = np.zeros(shape)
            info["illumination"].append([action, ""])
        else:
            info["illumination"].append([action, ""])
        before = snapshot(det)
        if not invoke(ctx, model, i, mkcase, call, det):
            ok = False
            break
        rec.count("persist_steps")
        if not judge(ctx, model, kw, before, snapshot(det), i, mkcase, where=f"direct step {step} dt={before['time_step']}"):
            ok = False
            break
    # ---- does the length of the step matter?  two fresh detectors, same light, same traps, different short steps
    if ok and rng.random() < 0.5:
        tmin = min(traps["trap_time_constants"])
        fk, fr = gen_frame(rng, shape, fwc, ["uniform", "saturated", "random", "ramp"])
        fr = fr + 1.0
        trapped = []
        m2, kw2, call2 = persistence_call(ctx, rng, i, "t", shape, simple,
                                          dict(traps, trap_capacities=None), dens_map, None)
        for dt in (0.01 * tmin, 0.1 * tmin):
            d2, _ = mk_detector("cmos", shape, 0.9, fwc)
            d2.set_readout(times=[dt], non_destructive=True)
            d2.empty()
            set_clock(d2, 0)
            d2.pixel.array = fr.copy()
            if not invoke(ctx, m2, i, mkcase, call2, d2):
                trapped = None
                break
            trapped.append(_fsum(d2.persistence.trapped_charge_array))
        if trapped and max(trapped) > 0:
            rec.count("timestep_pairs")
            if abs(trapped[1] - trapped[0]) <= 1e-12 * max(trapped):
                rec.violation(f"C15:{m2}:time-step-has-no-effect",
                              f"steps of {0.01 * tmin!r} s and {0.1 * tmin!r} s from empty traps trapped the same "
                              f"charge {trapped!r}: detector.time_step is ignored", mkcase(), i)
    rec.case(("persist", model, shape, times, sorted((k, str(v)) for k, v in info["arguments"].items()),
              info["illumination"]), nontrivial, sample=info)


# --------------------------------------------------------------------------- shard: real exposures
_PLAN: dict = {}
_SNAPS: list = []


def probe_light(detector, **kwargs) -> None:
    """Probe model (photon_collection): puts the planned photon frame of this step on the detector."""
    frames = _PLAN["photons"]
    detector.photon.array = frames[int(detector.pipeline_count) % len(frames)].copy()


def probe_snap(detector, after=None, **kwargs) -> None:
    """Probe model: snapshot of the buckets; `after` names the real model that ran just before."""
    _SNAPS.append((after, snapshot(detector)))


def probe_image(detector, **kwargs) -> None:
    """Probe model (readout_electronics): multi-readout runs need an image at every step."""
    detector.image.array = np.zeros(detector.geometry.shape, dtype=np.uint16)


SNAP = "vf.checks.c15.probe_snap"


def case_exposure(ctx, rng, i, hi):
    import pyxel
    from pyxel.exposure import Exposure, Readout
    rec = ctx.rec
    kind = rng.choice(["cmos", "cmos", "ccd"])
    shape = rand_shape(rng, 2, hi)
    det_qe = gen_qe(rng)
    det_fwc = rng.choice([100000.0, 1000.0, 1e7, round(10 ** rng.uniform(1, 7), 2)])
    det, _ = mk_detector(kind, shape, det_qe, det_fwc, rng.choice([300.0, 273.15, 120.0]))
    times = gen_times(rng, 1, 5)
    non_destructive = rng.random() < 0.75
    ref = rng.choice([det_fwc, det_fwc * 2.5, 500.0])
    photons = []
    kinds = []
    for _ in times:
        fk, fr = gen_frame(rng, shape, ref)
        photons.append(fr)
        kinds.append(fk)
        rec.observe("frame_kinds", fk)
    _PLAN["photons"] = photons
    _SNAPS.clear()
    models = {}       # key -> (oracle model name, params)
    pspec = {"photon_collection": [{"name": "light", "func": "vf.checks.c15.probe_light", "arguments": {}, "enabled": True}]}

    def chain(group, entries):
        lst = pspec.setdefault(group, [])
        lst.append({"name": f"{group}_s0", "func": SNAP, "arguments": {"after": None}, "enabled": True})
        for n, (key, func, args, oname, params) in enumerate(entries):
            models[key] = (oname, params)
            lst.append({"name": key, "func": func, "arguments": args, "enabled": True})
            lst.append({"name": f"{group}_s{n + 1}", "func": SNAP, "arguments": {"after": key}, "enabled": True})

    sampling = rng.random() < 0.5
    arg_qe = None if rng.random() < 0.4 else gen_qe(rng)
    conv_args = {"quantum_efficiency": arg_qe, "binomial_sampling": sampling}
    chain("charge_generation", [("conv", "pyxel.models.charge_generation.simple_conversion", conv_args,
                                 "simple_conversion", {"qe": det_qe if arg_qe is None else arg_qe, "sampling": sampling})])
    coll = [("collect", "pyxel.models.charge_collection.simple_collection", {}, "simple_collection", {})]
    arg_fwc = rng.choice([None, None, det_fwc / 2, float(rng.randint(1, 2000))])
    fw = ("fw{}", "pyxel.models.charge_collection.simple_full_well", {"fwc": arg_fwc}, "simple_full_well",
          {"fwc": det_fwc if arg_fwc is None else arg_fwc})
    extra = {}
    if kind == "cmos":
        simple = rng.random() < 0.5
        traps = gen_traps(rng, simple)
        dens_map = None if simple else gen_map(rng, shape, "density")
        cap_map = None if simple or rng.random() < 0.5 else gen_map(rng, shape, "capacity")
        pname, pkw, _ = persistence_call(ctx, rng, i, "e", shape, simple, traps, dens_map, cap_map)
        coll.append(("persist", f"pyxel.models.charge_collection.{pname}", pkw, pname, pkw))
        rec.observe("persist_variants", f"{pname}:exposure:k={traps['k']}")
        extra = {"density_map": jl(dens_map), "capacity_map": jl(cap_map)}
        if rng.random() < 0.5:
            ipc = dict(zip(("coupling", "diagonal_coupling", "anisotropic_coupling"), gen_ipc(rng)))
            coll.append(("ipc", "pyxel.models.charge_collection.simple_ipc", ipc, "simple_ipc", ipc))
    if rng.random() < 0.8:
        for n in range(rng.choice([1, 2])):
            coll.append((fw[0].format(n),) + fw[1:])
    chain("charge_collection", coll)
    if kind == "ccd":
        params, cfwc = gen_cdm(rng)
        params["full_well_capacity"] = cfwc
        order = rng.choice([["parallel"], ["serial"], ["parallel", "serial"]])
        chain("charge_transfer", [(f"cdm_{d}", "pyxel.models.charge_transfer.cdm", dict(params, direction=d),
                                   f"cdm_{d}", params) for d in order])
    pspec["readout_electronics"] = [{"name": "image", "func": "vf.checks.c15.probe_image", "arguments": {}, "enabled": True}]
    info = {"kind": "exposure", "detector": kind, "shape": list(shape), "det_qe": det_qe, "det_fwc": det_fwc,
            "times": times, "non_destructive": non_destructive, "frame_kinds": kinds,
            "pipeline": {g: [[m["name"], m["func"], {k: v for k, v in m["arguments"].items() if not str(k).endswith("filename")}]
                             for m in ms if m["func"] != SNAP] for g, ms in pspec.items()}}

    def mkcase():
        return {**info, **extra, "photons": [jl(p) for p in photons]}

    if ctx.spy:
        ctx.spy.values.clear()
    ran = invoke(ctx, "exposure", i, mkcase, lambda: pyxel.run_mode(
        mode=Exposure(readout=Readout(times=times, non_destructive=non_destructive)), detector=det,
        pipeline=build.make_pipeline(pspec)))
    if ran:
        rec.count("exposure_runs")
        rec.count("exposure_steps", len(times))
        per_step = sum(1 for ms in pspec.values() for m in ms if m["func"] == SNAP)
        if len(_SNAPS) != per_step * len(times):
            raise RuntimeError(f"harness: {len(_SNAPS)} snapshots, expected {per_step * len(times)}")
        last_fw = None
        for n in range(1, len(_SNAPS)):
            key, after = _SNAPS[n]
            if key is None:
                last_fw = None
                continue
            before = _SNAPS[n - 1][1]
            oname, params = models[key]
            where = f"exposure step {after['count']} dt={after['time_step']} model {key}"
            if oname == "simple_ipc":
                last_fw = None
                continue
            if oname == "simple_full_well":
                params = dict(params, repeat_of=last_fw)
                last_fw = after["pixel"]
            else:
                last_fw = None
            if not judge(ctx, oname, params, before, after, i, mkcase, where=where):
                break
        for k in (ctx.spy.values if ctx.spy else []):
            rec.count("ipc_kernels_spied")
            bad = orc_kernel(k) if k is not None else None
            if bad:
                rec.violation(f"C15:simple_ipc:{bad[0]}", f"[weights used by simple_ipc in an exposure] {bad[1]}", mkcase(), i)
    rec.observe("exposure_modes", f"{kind}:{'nd' if non_destructive else 'destructive'}:{len(times)}steps")
    rec.case(("exposure", kind, shape, times, non_destructive, kinds, str(info["pipeline"])),
             any(bool(p.any()) for p in photons), sample=info)


# --------------------------------------------------------------------------- entry point
def run_shard(spec, rec):
    ctx = Ctx(spec, rec)
    kind = spec["kind"]
    hi = int(spec.get("hi", 8))
    for i in range(spec["n"]):
        if not rec.wanted(i):
            continue
        rng = rec.rng(i)
        if kind == "simple":
            case_simple(ctx, rng, i, float(spec.get("clusters", 0.0)))
        elif kind == "cdm":
            case_cdm(ctx, rng, i, hi if i % 3 == 0 else min(hi, 8))
        elif kind == "persist":
            case_persist(ctx, rng, i, hi)
        elif kind == "exposure":
            case_exposure(ctx, rng, i, hi)
        elif kind == "pool":
            case_pool(ctx, rng, i, hi)
        else:
            raise RuntimeError(f"unknown shard kind {kind}")


def finalize(counters, sets, tier):
    out = []
    for m in MODELS:
        inv, ref = counters.get(f"invoked:{m}", 0), counters.get(f"refused:{m}", 0)
        if inv and ref > 0.5 * inv:
            out.append(f"{m}: {ref} of {inv} in-range inputs were refused")
    species = {int(s) for s in sets.get("trap_species", [])}
    if not {1, 2, 3, 4, 5} <= species:
        out.append(f"persistence trap species seen: {sorted(species)} (need 1..5)")
    modes = set(sets.get("numba_modes", []))
    if not {"jit", "boundscheck", "nojit"} <= modes:
        out.append(f"numba modes seen: {sorted(modes)}")
    return out


def coverage_extra(counters, sets, tier):
    return {"model_invocations": sum(v for k, v in counters.items() if k.startswith("invoked:")),
            "judged_per_model": {m: counters.get(f"judged:{m}", 0) for m in MODELS},
            "refused_per_model": {m: counters.get(f"refused:{m}", 0) for m in MODELS},
            "exhaustive": False}

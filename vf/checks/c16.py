"""C16 -- digitised images are bounded, monotone, saturating and never wrap.

Monitor: the real converter model functions (simple_adc, sar_adc, sar_adc_with_noise) are run
on generated signal frames of real detectors; ``detector.image.array`` is read back and
every code is compared, as a Python integer, with what the statement allows.  A
sys.monitoring call monitor (M2) on the code objects of the three model functions is the
independent witness that the real functions executed as often as the harness believes.

Oracle (no pyxel imports): bounds 0 .. 2**bits-1; codes non-decreasing along strictly
increasing voltages; for the simple converter v <= range minimum -> 0 and v >= range maximum
-> 2**bits-1; unsigned dtype of at least ``bits`` bits; noisy SAR with all-zero
strengths/noises == plain SAR.  In the exhaustively enumerated sub-space (every code
transition of the low resolutions) the code is additionally held to +-1 of the ideal
transfer function evaluated in exact rational arithmetic on the very float that was fed.
"""
from __future__ import annotations

import math
from fractions import Fraction

from vf import build
from vf.mon_calls import CallMonitor

ID = "C16"
LEVEL = "exploration"
TECHNIQUE = ("runtime monitoring: real ADC model functions on generated signal frames of real detectors, "
             "image read back and compared as Python integers with an independent transfer-function oracle; "
             "sys.monitoring call monitor on the model functions")
RULE = ("one case = (resolution, voltage range, detector kind/shape, frame of up to 4096 sorted distinct float64 "
        "voltages: +-inf, far outside, range ends +-1 ulp, powers-of-two fractions of the span, random code "
        "transitions +-1 ulp, uniform/log-uniform inside) run through simple_adc, sar_adc and sar_adc_with_noise "
        "(zero noise); resolutions cycle so that every shard sees all 61; a case is non-trivial when its image "
        "holds >= 3 distinct codes and the frame holds voltages below, inside and above the range; "
        "distinct = distinct (resolution, range, detector, frame seed) signatures.  Enumerated part: every code "
        "transition k=1..2**bits-1 probed at the threshold and +-1 ulp for bits <= 10 (quick) / <= 12 (thorough) "
        "on a list of voltage ranges")
ASSUMPTIONS = [
    "deciding frames are float64 (what pyxel's own models put into the signal bucket); float32 frames are run "
    "observe-only and reported in the counters float32_*",
    "voltage ranges have minimum < maximum and a finite span (maximum - minimum does not overflow)",
    "NaN voltages are outside the statement and are never fed",
    "an explicit data_type argument narrower than the resolution (or signed) is a user override outside the "
    "statement: refusals and outcomes are counted, not judged",
    "noisy SAR with non-zero noise is held to bounds and dtype only (monotonicity is not expected of a noisy converter)",
]
REQUIRED_COUNTERS = [
    "simple_adc_calls", "sar_adc_calls", "sar_adc_with_noise_calls", "cases_setters_image_of_earlier_setting_kept",
    "m2_simple_adc_calls", "m2_sar_adc_calls", "m2_sar_adc_with_noise_calls",
    "codes_bounds_checked", "pairs_monotone_checked", "saturation_low_checked", "saturation_high_checked",
    "dtype_checked", "sar_zero_noise_images_compared", "inf_inputs_checked", "fullscale_above_53_bits_checked",
    "transitions_enumerated_simple", "transitions_enumerated_sar", "ideal_pm1_checked",
    "cases_constructor", "cases_setters", "cases_via_model_function",
]
TIMEOUT = {"quick": 900, "thorough": 3600}

FLOAT32_DECIDES = True   # float32 signal frames are deciding since fix e01f537 in /repo
FLOAT32_CLASSES = ("nice", "unlucky_decimal", "random", "negative", "integer")   # ranges float32 can resolve

SHARDS = 16
RANDOM_CASES = {"quick": 61 * 200, "thorough": 61 * 5000}
ENUM_MAX_BITS = {"quick": 10, "thorough": 12}
ENUM_FIXED = {"quick": 3, "thorough": 10}
ENUM_RANDOM = {"quick": 1, "thorough": 2}

MODEL_PATH = "pyxel.models.readout_electronics."
SHAPES = [(64, 64), (64, 64), (32, 128), (128, 32), (50, 80), (1, 4096), (4096, 1), (16, 16), (7, 11)]
KINDS = ["ccd", "cmos", "mkid", "apd"]
UNSIGNED = ["uint8", "uint16", "uint32", "uint64"]

# ranges of the enumerated sub-space (maximum > 0 so that the SAR reference range 0..max is not degenerate)
FIXED_RANGES = [
    (3.0, 8.4), (-2.7, 0.3), (0.0, 5.0), (0.0, 3.3), (1.1, 3.3), (0.1, 0.7), (0.0, 1.0e-9),
    (-1.0e6, 1.0e6), (0.0, 65535.0), (1.0, 1.0 + 2.0 ** -40), (0.0, 1.0e300), (-10.0, 10.0),
]
NICE_RANGES = [
    (0.0, 5.0), (0.0, 10.0), (0.0, 3.3), (-5.0, 5.0), (0.0, 1.0), (0.0, 2.5), (-1.0, 1.0), (0.0, 65535.0),
    (3.0, 8.4), (0.1, 0.7), (1.1, 3.3), (-2.7, 0.3), (0.0, 15.0), (0.0, 6.0), (1.0, 7.0), (-1.0, 5.0),
    (0.0, 0.3), (0.2, 0.9), (-8.4, -3.0), (0.0, 4.096), (0.0, 1.8), (-0.3, 3.6),
]


# =============================================================================== oracle (no pyxel)
def max_code_of(bits: int) -> int:
    return 2 ** bits - 1


def ideal_code(v: float, vmin: float, vmax: float, bits: int) -> int:
    """Ideal truncating transfer function in exact rational arithmetic."""
    full = max_code_of(bits)
    if v <= vmin:
        return 0
    if v >= vmax:
        return full
    x = (Fraction(v) - Fraction(vmin)) * full / (Fraction(vmax) - Fraction(vmin))
    return min(full, max(0, math.floor(x)))


def hexf(x) -> str:
    x = float(x)
    return f"{x!r} ({x.hex()})"


def as_py_ints(arr):
    """detector.image.array -> list of Python numbers (ints for integer dtypes)."""
    return arr.ravel().tolist()


class Judge:
    """Evaluates one image against the statement.  ``report(mech, detail)`` is called per finding."""

    def __init__(self, rec, prefix=""):
        self.rec = rec
        self.prefix = prefix      # counter prefix ('' for deciding, 'float32_' for observe-only)
        self.findings: list[tuple[str, str]] = []

    def cnt(self, name, n=1):
        self.rec.count(self.prefix + name, n)

    def report(self, mech, detail):
        self.findings.append((mech, detail))

    # volts: list of floats as fed, position-aligned with codes; n_sorted: the first n_sorted voltages are
    # strictly increasing (the rest is padding, held to bounds/saturation only)
    def image(self, model, arr, shape, bits, vmin, vmax, volts, n_sorted, saturating, monotone=True,
              ideal_pm1=False):
        full = max_code_of(bits)
        # ---- container: dtype and shape
        dt = arr.dtype
        self.cnt("dtype_checked")
        self.rec.observe(self.prefix + "image_dtypes", str(dt))
        if dt.kind != "u" or dt.itemsize * 8 < bits:
            self.report(f"C16:{model}:image-dtype-not-unsigned-or-narrower-than-resolution",
                        f"bits={bits} image dtype={dt}")
        if tuple(arr.shape) != tuple(shape):
            self.report(f"C16:{model}:image-shape", f"image shape {arr.shape} detector shape {shape}")
            return None
        codes = as_py_ints(arr)
        if len(codes) != len(volts):
            self.report(f"C16:{model}:image-shape", f"{len(codes)} codes for {len(volts)} voltages")
            return None
        # ---- bounds, as Python numbers
        self.cnt("codes_bounds_checked", len(codes))
        bad = None
        for j, c in enumerate(codes):
            if not (0 <= c <= full) or c != int(c):
                bad = j
                break
        if bad is not None:
            self.report(f"C16:{model}:code-out-of-bounds",
                        f"bits={bits} range=({hexf(vmin)}, {hexf(vmax)}) voltage {hexf(volts[bad])} -> code "
                        f"{codes[bad]!r}, allowed 0..{full}")
        # ---- monotone along the strictly increasing voltages
        if monotone and n_sorted > 1:
            self.cnt("pairs_monotone_checked", n_sorted - 1)
            prev = codes[0]
            for j in range(1, n_sorted):
                c = codes[j]
                if c < prev:
                    self.report(f"C16:{model}:non-monotone",
                                f"bits={bits} range=({hexf(vmin)}, {hexf(vmax)}) v1={hexf(volts[j - 1])} -> {prev} "
                                f"but v2={hexf(volts[j])} -> {c}")
                    break
                prev = c
        # ---- saturation at both ends (simple converter only)
        if saturating:
            lo_bad = hi_bad = None
            n_lo = n_hi = n_inf = 0
            for j, v in enumerate(volts):
                if v <= vmin:
                    n_lo += 1
                    if codes[j] != 0 and lo_bad is None:
                        lo_bad = j
                elif v >= vmax:
                    n_hi += 1
                    if codes[j] != full and hi_bad is None:
                        hi_bad = j
                if v in (math.inf, -math.inf):
                    n_inf += 1
            self.cnt("saturation_low_checked", n_lo)
            self.cnt("saturation_high_checked", n_hi)
            self.cnt("inf_inputs_checked", n_inf)
            if bits > 53:
                self.cnt("fullscale_above_53_bits_checked", n_hi)
            if lo_bad is not None:
                self.report(f"C16:{model}:range-minimum-not-zero",
                            f"bits={bits} range=({hexf(vmin)}, {hexf(vmax)}) voltage {hexf(volts[lo_bad])} <= minimum "
                            f"-> code {codes[lo_bad]!r}, expected 0")
            if hi_bad is not None:
                self.report(f"C16:{model}:range-maximum-below-full-scale",
                            f"bits={bits} range=({hexf(vmin)}, {hexf(vmax)}) voltage {hexf(volts[hi_bad])} >= maximum "
                            f"-> code {codes[hi_bad]!r}, expected full scale {full}")
        else:
            self.cnt("inf_inputs_checked", sum(1 for v in volts if v in (math.inf, -math.inf)))
        # ---- enumerated sub-space: +-1 of the exact ideal transfer function
        if ideal_pm1:
            self.cnt("ideal_pm1_checked", n_sorted)
            for j in range(n_sorted):
                want = ideal_code(volts[j], vmin, vmax, bits)
                if abs(codes[j] - want) > 1:
                    self.report(f"C16:{model}:transition-code-off-by-more-than-one",
                                f"bits={bits} range=({hexf(vmin)}, {hexf(vmax)}) voltage {hexf(volts[j])} -> code "
                                f"{codes[j]!r}, ideal {want}")
                    break
        return codes


# =============================================================================== generators
def gen_range(rng):
    """-> (vmin, vmax, class).  vmin < vmax, span finite."""
    cls = rng.choice(["nice", "nice", "unlucky_decimal", "unlucky_decimal", "unlucky_decimal", "random", "random",
                      "negative", "tiny_span_ulps", "tiny_span_rel", "tiny_abs", "subnormal", "huge", "huge_offset",
                      "integer"])
    if cls == "nice":
        vmin, vmax = rng.choice(NICE_RANGES)
    elif cls == "unlucky_decimal":
        digits = rng.choice([1, 1, 2, 3])
        vmin = round(rng.uniform(-10, 10), digits) if rng.random() < 0.7 else 0.0
        vmax = round(vmin + round(rng.uniform(0.1, 12), digits), digits)
    elif cls == "random":
        vmin = rng.uniform(-100, 100)
        vmax = vmin + 10 ** rng.uniform(-6, 6)
    elif cls == "negative":
        vmax = -(10 ** rng.uniform(-3, 3))
        vmin = vmax - 10 ** rng.uniform(-3, 3)
    elif cls == "tiny_span_ulps":
        vmin = rng.choice([-1, 1]) * 10 ** rng.uniform(-3, 3)
        vmax = vmin
        for _ in range(rng.choice([1, 1, 2, 3, 5, 17])):
            vmax = math.nextafter(vmax, math.inf)
    elif cls == "tiny_span_rel":
        vmin = rng.choice([-1, 1]) * 10 ** rng.uniform(-3, 3)
        vmax = vmin + abs(vmin) * 10 ** rng.uniform(-14, -7)
    elif cls == "tiny_abs":
        vmin = 0.0 if rng.random() < 0.5 else -(10 ** rng.uniform(-300, -20))
        vmax = 10 ** rng.uniform(-300, -20)
    elif cls == "subnormal":
        vmin = 0.0 if rng.random() < 0.5 else -5e-324 * rng.randint(1, 10 ** 6)
        vmax = 5e-324 * rng.randint(1, 10 ** 9)
    elif cls == "huge":
        vmax = 10 ** rng.uniform(20, 300)
        vmin = rng.choice([0.0, -vmax, -vmax / 3, 1.0, vmax / 2])
        if vmax - vmin == math.inf:
            vmin = 0.0
    elif cls == "huge_offset":
        vmin = rng.choice([-1, 1]) * 10 ** rng.uniform(6, 15)
        vmax = vmin + 10 ** rng.uniform(0, 3)
    else:
        vmin = float(rng.randint(-20, 20))
        vmax = vmin + float(rng.randint(1, 70000))
    vmin, vmax = float(vmin), float(vmax)
    if not (vmin < vmax) or math.isinf(vmax - vmin):
        vmin, vmax, cls = 3.0, 8.4, "nice"
    return vmin, vmax, cls


def interesting_ks(rng, bits, n):
    full = max_code_of(bits)
    ks = {1, 2, 3, full, full - 1, full - 2, 2 ** (bits - 1), 2 ** (bits - 1) - 1, 2 ** (bits - 1) + 1}
    for e in (7, 8, 15, 16, 24, 31, 32, 33, 52, 53, 54, 62, 63):
        if e < bits:
            ks.update((2 ** e - 1, 2 ** e, 2 ** e + 1, full - 2 ** e))
    while len(ks) < n and len(ks) < full:
        ks.add(rng.randint(1, full))
    return sorted(k for k in ks if 1 <= k <= full)


def finish_frame(np, nrng, values, size, lo, hi, pad):
    """Sorted distinct finite-or-infinite values (no NaN), topped up with uniform values to ``size``."""
    v = np.asarray(values, dtype=np.float64)
    v = v[~np.isnan(v)]
    v = np.unique(v)                       # sorted; -0.0 and 0.0 collapse
    for _ in range(3):
        if len(v) >= size:
            break
        extra = lo + (hi - lo) * nrng.random_sample(size - len(v))
        extra = extra[~np.isnan(extra) & np.isfinite(extra)]
        v = np.unique(np.concatenate([v, extra]))
    if len(v) > size:                       # keep both ends, thin out the middle
        keep = np.sort(nrng.choice(len(v) - 2, size - 2, replace=False)) + 1
        v = np.concatenate([v[:1], v[keep], v[-1:]])
    n_sorted = len(v)
    if n_sorted < size:
        v = np.concatenate([v, np.full(size - n_sorted, pad)])
    return v, n_sorted


def simple_frame(np, rng, nrng, bits, vmin, vmax, size):
    inf = math.inf
    span = vmax - vmin
    full = max_code_of(bits)
    with np.errstate(all="ignore"):
        vals = [-inf, inf, vmin, vmax, 0.0, -1e300, 1e300, -1.7976931348623157e308, 1.7976931348623157e308,
                np.nextafter(vmin, -inf), np.nextafter(vmin, inf), np.nextafter(vmax, -inf), np.nextafter(vmax, inf),
                vmin - span, vmax + span, vmin - 1e6 * span - 1e6, vmax + 1e6 * span + 1e6,
                vmin - abs(vmin) - 1.0, vmax + abs(vmax) + 1.0]
        j = np.arange(1, 76, dtype=np.float64)
        parts = [np.array(vals, dtype=np.float64), vmax - span * 2.0 ** -j, vmin + span * 2.0 ** -j]
        n_k = min(120, size // 8)
        ks = interesting_ks(rng, bits, n_k)
        t = np.array([vmin + (k / full) * span for k in ks] + [vmin + k * span / full for k in ks[: n_k // 2]],
                     dtype=np.float64)
        parts += [t, np.nextafter(t, -inf), np.nextafter(t, inf)]
        m = size // 6
        parts.append(vmin + span * 10.0 ** -(20 * nrng.random_sample(m)))          # towards the minimum
        parts.append(vmax - span * 10.0 ** -(20 * nrng.random_sample(m)))          # towards the maximum
        parts.append(vmax + (abs(span) + abs(vmax) * 1e-12) * 10.0 ** (nrng.uniform(-3, 8, m // 2)))
        parts.append(vmin - (abs(span) + abs(vmin) * 1e-12) * 10.0 ** (nrng.uniform(-3, 8, m // 2)))
        allv = np.concatenate(parts)
        allv = allv[~np.isnan(allv)]
        return finish_frame(np, nrng, allv, size, vmin, vmax, vmax)


def sar_frame(np, rng, nrng, bits, vmin, vmax, size):
    """The SAR converters compare with max/2, max/4, ...: their reference range is 0 .. max."""
    inf = math.inf
    lo = min(vmin, 0.0)
    with np.errstate(all="ignore"):
        q = vmax / 2.0 ** bits
        vals = [-inf, inf, vmin, vmax, 0.0, lo, -1e300, 1e300, -1.7976931348623157e308, 1.7976931348623157e308,
                np.nextafter(vmax, -inf), np.nextafter(vmax, inf), np.nextafter(0.0, -inf), np.nextafter(0.0, inf),
                2 * vmax, 3 * vmax, -vmax, vmax + abs(vmax) + 1.0, lo - abs(lo) - 1.0]
        j = np.arange(0, bits + 3, dtype=np.float64)
        pw = vmax * 2.0 ** -j                                   # exact thresholds of every comparison
        parts = [np.array(vals, dtype=np.float64), pw, np.nextafter(pw, -inf), np.nextafter(pw, inf),
                 vmax - pw, np.nextafter(vmax - pw, -inf), np.nextafter(vmax - pw, inf), pw * 3.0, pw * 5.0]
        n_k = min(120, size // 8)
        ks = interesting_ks(rng, bits, n_k)
        t = np.array([k * q for k in ks], dtype=np.float64)
        parts += [t, np.nextafter(t, -inf), np.nextafter(t, inf)]
        m = size // 6
        parts.append(vmax * 10.0 ** -(20 * nrng.random_sample(m)))
        parts.append(vmax - vmax * 10.0 ** -(20 * nrng.random_sample(m)))
        parts.append(vmax + (abs(vmax) + 1e-300) * 10.0 ** (nrng.uniform(-3, 8, m // 2)))
        parts.append(lo - (abs(vmax) + abs(lo)) * 10.0 ** (nrng.uniform(-3, 8, m // 2)))
        allv = np.concatenate(parts)
        allv = allv[~np.isnan(allv)]
        return finish_frame(np, nrng, allv, size, lo, vmax, vmax)


# =============================================================================== execution
class Ctx:
    def __init__(self, rec):
        import numpy as np
        import pyxel.models.readout_electronics as ro
        from pyxel.pipelines import ModelFunction
        self.np = np
        self.rec = rec
        self.funcs = {"simple_adc": ro.simple_adc, "sar_adc": ro.sar_adc,
                      "sar_adc_with_noise": ro.sar_adc_with_noise}
        self.ModelFunction = ModelFunction
        self.mon = CallMonitor()
        for name, f in self.funcs.items():
            self.mon.watch(name, f)
        self.mon.start()
        self.own_calls = {name: 0 for name in self.funcs}
        self.pool: dict = {}

    def detector(self, rng, kind, shape, bits, vmin, vmax):
        """Real detector with the converter settings given to the constructor or through the setters."""
        if rng.random() < 0.5 or (kind, shape) not in self.pool:
            spec = build.default_detector_spec(kind, shape[0], shape[1])
            spec["characteristics"]["adc_bit_resolution"] = bits
            spec["characteristics"]["adc_voltage_range"] = [vmin, vmax]
            det = build.make_detector(spec)
            self.pool[(kind, shape)] = det
            self.rec.count("cases_constructor")
            return det, "constructor"
        det = self.pool[(kind, shape)]
        if rng.random() < 0.5:
            det.empty()
        else:
            # a detector that was digitised before with another setting (narrower or wider code type)
            # and not reset: what it still holds must not influence the new image
            self.rec.count("cases_setters_image_of_earlier_setting_kept")
        det.characteristics.adc_bit_resolution = bits
        det.characteristics.adc_voltage_range = (vmin, vmax)
        self.rec.count("cases_setters")
        return det, "setters"

    def call(self, model, det, frame2d, via_mf=False, **arguments):
        """Run the real model on the frame; returns the image array (a copy) or raises."""
        det.signal.array = frame2d
        self.own_calls[model] += 1
        self.rec.count(f"{model}_calls")
        if via_mf:
            self.rec.count("cases_via_model_function")
            self.ModelFunction(func=MODEL_PATH + model, name=model, arguments=dict(arguments))(det)
        else:
            self.funcs[model](det, **arguments)
        return self.np.array(det.image.array)

    def close(self):
        self.mon.stop()
        for name, n in self.mon.counts.items():
            self.rec.count(f"m2_{name}_calls", n)
        for name, n in self.own_calls.items():
            if self.mon.counts.get(name, 0) != n:
                self.rec.count("m2_disagreements")


def place(np, nrng, volts, shape, shuffle):
    """volts (1-D, len = rows*cols) -> 2-D frame; returns (frame, perm) with frame.flat[perm[j]] = volts[j]."""
    n = len(volts)
    perm = nrng.permutation(n) if shuffle else np.arange(n)
    flat = np.empty(n, dtype=np.float64)
    flat[perm] = volts
    return flat.reshape(shape), perm


def flush(rec, judge, case, index):
    for mech, detail in judge.findings:
        rec.violation(mech, detail, case, index)
    judge.findings.clear()


def unexpected(rec, model, exc, case, index):
    import traceback
    rec.violation(f"C16:{model}:unexpected-exception",
                  f"{type(exc).__name__}: {exc} :: {traceback.format_exc()[-700:]}", case, index)


def run_models(rec, ctx, index, rng, nrng, bits, vmin, vmax, cls, kind, shape, vs, ns_s, vr, ns_r,
               label, ideal_pm1=False, extras=True):
    """One detector, the three converters.  vs/vr: simple/SAR voltages (1-D, padded to rows*cols)."""
    np = ctx.np
    case = {"label": label, "bits": bits, "range": [vmin.hex(), vmax.hex()], "range_repr": [repr(vmin), repr(vmax)],
            "range_class": cls, "detector": kind, "shape": list(shape)}
    judge = Judge(rec)
    via_mf = rng.random() < 0.125
    shuffle = rng.random() < 0.5
    distinct = 0
    try:
        det, how = ctx.detector(rng, kind, shape, bits, vmin, vmax)
    except Exception as exc:  # noqa: BLE001
        unexpected(rec, "detector", exc, case, index)
        return
    case["settings_via"] = how
    # ------------------------------------------------------------------ simple converter
    if vs is not None:
        frame, perm = place(np, nrng, vs, shape, shuffle)
        volts = vs.tolist()
        args = {}
        need = next(w for w in (8, 16, 32, 64) if w >= bits)
        r = rng.random()
        if extras and r < 0.15:
            args["data_type"] = rng.choice([u for u in UNSIGNED if int(u[4:]) >= need])
        try:
            arr = ctx.call("simple_adc", det, frame, via_mf, **args)
            img = arr.ravel()[perm].reshape(arr.shape) if arr.size == len(perm) else arr
            codes = judge.image("simple_adc", img, shape, bits, vmin, vmax, volts, ns_s, saturating=True,
                                ideal_pm1=ideal_pm1)
            if "data_type" in args:
                rec.count("data_type_wide_enough_cases")
                if str(arr.dtype) != args["data_type"]:
                    rec.count("data_type_not_honoured")   # not part of the statement: counted only
            if codes is not None:
                distinct = len(set(codes))
            rec.observe("bits_simple", bits)
            rec.observe("dtype_by_band", f"{need}:{arr.dtype}")
        except Exception as exc:  # noqa: BLE001
            unexpected(rec, "simple_adc", exc, case, index)
        flush(rec, judge, dict(case, model="simple_adc", arguments=args), index)
        # user overrides outside the statement: narrower / signed data_type -> counted, never judged
        if extras and r > 0.97:
            dt = rng.choice([u for u in UNSIGNED if int(u[4:]) < need] + ["int16", "int32", "int64"])
            try:
                arr = ctx.call("simple_adc", det, frame, False, data_type=dt)
                rec.count("data_type_override_accepted")
                if any(not (0 <= c <= max_code_of(bits)) for c in as_py_ints(arr)):
                    rec.count("data_type_override_out_of_bounds_codes_seen")
            except Exception:  # noqa: BLE001
                rec.count("refused_data_type_override")
        # float32 frames (observe-only unless FLOAT32_DECIDES)
        if extras and 0.15 <= r < 0.25 and cls in FLOAT32_CLASSES:
            with np.errstate(all="ignore"):
                v32 = np.unique(vs[:ns_s].astype(np.float32))
            n32 = len(v32)
            v32 = np.concatenate([v32, np.full(len(vs) - n32, v32[-1], dtype=np.float32)])
            f32, perm32 = place(np, nrng, v32.astype(np.float64), shape, False)
            soft = Judge(rec, prefix="float32_")
            try:
                arr = ctx.call("simple_adc", det, f32.astype(np.float32), False)
                soft.image("simple_adc[float32-signal]", arr, shape, bits, vmin, vmax,
                           [float(x) for x in v32], n32, saturating=True)
            except Exception as exc:  # noqa: BLE001
                soft.report("C16:simple_adc[float32-signal]:unexpected-exception", repr(exc))
            rec.count("float32_frames")
            if soft.findings:
                rec.count("float32_frames_with_findings")
                for mech, _d in soft.findings:
                    rec.observe("float32_findings", mech)
                if FLOAT32_DECIDES:
                    flush(rec, soft, dict(case, model="simple_adc", signal_dtype="float32"), index)
    # ------------------------------------------------------------------ SAR converters
    if vr is not None:
        frame, perm = place(np, nrng, vr, shape, shuffle)
        volts = vr.tolist()
        plain = noisy = None
        try:
            arr = ctx.call("sar_adc", det, frame, via_mf)
            img = arr.ravel()[perm].reshape(arr.shape) if arr.size == len(perm) else arr
            plain = judge.image("sar_adc", img, shape, bits, vmin, vmax, volts, ns_r, saturating=False)
            rec.observe("bits_sar", bits)
            if plain is not None:
                distinct = max(distinct, len(set(plain)))
        except Exception as exc:  # noqa: BLE001
            unexpected(rec, "sar_adc", exc, case, index)
        flush(rec, judge, dict(case, model="sar_adc"), index)
        zero = rng.choice([0.0, 0.0, 0, -0.0])
        zargs = {"strengths": rng.choice([tuple, list])([zero] * bits), "noises": rng.choice([tuple, list])([0.0] * bits)}
        try:
            arr = ctx.call("sar_adc_with_noise", det, frame, via_mf, **zargs)
            img = arr.ravel()[perm].reshape(arr.shape) if arr.size == len(perm) else arr
            noisy = judge.image("sar_adc_with_noise", img, shape, bits, vmin, vmax, volts, ns_r, saturating=False)
            rec.observe("bits_sar_noise", bits)
        except Exception as exc:  # noqa: BLE001
            unexpected(rec, "sar_adc_with_noise", exc, case, index)
        if plain is not None and noisy is not None:
            rec.count("sar_zero_noise_images_compared")
            rec.count("sar_zero_noise_codes_compared", len(plain))
            if plain != noisy:
                j = next(j for j, (a, b) in enumerate(zip(plain, noisy)) if a != b)
                judge.report("C16:sar_adc_with_noise:zero-noise-differs-from-sar_adc",
                             f"bits={bits} range=({hexf(vmin)}, {hexf(vmax)}) voltage {hexf(volts[j])}: sar_adc -> "
                             f"{plain[j]} but sar_adc_with_noise(strengths=0, noises=0) -> {noisy[j]} "
                             f"({sum(1 for a, b in zip(plain, noisy) if a != b)} of {len(plain)} codes differ)")
        flush(rec, judge, dict(case, model="sar_adc_with_noise", zero=repr(zero)), index)
        # noisy converter with real noise: bounds and container only
        if extras and rng.random() < 0.12:
            scale = abs(vmax) if vmax else 1.0
            nargs = {"strengths": tuple(rng.uniform(-1e-3, 1e-3) * scale for _ in range(bits)),
                     "noises": tuple(rng.uniform(0, 1e-3) * scale for _ in range(bits))}
            try:
                arr = ctx.call("sar_adc_with_noise", det, frame, False, **nargs)
                judge.image("sar_adc_with_noise", arr, shape, bits, vmin, vmax, volts, 0, saturating=False,
                            monotone=False)
                rec.count("sar_real_noise_images_checked")
            except Exception as exc:  # noqa: BLE001
                unexpected(rec, "sar_adc_with_noise", exc, case, index)
            flush(rec, judge, dict(case, model="sar_adc_with_noise", arguments={k: list(v) for k, v in nargs.items()}),
                  index)
    rec.observe("range_classes", cls)
    rec.observe("detector_kinds", kind)
    rec.observe("shapes", f"{shape[0]}x{shape[1]}")
    sig = (label, bits, vmin.hex(), vmax.hex(), kind, list(shape), index, rec.spec.get("shard"))
    rec.case(sig, nontrivial=distinct >= 3, sample=dict(case, distinct_codes=distinct,
                                                        first_voltages=[repr(x) for x in (vs if vs is not None else vr)[:6].tolist()]))


def random_case(rec, ctx, index, bits):
    np = ctx.np
    rng = rec.rng(index)
    nrng = np.random.RandomState(rng.getrandbits(32))
    vmin, vmax, cls = gen_range(rng)
    kind = rng.choice(KINDS)
    shape = rng.choice(SHAPES)
    size = shape[0] * shape[1]
    vs, ns_s = simple_frame(np, rng, nrng, bits, vmin, vmax, size)
    vr, ns_r = sar_frame(np, rng, nrng, bits, vmin, vmax, size)
    run_models(rec, ctx, index, rng, nrng, bits, vmin, vmax, cls, kind, shape, vs, ns_s, vr, ns_r, "random")


def enum_ranges(tier, seed):
    """Voltage ranges of the enumerated sub-space: fixed list + seed-derived ones (maximum > 0)."""
    import random
    out = list(FIXED_RANGES[: ENUM_FIXED[tier]])
    r = random.Random(f"C16-enum-{seed}")
    while len(out) < ENUM_FIXED[tier] + ENUM_RANDOM[tier]:
        vmin, vmax, _cls = gen_range(r)
        if vmax > 0 and (vmin, vmax) not in out:
            out.append((vmin, vmax))
    return out


def enum_unit(rec, ctx, index, bits, vmin, vmax):
    """Every code transition k = 1 .. 2**bits-1 of one (resolution, range): threshold and +-1 ulp."""
    np = ctx.np
    rng = rec.rng(index)
    nrng = np.random.RandomState(rng.getrandbits(32))
    inf = math.inf
    full = max_code_of(bits)
    span = vmax - vmin
    k = np.arange(1, full + 1, dtype=np.float64)
    shape = (64, 64)
    size = 4096
    kind = rng.choice(KINDS)
    with np.errstate(all="ignore"):
        t = vmin + k * span / full
        ends = np.array([-inf, inf, vmin, vmax, np.nextafter(vmin, -inf), np.nextafter(vmax, inf)])
        vs_all = np.unique(np.concatenate([t, np.nextafter(t, -inf), np.nextafter(t, inf), ends]))
        q = vmax / 2.0 ** bits
        kk = np.arange(1, full + 2, dtype=np.float64)       # including k = 2**bits (= the maximum)
        ts = kk * q
        ends = np.array([-inf, inf, 0.0, vmin, np.nextafter(0.0, -inf), np.nextafter(vmax, inf)])
        vr_all = np.unique(np.concatenate([ts, np.nextafter(ts, -inf), np.nextafter(ts, inf), ends]))
    for name, allv in (("simple", vs_all), ("sar", vr_all)):
        pos = 0
        while True:
            chunk = allv[pos: pos + size]
            n_sorted = len(chunk)
            if n_sorted < size:
                chunk = np.concatenate([chunk, np.full(size - n_sorted, chunk[-1])])
            if name == "simple":
                run_models(rec, ctx, index, rng, nrng, bits, vmin, vmax, "enumerated", kind, shape,
                           chunk, n_sorted, None, 0, "enum-simple", ideal_pm1=True, extras=False)
            else:
                run_models(rec, ctx, index, rng, nrng, bits, vmin, vmax, "enumerated", kind, shape,
                           None, 0, chunk, n_sorted, "enum-sar", extras=False)
            if pos + size >= len(allv):
                break
            pos += size - 1                                  # consecutive chunks overlap by one voltage
        rec.count(f"transitions_enumerated_{name}", full)
    rec.count("enum_units_done")
    rec.observe("enum_units", f"{bits}:{vmin.hex()}:{vmax.hex()}")


def plan(tier, seed):
    total = RANDOM_CASES[tier]
    per = -(-total // SHARDS)
    ranges = enum_ranges(tier, seed)
    units = [[bits, ri] for bits in range(4, ENUM_MAX_BITS[tier] + 1) for ri in range(len(ranges))]
    specs = []
    for s in range(SHARDS):
        specs.append({"shard": s, "seed": seed, "kind": "mixed", "n": per, "tier": tier,
                      "units": units[s::SHARDS]})
    return specs


ENUM_BASE = 10_000_000


def run_shard(spec, rec):
    ctx = Ctx(rec)
    tier = spec.get("tier", "quick")
    shard = spec["shard"]
    try:
        ranges = enum_ranges(tier, spec["seed"])
        for j, (bits, ri) in enumerate(spec.get("units", [])):
            index = ENUM_BASE + bits * 1000 + ri
            if not rec.wanted(index):
                continue
            vmin, vmax = ranges[ri]
            enum_unit(rec, ctx, index, bits, float(vmin), float(vmax))
        for i in range(spec["n"]):
            if not rec.wanted(i):
                continue
            bits = 4 + (i * SHARDS + shard) % 61      # 16 and 61 are coprime: every shard sees all 61
            random_case(rec, ctx, i, bits)
    finally:
        ctx.close()


def expected_transitions(tier):
    n_ranges = ENUM_FIXED[tier] + ENUM_RANDOM[tier]
    return sum(2 ** b - 1 for b in range(4, ENUM_MAX_BITS[tier] + 1)) * n_ranges


def finalize(counters, sets, tier):
    out = []
    for name in ("bits_simple", "bits_sar", "bits_sar_noise"):
        seen = {int(x) for x in sets.get(name, [])}
        missing = sorted(set(range(4, 65)) - seen)
        if missing:
            out.append(f"{name}: resolutions never observed: {missing[:10]}")
    want = expected_transitions(tier)
    for name in ("transitions_enumerated_simple", "transitions_enumerated_sar"):
        if counters.get(name, 0) != want:
            out.append(f"{name}={counters.get(name, 0)} but the enumerated sub-space holds {want} transitions")
    for m in ("simple_adc", "sar_adc", "sar_adc_with_noise"):
        if counters.get(f"m2_{m}_calls", 0) != counters.get(f"{m}_calls", 0):
            out.append(f"sys.monitoring saw {counters.get(f'm2_{m}_calls', 0)} calls of {m}, the harness made "
                       f"{counters.get(f'{m}_calls', 0)}")
    dts = set(sets.get("image_dtypes", []))
    if not {"uint8", "uint16", "uint32", "uint64"} <= dts:
        out.append(f"image dtypes observed: {sorted(dts)} (all four unsigned widths expected)")
    return out


def coverage_extra(counters, sets, tier):
    want = expected_transitions(tier)
    complete = (counters.get("transitions_enumerated_simple", 0) == want
                and counters.get("transitions_enumerated_sar", 0) == want)
    return {
        "exhaustive": bool(complete),
        "exhaustive_scope": (f"ONLY the enumerated sub-space: every code transition k=1..2**bits-1 (threshold and +-1 ulp) "
                             f"for bits 4..{ENUM_MAX_BITS[tier]} on {ENUM_FIXED[tier] + ENUM_RANDOM[tier]} voltage ranges "
                             f"(listed under observed.enum_units), simple_adc (ideal minimum + k*span/(2**bits-1)) and both "
                             f"SAR converters (k*maximum/2**bits); voltage ranges, resolutions above "
                             f"{ENUM_MAX_BITS[tier]} bits and all other voltages are sampled, not enumerated"),
        "transitions_expected": want,
        "resolutions_covered": {k: len(sets.get(k, [])) for k in ("bits_simple", "bits_sar", "bits_sar_noise")},
        "float32_observe_only": {"frames": counters.get("float32_frames", 0),
                                 "frames_with_findings": counters.get("float32_frames_with_findings", 0),
                                 "mechanisms": sets.get("float32_findings", [])},
    }


REGISTER = True
LEVEL_TEXT = ("Exploration by runtime monitoring: the real simple_adc, sar_adc and sar_adc_with_noise model functions are "
              "executed on generated float64 signal frames of real CCD/CMOS/MKID/APD detectors (settings given to the "
              "constructor or through the setters, called directly or through ModelFunction) for all 61 resolutions and "
              "thousands of voltage ranges (decimal, negative, tiny, subnormal, huge); every code of every image is compared "
              "as a Python integer with the bounds, monotonicity, saturation and container-type rules of the statement, and "
              "zero-noise noisy SAR images with plain SAR images.  Every code transition of the resolutions up to 10 (quick) "
              "/ 12 (thorough) bits is enumerated on a list of ranges at the threshold and +-1 ulp.  Held = on the "
              "executions observed.")
LEVEL_NOTE = ("Trusted: NumPy's tolist()/nextafter/unique, Python integers and fractions.Fraction (the oracle), CPython "
              "sys.monitoring.  Outside: float32/float16 signal frames (observe-only), NaN voltages, explicit data_type "
              "narrower than the resolution, accuracy of intermediate codes above 12 bits.")

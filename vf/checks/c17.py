"""C17 -- splitting an exposure into more readouts does not change collected charge.

Metamorphic relations decided on families of REAL executions of
``pyxel.run_mode(Exposure(readout=Readout(times, start_time, non_destructive)), detector, pipeline)``
over pipelines built from the deterministic flux-integrating models named by the statement:

* non-destructive: the last ``pixel`` slice of every partition of [start, end] into 1..12 readouts
  equals the last slice of the single-readout run of the same interval (rel 1e-9, abs 1e-9*max);
* destructive: ``pixel_i / dt_i`` (per pixel) is one and the same rate for every frame of a run
  *and* for every frame of the re-scheduled runs of the same pipeline (every interval x k with the
  start scaled too, every interval x k with the start kept, all times shifted) -- i.e. each frame's
  charge is proportional to its own duration and scaling the intervals scales the charge.

Histories: the statement lets the charge depend on the start and end times *only*, so the runs of a family
are also executed the way a user session does it -- the same detector / pipeline objects (and, in a third of
the cases, the same ``Exposure`` object whose ``readout.start_time`` / ``times`` / ``non_destructive`` are
re-assigned) serve several consecutive exposures, among them exposures that keep the readout times of the
previous one and only move the start time.  The non-destructive reference (single readout) is always taken
on new objects.  A fifth of the cases drive the same families through the older public entry point
``pyxel.exposure_mode`` (Dataset result) while it exists.

The "oracle" is only the exact (rational) duration of each frame computed from the float times that
were handed to pyxel; nothing of pyxel is imported by it.
"""
from __future__ import annotations

import os
from fractions import Fraction

import numpy as np

from vf import build

ID = "C17"
LEVEL = "exploration"
REGISTER = True
TECHNIQUE = ("runtime monitoring: metamorphic comparison of the pixel bucket returned by families of real "
             "exposures that differ only in their readout schedule")
RULE = ("random pipelines over {illumination uniform/rectangular/elliptic, load_image, stripe_pattern, load_charge, "
        "dark_current without noise, simple_conversion / conversion_with_qe_map in expectation mode, simple_collection} "
        "+ simple_measurement + simple_adc, random levels / time scales / files / geometries 1x1..8x8, detectors "
        "ccd/cmos/mkid/apd; per case one non-destructive family (single readout + 3-4 partitions into 1..12 readouts) "
        "and one destructive family (base schedule + 2 re-scheduled runs); cut points even / uniform / log-uniform / as close to "
        "each other and to the ends as 1e-7 of the label size; every family also re-runs its last schedule with only the "
        "start time moved; object histories: new objects per run / one detector+pipeline for the family / for the whole "
        "case (both modes alternate on it) / one Exposure object re-assigned through its readout setters; entry point "
        "pyxel.run_mode (4 of 5 cases) or pyxel.exposure_mode; non-trivial = collected charge non-zero and "
        "at least one schedule with >=2 readouts; distinct = distinct (pipeline, geometry, interval) signatures")
ASSUMPTIONS = [
    "dark_current is made deterministic by its own arguments (temporal_noise=False, spatial_noise_factor=None); no seed is needed",
    "photo-conversion is driven with binomial_sampling=False (expectation value); the sampling mode is outside the statement",
    "all fluxes are positive, so no cancellation between models: a per-pixel relative tolerance is meaningful",
    "frames of different runs of the same pipeline share one flux: 'proportional to the frame's own duration' is "
    "checked across the base run and its re-scheduled runs, with exact rational durations of the float times given to pyxel",
    "tolerance of a destructive frame is widened by 16*eps*max(|t|,|start|)/dt so that any reasonable way of computing "
    "the steps (differences of neighbours or of offsets from the start) is accepted for extremely short frames",
    "a detector / pipeline / Exposure object may be used for any number of consecutive exposures: the charge of a run "
    "may not depend on the runs made before on the same objects (the statement names start and end time as the only inputs)",
    "pyxel.exposure_mode is public (deprecated): it is driven while it exists, its absence is counted, never alarmed; its "
    "violations carry the suffix ':via-exposure_mode' in their mechanism",
    "only the 'pixel' bucket is compared; signal/image (quantisation) are downstream and not part of the statement",
    "neighbouring readout times (and the start) are kept >= 1e-7 x (size of the labels start_time + time) apart, because "
    "closer times can make the assembly of the result fail (xarray MergeError on colliding time labels, recorded under "
    "C03); such a failure is counted as refused_label_collision, never alarmed",
]
REQUIRED_COUNTERS = ["runs", "nd_families", "nd_partitions_compared", "nd_nonzero_families", "nd_multi_readout_partitions",
                     "nd_close_cut_partitions", "destr_families", "destr_frames_compared", "destr_rescheduled_runs",
                     "destr_nonzero_families", "families_start_positive", "families_start_negative", "families_start_zero",
                     "nd_moved_start_compared", "destr_move_start_runs", "session_reused_detector_runs",
                     "session_same_times_new_start_runs", "session_exposure_reassigned_runs",
                     "session_mode_toggled_runs"]
TIMEOUT = {"quick": 900, "thorough": 7200}
LEVEL_TEXT = ("Exploration by runtime monitoring: every generated pipeline of deterministic flux-integrating models is "
              "executed by the real exposure loop under several readout schedules of the same interval (non-destructive) "
              "and under re-scaled / shifted schedules (destructive); the returned pixel slices are compared with each "
              "other (rel 1e-9) using exact rational frame durations. Held = on the schedule families observed.")
LEVEL_NOTE = ("Trusted: numpy/astropy file writers for the generated input files, xarray indexing of the returned tree, "
              "Python's Fraction arithmetic for the frame durations.")

# Mechanisms of genuine defects found on the unchanged tree: counted, not raised, unless
# VERIF_C17_STRICT=1.  Empty: every listed model integrates its flux consistently.
# (Readout times whose labels start_time + time round to the same double make the assembly of the
# result fail with xarray's MergeError -- the root cause is recorded under C03, it is not a statement
# about collected charge.  The generators keep neighbouring times >= MIN_GAP (relative to the size of
# the labels) apart, and such a failure is counted as "refused_label_collision".)
OPEN_FINDINGS: dict[str, str] = {}
MIN_GAP = 1e-7

SOURCES = ["illum_uniform", "illum_rectangular", "illum_elliptic", "load_image", "stripe_pattern",
           "load_charge", "dark_current"]
CONVERSIONS = ["simple_conversion", "conversion_with_qe_map"]
PHOTON_SOURCES = {"illum_uniform", "illum_rectangular", "illum_elliptic", "load_image", "stripe_pattern"}
K_FACTORS = [0.5, 2.0, 3.0, 10.0]
RTOL = 1e-9
EPS = 2.220446049250313e-16


def plan(tier, seed):
    n = 12 if tier == "quick" else 150
    return [{"shard": s, "seed": seed, "kind": "families", "n": n} for s in range(16)]


# ------------------------------------------------------------------ generators
def rand_time_scale(rng):
    return rng.choice([None, 1.0, 1.0, 0.001, 0.5, 2.0, 60.0, round(rng.uniform(0.01, 100.0), 6)])


def rand_level(rng):
    return rng.choice([0.75, 1.0, 37.25, 1234.5678, 1.0e5]) * rng.uniform(0.1, 1.0)


def write_array(path, arr):
    if path.endswith(".fits"):
        from astropy.io import fits
        fits.PrimaryHDU(arr).writeto(path, overwrite=True)
    else:
        with open(path, "wb") as fh:
            np.save(fh, arr)


def rand_file(rng, tmp, stem, rows, cols, lo, hi, exact_shape=False):
    """A generated input file under the worker's private directory; returns (path, shape)."""
    if exact_shape:
        shape = (rows, cols)
    else:
        shape = (max(1, rows + rng.randint(-2, 2)), max(1, cols + rng.randint(-2, 2)))
    values = [rng.uniform(lo, hi) for _ in range(shape[0] * shape[1])]
    arr = np.array(values, dtype=float).reshape(shape)
    path = os.path.join(tmp, stem + rng.choice([".npy", ".npy", ".fits"]))
    write_array(path, arr)
    return path, list(shape)


def rand_placement(rng, args):
    if rng.random() < 0.5:
        args["align"] = rng.choice(["center", "top_left", "top_right", "bottom_left", "bottom_right"])
    elif rng.random() < 0.3:
        args["position"] = [0, 0]


def gen_pipeline(rng, tmp, index, shard):
    """Returns a JSON-able case: detector spec, pipeline spec, the source kinds and the expected-refusal flag."""
    solo = index % 5 in (0, 2)
    if solo:
        kinds = [SOURCES[(index + 3 * shard) % len(SOURCES)]]
    else:
        kinds = rng.sample(SOURCES, rng.randint(2, 5))
    rows, cols = rng.randint(1, 8), rng.randint(1, 8)
    if "stripe_pattern" in kinds and rng.random() < 0.85:
        rows, cols = 2 * rng.randint(1, 4), 2 * rng.randint(1, 4)
    stem = f"c17_{index}"
    photon, charge = [], []
    refusal = None
    for j, kind in enumerate(kinds):
        ts = rand_time_scale(rng)
        if kind.startswith("illum"):
            option = kind.split("_")[1]
            args = {"level": rand_level(rng), "option": option}
            if option != "uniform":
                args["object_size"] = [rng.randint(1, rows + 2), rng.randint(1, cols + 2)]
                if rng.random() < 0.5:
                    args["object_center"] = [rng.randint(0, rows), rng.randint(0, cols)]
            elif rng.random() < 0.5:
                del args["option"]
            if ts is not None:
                args["time_scale"] = ts
            photon.append({"name": f"illum{j}", "func": "pyxel.models.photon_collection.illumination", "arguments": args})
            if option != "uniform" and rng.random() < 0.3:   # a second, different object in the same pipeline
                args2 = {"level": rand_level(rng), "option": rng.choice(["rectangular", "elliptic"]),
                         "object_size": [rng.randint(1, rows + 2), rng.randint(1, cols + 2)]}
                photon.append({"name": f"illum{j}b", "func": "pyxel.models.photon_collection.illumination", "arguments": args2})
        elif kind == "load_image":
            path, shape = rand_file(rng, tmp, f"{stem}_img{j}", rows, cols, 0.0, 1000.0)
            args = {"image_file": path, "convert_to_photons": False}
            rand_placement(rng, args)
            mult = rng.choice([None, 1.0, 2.5, 0.1])
            if mult is not None:
                args["multiplier"] = mult
            if ts is not None:
                args["time_scale"] = ts
            photon.append({"name": f"image{j}", "func": "pyxel.models.photon_collection.load_image", "arguments": args})
        elif kind == "stripe_pattern":
            big = max(rows, cols)
            period = rng.choice([p for p in range(2, 2 * big + 1, 2)] + [10])
            args = {"period": period, "level": rand_level(rng), "angle": rng.choice([0, 0, 0, 90, 45, 30]),
                    "startwith": rng.choice([0, 1])}
            if ts is not None:
                args["time_scale"] = ts
            if rows % 2 or cols % 2:
                refusal = "stripe_pattern on an odd geometry"
            elif period // 2 > big:
                refusal = "stripe_pattern period wider than the detector"
            photon.append({"name": f"stripe{j}", "func": "pyxel.models.photon_collection.stripe_pattern", "arguments": args})
        elif kind == "load_charge":
            path, shape = rand_file(rng, tmp, f"{stem}_chg{j}", rows, cols, 0.0, 5000.0)
            args = {"filename": path}
            rand_placement(rng, args)
            if ts is not None:
                args["time_scale"] = ts
            charge.append({"name": f"charge{j}", "func": "pyxel.models.charge_generation.load_charge", "arguments": args})
        elif kind == "dark_current":
            args = {"figure_of_merit": rng.uniform(0.01, 5.0), "temporal_noise": False}
            if rng.random() < 0.3:
                args["band_gap"] = round(rng.uniform(1.05, 1.2), 4)
                args["band_gap_room_temperature"] = round(rng.uniform(1.05, 1.2), 4)
            if rng.random() < 0.5:
                args["spatial_noise_factor"] = None
            charge.append({"name": f"dark{j}", "func": "pyxel.models.charge_generation.dark_current", "arguments": args})
    conversion = None
    if photon:
        conversion = rng.choice(CONVERSIONS)
        if conversion == "simple_conversion":
            args = {"binomial_sampling": False}
            if rng.random() < 0.6:
                args["quantum_efficiency"] = round(rng.uniform(0.05, 1.0), 4)
            conv = {"name": "conversion", "func": "pyxel.models.charge_generation.simple_conversion", "arguments": args}
        else:
            path, shape = rand_file(rng, tmp, f"{stem}_qe", rows, cols, 0.05, 1.0, exact_shape=rng.random() < 0.7)
            if shape[0] < rows or shape[1] < cols:
                # a smaller map leaves QE 0 outside: legal, the charge is simply zero there
                pass
            conv = {"name": "conversion", "func": "pyxel.models.charge_generation.conversion_with_qe_map",
                    "arguments": {"filename": path, "binomial_sampling": False}}
        # position of the conversion among the charge generators is arbitrary
        charge.insert(rng.randint(0, len(charge)), conv)
    kind_det = rng.choice(["ccd", "ccd", "cmos", "cmos", "mkid", "apd"])
    dspec = build.default_detector_spec(kind_det, rows, cols)
    dspec["environment"]["temperature"] = round(rng.uniform(180.0, 320.0), 3)
    dspec["geometry"]["pixel_vert_size"] = rng.choice([10.0, 15.0, 18.0])
    dspec["geometry"]["pixel_horz_size"] = rng.choice([10.0, 15.0, 18.0])
    meas_args = {}
    if kind_det in ("apd", "mkid") or rng.random() < 0.4:
        meas_args["gain"] = rng.choice([1.0e-6, 2.5e-6, 1.0e-5])
    adc_args = {} if rng.random() < 0.6 else {"data_type": rng.choice(["uint16", "uint32"])}
    pspec = {}
    if photon:
        pspec["photon_collection"] = photon
    pspec["charge_generation"] = charge
    pspec["charge_collection"] = [{"name": "collection", "func": "pyxel.models.charge_collection.simple_collection",
                                   "arguments": {}}]
    pspec["charge_measurement"] = [{"name": "measurement", "func": "pyxel.models.charge_measurement.simple_measurement",
                                    "arguments": meas_args}]
    pspec["readout_electronics"] = [{"name": "adc", "func": "pyxel.models.readout_electronics.simple_adc",
                                     "arguments": adc_args}]
    return {"solo": solo, "kinds": kinds, "conversion": conversion, "detector": dspec, "pipeline": pspec,
            "expected_refusal": refusal}


def gen_interval(rng, index):
    """(start, end, start_kind): zero / positive / negative start (end below or above zero)."""
    kind = ["zero", "positive", "negative", "negative_end_negative"][(index + rng.randint(0, 1)) % 4] \
        if rng.random() < 0.8 else "zero"
    dur = rng.choice([0.01, 0.1, 1.0, 1.0, 7.5, 60.0, 1000.0]) * rng.uniform(0.5, 2.0)
    if kind == "zero":
        start = 0.0
    elif kind == "positive":
        start = rng.choice([0.25, 1.0, 3.0, 50.0]) * rng.uniform(0.5, 1.5)
    elif kind == "negative":
        start = -rng.choice([0.25, 1.0, 3.0, 50.0]) * rng.uniform(0.5, 1.5)
    else:
        start = -(dur + rng.choice([0.25, 1.0, 10.0]) * rng.uniform(0.5, 1.5))
    end = start + dur
    if end == 0.0:
        end = dur * 1e-3
    return start, end, kind


def label_scale(start, end):
    """Upper bound of |start_time + time| over the exposure (and never below its duration)."""
    return max(abs(start) + max(abs(start), abs(end)), end - start)


def min_gap(start, end):
    return MIN_GAP * label_scale(start, end)


def finish_times(start, end, cuts):
    gap = min_gap(start, end)
    kept = []
    prev = start
    for c in sorted({float(c) for c in cuts}):
        if c - prev >= gap and end - c >= gap:
            kept.append(c)
            prev = c
    times = kept + [end]
    if times[0] == 0.0:      # a first readout at exactly 0 is refused by Readout (documented): drop that cut
        times = times[1:]
    return times


def gen_partition(rng, start, end, n, style):
    """n readouts (n-1 interior cut points); the float cut points are de-duplicated, so fewer may remain."""
    dur = end - start
    m = n - 1
    cuts = []
    if style == "even":
        cuts = [start + dur * (j + 1) / n for j in range(m)]
    elif style == "uniform":
        cuts = [start + dur * rng.random() for _ in range(m)]
    elif style == "uneven":          # log-uniform fractions: most of the exposure in one or two frames
        cuts = [start + dur * 10.0 ** rng.uniform(-6, 0) for _ in range(m)]
        if rng.random() < 0.5:
            cuts = [end - (c - start) for c in cuts]
    elif style == "close_pairs":     # cut points as close to each other as the label resolution allows
        gap = min_gap(start, end)
        while len(cuts) < m:
            c = start + dur * rng.uniform(0.05, 0.95)
            cuts.append(c)
            if len(cuts) < m:
                cuts.append(c + gap * rng.choice([1.0000001, 1.5, 10.0, 100.0]))
    elif style == "close_ends":      # cut points as close to the start and to the end as allowed
        gap = min_gap(start, end)
        pool = [start + gap * 1.0000001, start + gap * 3.0, start + gap * 100.0,
                end - gap * 1.0000001, end - gap * 3.0, end - gap * 100.0]
        rng.shuffle(pool)
        cuts = pool[:m] + [start + dur * rng.random() for _ in range(max(0, m - len(pool)))]
    return finish_times(start, end, cuts)


def gen_destructive_base(rng, start, end):
    n = rng.choice([1, 2, 2, 3, 4, 5, 6, 8, 12])
    style = rng.choice(["even", "uniform", "uniform", "uneven", "close_pairs"])
    return gen_partition(rng, start, end, n, style)


def reschedule(rng, start, times, variant, k):
    if variant == "scale_all":          # a change of time unit: start and every time x k
        return start * k, [t * k for t in times]
    if variant == "scale_steps":        # the start is kept, every interval x k
        return start, [start + (t - start) * k for t in times]
    if variant == "shift":              # same intervals, another start
        dur = times[-1] - start
        delta = rng.choice([-1.0, 1.0]) * rng.choice([0.5, 1.0, 2.0, 4.0]) * max(dur, abs(start))
        return start + delta, [t + delta for t in times]
    raise ValueError(variant)


def valid_schedule(start, times):
    """Accepted by Readout (strictly increasing, first time non-zero and after the start) and with labels
    that stay distinct with a margin (neighbours > 4e-9 of the label size apart, see MIN_GAP)."""
    if not (times[0] != 0.0 and times[0] > start and all(b > a for a, b in zip(times, times[1:]))
            and all(np.isfinite(times))):
        return False
    pts = [start] + list(times)
    gap = 0.04 * min_gap(start, times[-1])
    return all(b - a > gap for a, b in zip(pts, pts[1:])) and not labels_collide(start, times)


def labels_collide(start, times):
    """Input class of the open finding: two readouts whose (start + time) labels round to the same double."""
    labels = [start + t for t in times]
    return len(set(labels)) < len(labels)


def durations(start, times):
    """Exact durations of the frames of the schedule that was handed over (rational arithmetic)."""
    pts = [Fraction(start)] + [Fraction(t) for t in times]
    return [float(b - a) for a, b in zip(pts, pts[1:])]


# ------------------------------------------------------------------ execution
SHARINGS = ["fresh", "family", "case", "family_exposure", "case_exposure"]


class Session:
    """How consecutive exposures share their objects, as in a user session.

    sharing: 'fresh'            new detector / pipeline / Exposure for every run;
             'family' | 'case'  one detector and one pipeline object for all runs of the family / of the case
                                (in a 'case' session the non-destructive and the destructive runs alternate on it);
             '*_exposure'       in addition one Exposure object, re-assigned through the public setters of its readout.
    entry:   'run_mode' (pyxel.run_mode) or 'exposure_mode' (pyxel.exposure_mode, the older public entry point).
    """

    def __init__(self, rec, case, sharing, entry):
        self.rec, self.case, self.sharing, self.entry = rec, case, sharing, entry
        self.detector = self.pipeline = self.mode = None
        self.previous = None          # (start, times, non_destructive) of the last run on the shared detector

    @property
    def suffix(self):
        return ":via-exposure_mode" if self.entry == "exposure_mode" else ""

    def describe(self):
        return {"sharing": self.sharing, "entry": self.entry}

    def new_family(self):
        if self.sharing.startswith("family"):
            self.detector = self.pipeline = self.mode = None
            self.previous = None

    def objects(self, start, times, non_destructive):
        from pyxel.exposure import Exposure, Readout

        rec = self.rec
        if self.sharing == "fresh" or self.detector is None:
            self.detector = build.make_detector(self.case["detector"])
            self.pipeline = build.make_pipeline(self.case["pipeline"])
            self.mode = None
            self.previous = None
        else:
            rec.count("session_reused_detector_runs")
            p_start, p_times, p_nd = self.previous
            if p_times == list(times) and p_nd == non_destructive and p_start != start:
                rec.count("session_same_times_new_start_runs")
            if p_nd != non_destructive:
                rec.count("session_mode_toggled_runs")
        if self.mode is not None and self.sharing.endswith("_exposure"):
            readout = self.mode.readout
            try:
                # both setters validate against the other attribute: take the order whose intermediate state is legal
                if start < float(readout.times[0]):
                    readout.start_time = start
                    readout.times = list(times)
                else:
                    readout.times = list(times)
                    readout.start_time = start
                readout.non_destructive = non_destructive
                rec.count("session_exposure_reassigned_runs")
            except (AttributeError, ValueError, TypeError) as exc:
                rec.count("refused_readout_setter")
                rec.observe("refusals", f"readout setter: {type(exc).__name__}")
                self.mode = None
        else:
            self.mode = None
        if self.mode is None:
            self.mode = Exposure(readout=Readout(times=list(times), start_time=start, non_destructive=non_destructive))
        self.previous = (start, list(times), non_destructive)
        return self.mode, self.detector, self.pipeline


def gen_session(rec, rng, case, index, shard):
    sharing = SHARINGS[(index + shard + rng.randint(0, 1)) % len(SHARINGS)] if rng.random() < 0.8 else rng.choice(SHARINGS)
    entry = "exposure_mode" if rng.random() < 0.2 else "run_mode"
    return Session(rec, case, sharing, entry)


def execute(case, start, times, non_destructive, session=None):
    """One real exposure; returns the pixel bucket as (n_readouts, rows, cols) float64."""
    import pyxel
    from pyxel.exposure import Exposure, Readout

    legacy = None
    if session is None:
        detector = build.make_detector(case["detector"])
        pipeline = build.make_pipeline(case["pipeline"])
        mode = Exposure(readout=Readout(times=list(times), start_time=start, non_destructive=non_destructive))
    else:
        mode, detector, pipeline = session.objects(start, times, non_destructive)
        if session.entry == "exposure_mode":
            legacy = getattr(pyxel, "exposure_mode", None)
            if legacy is None:
                session.rec.count("legacy_entry_point_absent")
                session.entry = "run_mode"
    if legacy is not None:
        tree = legacy(exposure=mode, detector=detector, pipeline=pipeline)
        session.rec.count("legacy_runs")
    else:
        tree = pyxel.run_mode(mode=mode, detector=detector, pipeline=pipeline)
    try:
        var = tree["pixel"]
    except KeyError:
        var = tree["/bucket/pixel"]
    time_dims = [d for d in var.dims if d not in ("y", "x")]
    if len(time_dims) == 1:
        var = var.transpose(time_dims[0], "y", "x")
        values = np.asarray(var.values, dtype=float)
    else:
        values = np.asarray(var.values, dtype=float)[None, ...]
    geo = case["detector"]["geometry"]
    if values.shape != (len(times), geo["row"], geo["col"]):
        raise AssertionError(f"pixel result has shape {values.shape} for {len(times)} readouts on "
                             f"{geo['row']}x{geo['col']}")
    return values


def alarm(rec, mechanism, detail, case, index):
    if mechanism in OPEN_FINDINGS and os.environ.get("VERIF_C17_STRICT") != "1":
        rec.count("open_finding_reproduced")
        rec.observe("open_findings", mechanism)
        return
    rec.violation(mechanism, detail, case, index)


def describe_diff(a, b):
    with np.errstate(all="ignore"):
        rel = np.abs(a - b) / np.maximum(np.abs(a), np.abs(b))
    rel = np.where(np.isfinite(rel), rel, 0.0)
    pos = np.unravel_index(int(np.argmax(rel)), rel.shape)
    return f"max rel. difference {float(rel[pos]):.3e} at pixel {tuple(int(p) for p in pos)}: {a[pos]!r} vs {b[pos]!r}"


def run_or_refuse(rec, case, public, index, relation, start, times, non_destructive, first, session=None):
    """Executes one schedule (on new objects, or the way the session shares them).  Returns the pixel cube or None
    (refusal counted / failure alarmed)."""
    try:
        out = execute(case, start, times, non_destructive, session)
        rec.count("runs")
        if session is not None:
            rec.observe("entry_points", session.entry)
        return out
    except Exception as exc:  # noqa: BLE001
        if type(exc).__name__ == "MergeError" or labels_collide(start, times):
            # assembly of the result refused the time labels (recorded under C03): nothing to decide here
            rec.count("refused_label_collision")
            return None
        if case["expected_refusal"]:
            rec.count("refused")
            rec.observe("refusals", f"{case['expected_refusal']}: {type(exc).__name__}")
            return None
        import traceback
        what = "baseline" if first else "schedule-variant"
        alarm(rec, f"C17:{relation}:run-failed:{what}" + (session.suffix if session else ""),
              f"{type(exc).__name__}: {exc} :: start={start!r} times={times!r} :: {traceback.format_exc()[-600:]}",
              dict(public, start=start, times=times, non_destructive=non_destructive,
                   session=session.describe() if session else None), index)
        return None


def gen_moved_start(rng, start, times):
    """Another start time for the same readout times: later (inside the first interval) or earlier."""
    first = times[0]
    if rng.random() < 0.5:
        new = start + (first - start) * rng.uniform(0.05, 0.95)
    else:
        new = start - (times[-1] - start) * rng.choice([0.01, 0.25, 1.0, 3.0]) * rng.uniform(0.5, 1.5)
    if rng.random() < 0.25:
        new = round(new, 3)          # 'typed in' values
    return float(new)


def check_non_destructive(rec, rng, case, public, index, start, end, session):
    """Every partition of [start, end] against the single-readout run (always made on new objects)."""
    public = dict(public, session=session.describe())
    ref = run_or_refuse(rec, case, public, index, "non-destructive", start, [end], True, True)
    if ref is None:
        return None
    single = ref[-1]
    if not np.all(np.isfinite(single)):
        alarm(rec, "C17:non-destructive:non-finite-charge", f"single readout of [{start!r}, {end!r}] gives {single!r}",
              dict(public, start=start, times=[end]), index)
        return None
    rec.count("nd_families")
    peak = float(np.max(np.abs(single)))
    nonzero = peak > 0.0
    if nonzero:
        rec.count("nd_nonzero_families")
    styles = ["even", "uniform", "uneven", "close_pairs", "close_ends"]
    n_part = 4 if rng.random() < 0.5 else 3
    multi = False
    last_times = None
    for p in range(n_part):
        style = styles[(index + p + rng.randint(0, 1)) % len(styles)]
        n = rng.choice([2, 3, 4, 5, 6, 8, 10, 12, 12]) if p else rng.choice([1, 2, 3, 7, 12])
        times = gen_partition(rng, start, end, n, style)
        if not valid_schedule(start, times):
            rec.count("schedules_skipped_invalid")
            continue
        got = run_or_refuse(rec, case, public, index, "non-destructive", start, times, True, False, session)
        if got is None:
            continue
        last_times = times
        rec.count("nd_partitions_compared")
        rec.observe("nd_readout_counts", len(times))
        rec.observe("nd_styles", style)
        if len(times) >= 2:
            multi = True
            rec.count("nd_multi_readout_partitions")
        if style in ("close_pairs", "close_ends") and len(times) >= 2:
            rec.count("nd_close_cut_partitions")
        final = got[-1]
        if not np.allclose(final, single, rtol=RTOL, atol=RTOL * peak, equal_nan=False):
            alarm(rec, "C17:non-destructive:final-charge-depends-on-partition" + session.suffix,
                  f"[{start!r}, {end!r}] read out {len(times)}x vs once: {describe_diff(final, single)}; "
                  f"models={case['kinds']}+{case['conversion']}; session={session.describe()}",
                  dict(public, start=start, times=times, end=end), index)
    # the same readout times with another start time: again only the start and the end may matter
    if last_times is not None:
        start2 = gen_moved_start(rng, start, last_times)
        if not valid_schedule(start2, last_times) or not valid_schedule(start2, [end]):
            rec.count("schedules_skipped_invalid")
            return {"nonzero": nonzero, "multi": multi}
        ref2 = run_or_refuse(rec, case, public, index, "non-destructive:moved-start", start2, [end], True, True)
        if ref2 is None or not np.all(np.isfinite(ref2[-1])):
            return {"nonzero": nonzero, "multi": multi}
        got2 = run_or_refuse(rec, case, public, index, "non-destructive:moved-start", start2, last_times, True, False,
                             session)
        if got2 is None:
            return {"nonzero": nonzero, "multi": multi}
        rec.count("nd_moved_start_compared")
        rec.observe("nd_moved_start", "later" if start2 > start else "earlier")
        peak2 = float(np.max(np.abs(ref2[-1])))
        if not np.allclose(got2[-1], ref2[-1], rtol=RTOL, atol=RTOL * peak2, equal_nan=False):
            alarm(rec, "C17:non-destructive:moved-start:final-charge-depends-on-partition" + session.suffix,
                  f"[{start2!r}, {end!r}] (start moved from {start!r}, readout times kept) read out {len(last_times)}x "
                  f"vs once: {describe_diff(got2[-1], ref2[-1])}; models={case['kinds']}+{case['conversion']}; "
                  f"session={session.describe()}",
                  dict(public, start=start2, times=last_times, end=end, previous_start=start), index)
    return {"nonzero": nonzero, "multi": multi}


def check_destructive(rec, rng, case, public, index, start, end, session):
    """pixel_i / dt_i is one rate for all frames of the base run and of its re-scheduled runs."""
    public = dict(public, session=session.describe())
    times = gen_destructive_base(rng, start, end)
    if not valid_schedule(start, times):
        rec.count("schedules_skipped_invalid")
        return None
    base = run_or_refuse(rec, case, public, index, "destructive", start, times, False, True, session)
    if base is None:
        return None
    if not np.all(np.isfinite(base)):
        alarm(rec, "C17:destructive:non-finite-charge", f"start={start!r} times={times!r} gives non-finite charge",
              dict(public, start=start, times=times), index)
        return None
    rec.count("destr_families")
    dts = durations(start, times)
    longest = int(np.argmax(dts))
    rate = base[longest] / dts[longest]            # reference flux per pixel (e-/s)
    peak = float(np.max(np.abs(rate)))
    nonzero = peak > 0.0
    if nonzero:
        rec.count("destr_nonzero_families")

    def compare(cube, s, ts, mechanism, label):
        ds = durations(s, ts)
        scale = max([abs(s)] + [abs(t) for t in ts])
        for i, (frame, dt) in enumerate(zip(cube, ds)):
            rtol = RTOL + 16 * EPS * scale / dt
            want = rate * dt
            rec.count("destr_frames_compared")
            if not np.allclose(frame, want, rtol=rtol, atol=rtol * peak * dt):
                alarm(rec, mechanism,
                      f"{label}: frame {i} of {len(ts)} lasts {dt!r} s but its charge is not (reference rate x duration): "
                      f"{describe_diff(frame, want)}; reference = frame {longest} ({dts[longest]!r} s) of start={start!r} "
                      f"times={times!r}; models={case['kinds']}+{case['conversion']}; session={session.describe()}",
                      dict(public, start=s, times=ts, base_start=start, base_times=times), index)
                return

    compare(base, start, times, "C17:destructive:frame-charge-not-proportional-to-its-duration" + session.suffix,
            "base schedule")
    rec.observe("destr_frame_counts", len(times))
    variants = ["scale_all", "scale_steps", "shift", "move_start"]
    rng.shuffle(variants)
    last_s, last_t = start, times
    for variant in variants[:rng.choice([2, 3])]:
        k = rng.choice(K_FACTORS)
        if variant == "move_start":     # the readout times of the run made just before, only the start differs
            s2, t2 = gen_moved_start(rng, last_s, last_t), list(last_t)
        else:
            s2, t2 = reschedule(rng, start, times, variant, k)
        if not valid_schedule(s2, t2):
            rec.count("schedules_skipped_invalid")
            continue
        got = run_or_refuse(rec, case, public, index, "destructive", s2, t2, False, False, session)
        if got is None:
            continue
        last_s, last_t = s2, t2
        rec.count("destr_rescheduled_runs")
        if variant == "move_start":
            rec.count("destr_move_start_runs")
        rec.observe("destr_variants", variant if variant in ("shift", "move_start") else f"{variant}:k={k}")
        compare(got, s2, t2,
                f"C17:destructive:rescheduled:{variant}:charge-does-not-follow-the-intervals" + session.suffix,
                f"{variant} k={k}" if variant not in ("shift", "move_start") else f"{variant} schedule")
    return {"nonzero": nonzero, "multi": len(times) >= 2}


def run_shard(spec, rec):
    for i in range(spec["n"]):
        if not rec.wanted(i):
            continue
        rng = rec.rng(i)
        case = gen_pipeline(rng, rec.tmp, i, spec["shard"])
        start, end, start_kind = gen_interval(rng, i + spec["shard"])
        public = {k: case[k] for k in ("kinds", "conversion", "detector", "pipeline", "expected_refusal")}
        session = gen_session(rec, rng, case, i, spec["shard"])
        rec.observe("session_sharings", session.sharing)
        nd = check_non_destructive(rec, rng, case, public, i, start, end, session)
        session.new_family()
        start_d, end_d, start_kind_d = gen_interval(rng, i + spec["shard"] + 1)
        de = check_destructive(rec, rng, case, public, i, start_d, end_d, session)
        geo = case["detector"]["geometry"]
        sig = (sorted(case["kinds"]), case["conversion"], geo["row"], geo["col"], start, end, start_d, end_d)
        ran = [r for r in (nd, de) if r]
        nontrivial = bool(ran) and any(r["nonzero"] for r in ran) and any(r["multi"] for r in ran)
        for r, kind in ((nd, start_kind), (de, start_kind_d)):
            if r:
                rec.count({"zero": "families_start_zero", "positive": "families_start_positive"}.get(kind, "families_start_negative"))
                rec.observe("start_kinds", kind)
        if ran and any(r["nonzero"] for r in ran):
            for kind in case["kinds"]:
                rec.observe("models_nonzero", kind)
            if case["conversion"]:
                rec.observe("models_nonzero", case["conversion"])
            if case["solo"]:
                rec.observe("solo_nonzero", case["kinds"][0])
                if case["conversion"]:
                    rec.observe("solo_nonzero_conversion", case["conversion"])
            rec.observe("detectors", case["detector"]["kind"])
            rec.observe("geometries", f"{geo['row']}x{geo['col']}")
        rec.case(sig, nontrivial, sample={"kinds": case["kinds"], "conversion": case["conversion"],
                                          "session": session.describe(),
                                          "geometry": [geo["row"], geo["col"]], "nd_interval": [start, end],
                                          "destructive_interval": [start_d, end_d], "pipeline": case["pipeline"]})


def finalize(counters, sets, tier):
    out = []
    missing = [m for m in SOURCES if m not in sets.get("solo_nonzero", [])]
    if missing:
        out.append(f"models never observed alone with non-zero collected charge: {missing}")
    missing = [m for m in CONVERSIONS if m not in sets.get("models_nonzero", [])]
    if missing:
        out.append(f"photo-conversion models never observed with non-zero charge: {missing}")
    missing = [m for m in SHARINGS if m not in sets.get("session_sharings", [])]
    if missing:
        out.append(f"object histories never driven: {missing}")
    if not counters.get("legacy_runs") and not counters.get("legacy_entry_point_absent"):
        out.append("pyxel.exposure_mode neither driven nor found absent")
    if len(sets.get("nd_readout_counts", [])) < 6:
        out.append("fewer than 6 different readout counts among the non-destructive partitions")
    return out


def coverage_extra(counters, sets, tier):
    return {"exhaustive": False,
            "models_alone_nonzero": sorted(sets.get("solo_nonzero", [])),
            "object_histories": sorted(sets.get("session_sharings", [])),
            "entry_points": sorted(sets.get("entry_points", [])),
            "open_findings": sorted(OPEN_FINDINGS)}

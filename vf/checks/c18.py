"""C18 -- a detector saved to a file and loaded back is the same detector.

Part 1 (round trips): CCD/CMOS/MKID/APD detectors with random valid properties and every subset
of data containers initialised are written with the real Detector.save / to_asdf and read back
with Detector.load / from_asdf; the harness's own field-by-field structural comparator (public
API only, no library ``==``) compares the state extracted *before* saving with the state of the
reloaded detector.  The library's ``==`` is evaluated as a secondary witness.  Multi-wavelength photon cubes and
scene sources carry their 'wavelength' labels in increasing, decreasing or no order.  Processed-data trees hold groups
with variables, groups with only coordinates (shared with generated sub-groups or not) and/or only attributes
(root included) and empty intermediate groups.

Part 2 (models): generated pipelines holding ``pyxel.models.load_detector`` at every pipeline
position are run by the real ``pyxel.run_mode``; probe models after the load model (vf.probes.trace
with snap=True and the deep probe of this module) must see the file's containers, and so must the
final detector and the returned result tree.  ``save_detector`` inside a first run followed by a
load in a second run must reproduce the state that a probe saw at saving time.
"""
from __future__ import annotations

import copy
import os
import pathlib
import traceback

import numpy as np

from vf import build, probes
from vf.mon_calls import CallMonitor

ID = "C18"
LEVEL = "exploration"
TECHNIQUE = ("runtime monitoring: structural snapshot differencing of real detectors across real file round trips; "
             "probe models + sys.monitoring call monitor around the load/save models in generated pipelines")
RULE = ("round trip = one detector (type, random valid geometry/environment/characteristics, one subset of "
        "containers initialised with seeded contents) saved and reloaded; non-trivial when at least one container "
        "is initialised or an optional property is set; distinct = distinct (type, subset, container variants, "
        "format, entry points) signatures.  pipeline case = file detector + generated pipeline with the load model "
        "at a chosen group/position; non-trivial when the state before the load differs from the file's")
ASSUMPTIONS = [
    "container contents are produced through the public container API (array setters, add_charge, add_source, "
    "detector.data[...] = DataArray / DataTree, node.coords[...] / node.attrs[...] of detector.data); NaN is not put into the 2-D buckets (the library == is a secondary witness)",
    "containers that travel as nested lists (3-D photon, scene, processed data) may come back in a wider dtype of "
    "the same kind with identical values: recorded as a normalisation, not alarmed; ndarray buckets must keep dtype",
    "the 'wavelength' labels of a multi-wavelength photon cube and of a scene source are distinct numbers in any "
    "order (increasing, decreasing, unordered; float or integer) -- the containers accept any labels; a cube may "
    "label its y/x axes and carry attributes; labels, their order and the planes' order must come back unchanged",
    "processed data: groups with data variables, groups holding only coordinates (inherited by sub-groups or not) "
    "and/or only attributes (root included), empty intermediate groups; a coordinate held by a group that an "
    "ancestor defines identically is compared as inherited",
    "cluster table: column names, column order, row count and numeric values are compared; column dtypes and the "
    "row index are recorded only",
    "HDF5 is driven only when h5py imports (recorded as skipped otherwise)",
    "the file and the running detector of a pipeline case have the same type and shape",
]
REQUIRED_COUNTERS = ["roundtrips", "property_fields_compared", "containers_compared", "lib_eq_evaluated",
                     "pipeline_runs", "post_load_states_checked", "trace_snapshots_checked",
                     "result_trees_checked", "m2_load_detector_calls", "saveload_cases",
                     "m2_save_detector_calls", "m2_detector_load_calls", "m2_detector_save_calls"]
TIMEOUT = {"quick": 600, "thorough": 3000}

KINDS = ("ccd", "cmos", "mkid", "apd")
BASE_CONTAINERS = ("photon", "charge", "pixel", "signal", "image", "scene", "data")
FLOATS = ("float16", "float32", "float64")
UINTS = ("uint8", "uint16", "uint32", "uint64")
UNSET = "<unset>"


def containers_of(kind):
    return BASE_CONTAINERS + (("phase",) if kind == "mkid" else ())


def plan(tier, seed):
    if tier == "quick":
        n_rt, n_pipe, n_sl = 20, 6, 2
    else:
        n_rt, n_pipe, n_sl = 280, 50, 10
    return [{"shard": s, "seed": seed, "kind": "mixed", "n_rt": n_rt, "n_pipe": n_pipe, "n_sl": n_sl,
             "n": n_rt + n_pipe + n_sl} for s in range(16)]


# ====================================================================== generators (JSON-able specs)
def rand_detector_spec(rng, kind, rows, cols, need_pixel_size=False):
    geo = {"row": rows, "col": cols}
    if rng.random() < 0.6:
        geo["total_thickness"] = rng.uniform(0.001, 10000.0)
    if need_pixel_size or rng.random() < 0.6:
        geo["pixel_vert_size"] = rng.uniform(0.5, 1000.0)
        geo["pixel_horz_size"] = rng.uniform(0.5, 1000.0)
    elif rng.random() < 0.3:
        geo[rng.choice(["pixel_vert_size", "pixel_horz_size"])] = rng.uniform(0.5, 1000.0)
    if rng.random() < 0.5:
        geo["pixel_scale"] = rng.choice([0.0, rng.uniform(0.0, 1000.0)])
    env = {}
    r = rng.random()
    if r < 0.55:
        env["temperature"] = rng.uniform(0.001, 1000.0)
    elif r < 0.75:
        env["temperature"] = rng.randint(1, 1000)
    r = rng.random()
    if r < 0.25:
        env["wavelength"] = rng.uniform(1.0, 3000.0)
    elif r < 0.5:
        on = rng.uniform(1.0, 900.0)
        env["wavelength"] = {"cut_on": on, "cut_off": on + rng.uniform(1.0, 900.0), "resolution": rng.randint(1, 50)}
    ch = {}
    if rng.random() < 0.65:
        ch["quantum_efficiency"] = rng.choice([0.0, 1.0, rng.random(), rng.random()])
    if rng.random() < 0.65:
        ch["full_well_capacity"] = rng.choice([rng.uniform(0.0, 1.0e7), rng.randint(0, 10_000_000)])
    if rng.random() < 0.65:
        ch["adc_bit_resolution"] = rng.randint(4, 64)
    if rng.random() < 0.65:
        lo = rng.uniform(-20.0, 20.0)
        ch["adc_voltage_range"] = [lo, lo + rng.uniform(0.1, 30.0)]
    if kind == "apd":
        ch["roic_gain"] = rng.uniform(0.05, 5.0)
        pair = rng.choice(["gain+prv", "gain+cv", "prv+cv"])
        if pair == "gain+prv":
            ch["avalanche_gain"] = rng.uniform(1.0, 1000.0)
            ch["pixel_reset_voltage"] = rng.uniform(0.0, 15.0)
        elif pair == "gain+cv":
            ch["avalanche_gain"] = rng.uniform(1.0, 1000.0)
            ch["common_voltage"] = rng.uniform(-10.0, 10.0)
        else:
            ch["pixel_reset_voltage"] = rng.uniform(2.0, 15.0)
            ch["common_voltage"] = ch["pixel_reset_voltage"] - rng.uniform(1.0, 12.0)
    else:
        if rng.random() < 0.65:
            ch["charge_to_volt_conversion"] = rng.choice([rng.uniform(0.0, 100.0), rng.uniform(1e-8, 1e-4)])
        if rng.random() < 0.65:
            ch["pre_amplification"] = rng.uniform(0.0, 10000.0)
    return {"kind": kind, "geometry": geo, "environment": env, "characteristics": ch}


def rand_setters(rng, dspec):
    """Property changes applied through the public setters after construction."""
    out = []
    kind = dspec["kind"]
    pool = ["environment.temperature", "geometry.total_thickness", "geometry.pixel_scale",
            "characteristics.quantum_efficiency", "characteristics.full_well_capacity",
            "characteristics.adc_bit_resolution", "characteristics.adc_voltage_range"]
    if kind == "apd":
        pool += ["characteristics.avalanche_gain", "characteristics.pixel_reset_voltage",
                 "characteristics.common_voltage"]
    else:
        pool += ["characteristics.pre_amplification", "characteristics.charge_to_volt_conversion",
                 "environment.wavelength"]
    for key in rng.sample(pool, rng.randint(1, 3)):
        name = key.split(".")[1]
        if name == "temperature":
            val = rng.uniform(0.001, 1000.0)
        elif name == "total_thickness":
            val = rng.uniform(0.001, 10000.0)
        elif name == "pixel_scale":
            val = rng.uniform(0.0, 1000.0)
        elif name == "quantum_efficiency":
            val = rng.random()
        elif name == "full_well_capacity":
            val = rng.uniform(0.0, 1.0e7)
        elif name == "adc_bit_resolution":
            val = rng.randint(4, 64)
        elif name == "adc_voltage_range":
            val = [rng.uniform(-5.0, 0.0), rng.uniform(0.5, 20.0)]
        elif name == "avalanche_gain":
            val = rng.uniform(1.0, 1000.0)
        elif name == "pixel_reset_voltage":
            val = "cv+" + repr(rng.uniform(1.0, 12.0))     # relative to the current common voltage (bias >= 1 V)
        elif name == "common_voltage":
            val = "prv-" + repr(rng.uniform(1.0, 12.0))
        elif name == "pre_amplification":
            val = rng.uniform(0.0, 10000.0)
        elif name == "charge_to_volt_conversion":
            val = rng.uniform(0.0, 100.0)
        else:  # wavelength
            val = rng.uniform(1.0, 3000.0)
        out.append([key, val])
    return out


def rand_containers(rng, kind, chosen, has_pixel_size, force_image=False, no_clusters=False):
    cs = {}
    for name in containers_of(kind):
        if name not in chosen and not (force_image and name == "image"):
            cs[name] = None
            continue
        seed = rng.randrange(2 ** 31)
        if name == "photon":
            if rng.random() < 0.5:
                cs[name] = {"nd": 2, "dtype": rng.choice(FLOATS), "seed": seed}
            else:
                cs[name] = {"nd": 3, "dtype": rng.choice(FLOATS), "nw": rng.randint(1, 4), "seed": seed}
                cs[name]["layout"] = rand_axis_layout(seed, cube=True)
        elif name == "charge":
            if has_pixel_size and not no_clusters and rng.random() < 0.45:
                cs[name] = {"mode": "clusters", "n": rng.randint(1, 6), "ptype": rng.choice(["e", "h"]),
                            "moved": rng.random() < 0.7, "seed": seed}
            else:
                cs[name] = {"mode": "array", "seed": seed}
        elif name == "pixel":
            cs[name] = {"dtype": rng.choice(FLOATS), "seed": seed, "zeros": rng.random() < 0.15}
        elif name in ("signal", "phase"):
            cs[name] = {"dtype": rng.choice(FLOATS), "seed": seed}
        elif name == "image":
            cs[name] = {"dtype": rng.choice(UINTS), "seed": seed}
        elif name == "scene":
            cs[name] = {"n": rng.choice([1, 1, 2]), "nref": rng.randint(1, 4), "nw": rng.randint(2, 5),
                        "dtype": rng.choice(["float64", "float64", "float32"]), "attrs": rng.random() < 0.6,
                        "seed": seed}
            cs[name]["layout"] = rand_axis_layout(seed, cube=False)
        elif name == "data":
            paths = rng.sample(["/", "/statistics", "/statistics/pixel", "/mean_variance/image", "/snr",
                                "/obs/partial/deep"], rng.randint(1, 3))
            nodes = []
            for j, path in enumerate(paths):
                nodes.append({"path": path, "nvar": rng.randint(1, 3), "sa": rng.randint(1, 4), "sb": rng.randint(1, 3),
                              "dtype": rng.choice(["float64", "float64", "float64", "float32", "int64"]),
                              "coords": rng.random() < 0.5, "attrs": rng.random() < 0.5, "nan": rng.random() < 0.3,
                              "tag": j})
            cs[name] = {"nodes": nodes, "seed": seed}
            groups = rand_bare_groups(seed, paths)
            if groups:
                cs[name]["groups"] = groups
    return cs


BARE_PATHS = ("/", "/statistics", "/regions", "/regions/inner", "/obs", "/obs/partial", "/readout/times", "/snr",
              "/mean_variance", "/axes")


def rand_bare_groups(seed, var_paths):
    """Groups of the processed-data tree that hold NO data variable: only coordinates (an axis defined once
    and inherited by the sub-groups, or a leaf that only defines an axis) and/or only attributes (root included).
    Drawn from a generator of their own (derived from the container seed) so that the other draws of a case do
    not depend on this class."""
    import random
    r = random.Random(int(seed) * 2654435761 % (2 ** 32) + 17)
    if r.random() < 0.45:
        return []
    free = [p for p in BARE_PATHS if p not in var_paths]
    out = []
    for k, path in enumerate(r.sample(free, r.randint(1, 3))):
        what = r.choice(["coords", "coords", "coords+attrs", "attrs"])
        g = {"path": path, "what": what, "how": r.choice(["assign", "setter"]), "tag": 50 + k}
        if what != "attrs":
            g.update({"ncoord": r.randint(1, 2), "sa": r.randint(1, 4), "sb": r.randint(1, 3),
                      "float_axis": r.random() < 0.5, "coord_attrs": r.random() < 0.4,
                      # sub-groups whose variables live on the axes defined by this group (inherited coordinates)
                      "children": r.choice([0, 0, 1, 2]) if path != "/" else r.choice([0, 1])})
        out.append(g)
    return out


AXIS_ORDERS = ("increasing", "decreasing", "unordered")


def rand_axis_layout(seed, cube):
    """Layout of the labelled axes of a container that is a labelled array (multi-wavelength photon cube, scene
    source): the containers accept ANY labels along 'wavelength', so the labels are not always an increasing
    float axis (a cube ordered by wavenumber is decreasing, one assembled band by band has no order; labels may
    be integers).  A cube may also label its 'y'/'x' axes and carry attributes.  Drawn from a generator of its
    own (derived from the container seed) so that the other draws of a case do not depend on this class."""
    import random
    r = random.Random(int(seed) * 40503 % (2 ** 32) + 91)
    lay = {"order": r.choice(AXIS_ORDERS), "int_axis": r.random() < 0.25}
    if cube:
        lay.update({"yx": r.choice(["none", "none", "both", "y", "x"]), "yx_order": r.choice(AXIS_ORDERS[:2]),
                    "attrs": r.random() < 0.4, "axis_attrs": r.random() < 0.4})
    return lay


def order_axis(g, axis, lay):
    """Increasing axis values -> the values in the order asked by the layout (*lay* may be None: unchanged)."""
    axis = np.asarray(axis)
    if lay and lay.get("int_axis"):
        axis = np.cumsum(np.maximum(np.diff(np.floor(axis), prepend=0.0), 1.0)).astype("int64")   # still distinct
    order = (lay or {}).get("order", "increasing")
    if order == "decreasing":
        return axis[::-1].copy()
    if order == "unordered":
        perm = g.permutation(len(axis))
        if len(axis) >= 3 and (np.all(np.diff(perm) > 0) or np.all(np.diff(perm) < 0)):
            perm[[0, 1]] = perm[[1, 0]]
        return axis[perm]
    return axis


def axis_order_class(values):
    v = np.asarray(values, dtype="float64")
    if v.size < 2:
        return "single"
    dv = np.diff(v)
    return "increasing" if np.all(dv > 0) else ("decreasing" if np.all(dv < 0) else "unordered")


def variants_sig(cs):
    out = []
    for name, c in sorted(cs.items()):
        if c is None:
            continue
        out.append((name, c.get("nd"), c.get("mode"), c.get("dtype"), c.get("n"), c.get("zeros"),
                    (c.get("layout") or {}).get("order"),
                    len(c.get("nodes", [])), sorted(g["what"] for g in c.get("groups", []))))
    return out


# ====================================================================== building real objects
def make_detector(spec):
    from pyxel.detectors import (APD, CCD, CMOS, MKID, APDCharacteristics, APDGeometry, CCDGeometry,
                                 Characteristics, CMOSGeometry, Environment, MKIDGeometry)
    from pyxel.detectors.environment import WavelengthHandling
    kind = spec["kind"]
    geo_cls = {"ccd": CCDGeometry, "cmos": CMOSGeometry, "mkid": MKIDGeometry, "apd": APDGeometry}[kind]
    det_cls = {"ccd": CCD, "cmos": CMOS, "mkid": MKID, "apd": APD}[kind]
    ch = dict(spec["characteristics"])
    if ch.get("adc_voltage_range") is not None:
        ch["adc_voltage_range"] = tuple(ch["adc_voltage_range"])
    env = dict(spec["environment"])
    if isinstance(env.get("wavelength"), dict):
        env["wavelength"] = WavelengthHandling(**env["wavelength"])
    char = APDCharacteristics(**ch) if kind == "apd" else Characteristics(**ch)
    return det_cls(geometry=geo_cls(**spec["geometry"]), environment=Environment(**env), characteristics=char)


def apply_setters(det, setters):
    for key, val in setters:
        part, name = key.split(".")
        obj = getattr(det, part)
        if isinstance(val, str) and val.startswith("cv+"):
            val = obj.common_voltage + float(val[3:])
        elif isinstance(val, str) and val.startswith("prv-"):
            val = obj.pixel_reset_voltage - float(val[4:])
        elif isinstance(val, list):
            val = tuple(val)
        setattr(obj, name, val)


def _gen(seed, tag):
    return np.random.default_rng([int(seed), int(tag)])


def float_array(g, shape, dtype, signed=False, specials=False):
    scale = 10.0 ** int(g.integers(-3, 4 if dtype == "float16" else 7))
    arr = g.random(shape) * scale
    if signed:
        arr = arr - 0.4 * scale
    arr = arr.astype(dtype)
    if arr.size >= 2:
        flat = arr.reshape(-1)
        flat[int(g.integers(0, arr.size))] = 0.0
        if specials and g.random() < 0.3:
            flat[int(g.integers(0, arr.size))] = np.inf
    return arr


def uint_array(g, shape, dtype):
    info = np.iinfo(dtype)
    arr = g.integers(0, info.max, size=shape, endpoint=True, dtype=np.dtype(dtype))
    if arr.size >= 2:
        arr.reshape(-1)[int(g.integers(0, arr.size))] = info.max
    return arr


def make_source(g, c):
    import xarray as xr
    nref, nw, dt = c["nref"], c["nw"], c["dtype"]
    wl = 200.0 + np.cumsum(g.random(nw) * 100.0 + 0.5)
    ds = xr.Dataset(
        {"x": xr.DataArray((g.random(nref) * 400.0 - 200.0), dims="ref"),
         "y": xr.DataArray((g.random(nref) * 400.0 - 200.0), dims="ref"),
         "weight": xr.DataArray(g.random(nref) * 20.0, dims="ref"),
         "flux": xr.DataArray((g.random((nref, nw)) * 2.0).astype(dt), dims=["ref", "wavelength"])},
        coords={"ref": np.arange(nref), "wavelength": order_axis(g, wl, c.get("layout"))})
    if c["attrs"]:
        ds.attrs.update({"right_ascension": float(g.random() * 360.0), "declination": float(g.random() * 90.0),
                         "fov_radius": float(g.random())})
        ds["flux"].attrs["units"] = "ph / (cm2 nm s)"
        ds["wavelength"].attrs["units"] = "nm"
    return ds


def apply_containers(det, cs):
    """Initialise the containers named by *cs* through the public container API."""
    import xarray as xr
    rows, cols = det.geometry.row, det.geometry.col
    shape = (rows, cols)
    for name, c in cs.items():
        if c is None:
            continue
        seed = c["seed"]
        if name == "photon":
            if c["nd"] == 2:
                det.photon.array = float_array(_gen(seed, 1), shape, c["dtype"])
            else:
                g = _gen(seed, 2)
                wl = 300.0 + np.cumsum(g.random(c["nw"]) * 80.0 + 1.0)
                values = float_array(g, (c["nw"], rows, cols), c["dtype"])
                lay = c.get("layout") or {}
                ga = _gen(seed, 20)
                coords = {"wavelength": xr.Variable(("wavelength",), order_axis(ga, wl, lay),
                                                    attrs={"units": "nm"} if lay.get("axis_attrs") else {})}
                for dim, size in (("y", rows), ("x", cols)):
                    if lay.get("yx") in ("both", dim):
                        ticks = np.arange(size) + int(ga.integers(0, 100))
                        coords[dim] = ticks[::-1].copy() if lay.get("yx_order") == "decreasing" else ticks
                det.photon.array_3d = xr.DataArray(values, dims=["wavelength", "y", "x"], coords=coords,
                                                   attrs={"units": "ph/nm", "scale": 0.5} if lay.get("attrs") else {})
        elif name == "charge":
            g = _gen(seed, 3)
            if c["mode"] == "array":
                det.charge.add_charge_array(float_array(g, shape, "float64"))
            else:
                n = c["n"]
                pv, ph = det.geometry.pixel_vert_size, det.geometry.pixel_horz_size
                ver = (g.random(n) * 1.3 - 0.15) * rows * pv     # some clusters lie outside the sensitive area
                hor = (g.random(n) * 1.3 - 0.15) * cols * ph
                det.charge.add_charge(
                    particle_type=c["ptype"], particles_per_cluster=g.random(n) * 1000.0 + 1.0,
                    init_energy=g.random(n) * 5000.0, init_ver_position=ver, init_hor_position=hor,
                    init_z_position=-g.random(n) * 10.0, init_ver_velocity=g.random(n) - 0.5,
                    init_hor_velocity=g.random(n) - 0.5, init_z_velocity=g.random(n) - 0.5)
                if c["moved"]:
                    det.charge.set_frame_values("position_ver", list((g.random(n) * 1.2 - 0.1) * rows * pv))
                    det.charge.set_frame_values("position_hor", list((g.random(n) * 1.2 - 0.1) * cols * ph))
                    det.charge.set_frame_values("position_z", list(-g.random(n) * 20.0))
                    det.charge.set_frame_values("energy", list(g.random(n) * 100.0))
        elif name == "pixel":
            arr = np.zeros(shape, dtype=c["dtype"]) if c.get("zeros") else float_array(_gen(seed, 4), shape, c["dtype"])
            det.pixel.array = arr
        elif name == "signal":
            det.signal.array = float_array(_gen(seed, 5), shape, c["dtype"], signed=True, specials=True)
        elif name == "image":
            det.image.array = uint_array(_gen(seed, 6), shape, c["dtype"])
        elif name == "phase":
            det.phase.array = float_array(_gen(seed, 7), shape, c["dtype"], signed=True)
        elif name == "scene":
            for k in range(c["n"]):
                det.scene.add_source(make_source(_gen(seed, 10 + k), c))
        elif name == "data":
            g = _gen(seed, 8)
            for node in c["nodes"]:
                t = node["tag"]
                da, db = f"n{seed % 9973}_{t}_a", f"n{seed % 9973}_{t}_b"     # dimension names unique per node and spec
                sa, sb = node["sa"], node["sb"]
                prefix = "" if node["path"] == "/" else node["path"]
                for v in range(node["nvar"]):
                    if v == 0:
                        vals = g.random(sa) * 100.0
                        dims = [da]
                    elif v == 1:
                        vals = g.random((sa, sb)) * 1.0e4 - 5.0e3
                        dims = [da, db]
                    else:
                        vals = g.random(()) * 10.0
                        dims = []
                    if node["dtype"] == "int64":
                        vals = np.asarray(vals * 1000).astype("int64")
                    else:
                        vals = np.asarray(vals).astype(node["dtype"])
                        if node["nan"] and vals.ndim and node["dtype"] == "float64":
                            vals.reshape(-1)[0] = np.nan
                    arr = xr.DataArray(vals, dims=dims)
                    if node["coords"] and v < 2:
                        arr = arr.assign_coords({da: (np.arange(sa) * 0.5 + 1.0) if t % 2 else np.arange(sa) + 10})
                    if node["attrs"]:
                        arr.attrs.update({"units": "electron", "n": 3 + v, "scale": 0.25})
                    det.data[f"{prefix}/var{v}"] = arr
                if node["attrs"] and node["path"] != "/":
                    det.data[node["path"]].attrs["note"] = f"node {t}"
            apply_bare_groups(det.data, c.get("groups", []), seed)


def apply_bare_groups(tree, groups, seed):
    """Add the groups without data variable (see rand_bare_groups) through xarray's public DataTree API."""
    import xarray as xr
    g = _gen(seed, 9)
    for grp in sorted(groups, key=lambda q: (q["path"].count("/") if q["path"] != "/" else 0, q["path"])):
        path, t = grp["path"], grp["tag"]
        da, db = f"g{seed % 9973}_{t}_a", f"g{seed % 9973}_{t}_b"
        coords, attrs = {}, {}
        if grp["what"] != "attrs":
            sa, sb = grp["sa"], grp["sb"]
            axis = (np.arange(sa) * 0.25 + float(g.random())) if grp["float_axis"] else np.arange(sa) + int(g.integers(0, 50))
            coords[da] = xr.Variable((da,), axis, attrs={"units": "um"} if grp["coord_attrs"] else {})
            if grp["ncoord"] == 2:
                coords[db] = xr.Variable((db,), np.arange(sb) * 2 + 1)
        if grp["what"] != "coords":
            attrs = {"description": f"group {t}", "level": int(t), "factor": 1.5}
        if path == "/":
            node, exists = tree, True
        else:
            try:
                node, exists = tree[path], True
                if not isinstance(node, xr.DataTree):
                    raise KeyError(path)
            except KeyError:
                node, exists = None, False
        if not exists and grp["how"] == "assign":
            tree[path] = xr.DataTree(xr.Dataset(coords=coords, attrs=attrs))
        else:
            if not exists:
                tree[path] = xr.DataTree()
            node = tree if path == "/" else tree[path]
            for key, var in coords.items():
                node.coords[key] = var
            node.attrs.update(attrs)
        prefix = "" if path == "/" else path
        for k in range(grp.get("children", 0)):
            dims = [da, db] if (grp["ncoord"] == 2 and (k or g.random() < 0.5)) else [da]
            shape = tuple(grp["sa"] if d == da else grp["sb"] for d in dims)
            tree[f"{prefix}/sub{k}/mask"] = xr.DataArray(g.random(shape) * 10.0 - 2.0, dims=dims)
            if g.random() < 0.5:
                tree[f"{prefix}/sub{k}/count"] = xr.DataArray(g.integers(0, 1000, size=shape[:1]), dims=dims[:1])


# ====================================================================== extraction (public API only)
GEO_FIELDS = ("row", "col", "total_thickness", "pixel_vert_size", "pixel_horz_size", "pixel_scale")
CHAR_FIELDS = ("quantum_efficiency", "charge_to_volt_conversion", "pre_amplification", "full_well_capacity",
               "adc_bit_resolution", "adc_voltage_range")
APD_FIELDS = ("roic_gain", "quantum_efficiency", "full_well_capacity", "adc_bit_resolution", "adc_voltage_range",
              "avalanche_gain", "pixel_reset_voltage", "common_voltage")
APD_DERIVED = ("avalanche_bias", "node_capacitance", "charge_to_volt_conversion")


def _get(obj, name):
    try:
        return _norm(getattr(obj, name))
    except ValueError:
        return UNSET


def _norm(v):
    if isinstance(v, np.generic):
        return v.item()
    if isinstance(v, np.ndarray):
        return tuple(_norm(x) for x in v.tolist())
    if isinstance(v, (list, tuple)):
        return tuple(_norm(x) for x in v)
    if isinstance(v, dict):
        return {str(k): _norm(x) for k, x in v.items()}
    if hasattr(v, "cut_on") and hasattr(v, "cut_off"):
        return {"cut_on": _norm(v.cut_on), "cut_off": _norm(v.cut_off), "resolution": _norm(v.resolution)}
    return v


def plain_var(var):
    return {"dims": tuple(str(d) for d in var.dims), "values": np.array(var.values, copy=True),
            "attrs": _norm(dict(var.attrs))}


def plain_dataarray(da):
    out = plain_var(da)
    out["coords"] = {str(k): plain_var(v) for k, v in da.coords.items()}
    return out


def plain_tree(tree):
    out = {}
    base = tree.path.rstrip("/")
    for node in tree.subtree:
        ds = node.to_dataset(inherit=False)
        path = node.path[len(base):] or "/"
        out[path] = {"vars": {str(k): plain_var(v) for k, v in ds.data_vars.items()},
                     "coords": {str(k): plain_var(v) for k, v in ds.coords.items()},
                     "attrs": _norm(dict(ds.attrs))}
    # A coordinate that a group holds itself although an ancestor group (inside this tree) defines the very same
    # coordinate is the same tree as the one where the group inherits it (xarray removes such duplicates whenever
    # a tree is built, but keeps them e.g. after node.coords[...] = ...): normal form = inherited.
    for path in sorted(out, key=len, reverse=True):
        if path == "/":
            continue
        parts = path.strip("/").split("/")
        ancestors = ["/"] + ["/" + "/".join(parts[:k]) for k in range(1, len(parts))]
        for name in list(out[path]["coords"]):
            mine = out[path]["coords"][name]
            for anc in ancestors:
                theirs = out.get(anc, {"coords": {}})["coords"].get(name)
                if theirs is not None and same_plain_var(mine, theirs):
                    del out[path]["coords"][name]
                    break
    return out


def same_plain_var(a, b):
    va, vb = a["values"], b["values"]
    return (a["dims"] == b["dims"] and a["attrs"] == b["attrs"] and va.dtype == vb.dtype and va.shape == vb.shape
            and bool(np.array_equal(va, vb, equal_nan=va.dtype.kind == "f")))


def bucket_array(obj):
    try:
        return np.array(obj.array, copy=True)
    except ValueError:
        return None


def extract_containers(det):
    out = {}
    nd = det.photon.ndim
    if nd == 0:
        out["photon"] = {"state": "empty"}
    elif nd == 2:
        out["photon"] = {"state": "2d", "array": np.array(det.photon.array, copy=True)}
    else:
        out["photon"] = {"state": "3d", "array": plain_dataarray(det.photon.array_3d)}
    frame = det.charge.frame
    out["charge"] = {"array": np.array(det.charge.array, copy=True),
                     "columns": [str(c) for c in frame.columns], "rows": int(len(frame)),
                     "values": {str(c): np.array(frame[c].values, copy=True) for c in frame.columns},
                     "index": np.array(frame.index)}
    for name in ("pixel", "signal", "image"):
        out[name] = bucket_array(getattr(det, name))
    if hasattr(det, "phase"):
        out["phase"] = bucket_array(det.phase)
    out["scene"] = plain_tree(det.scene.data)
    out["data"] = plain_tree(det.data)
    return out


def extract_properties(det):
    geo, env, ch = det.geometry, det.environment, det.characteristics
    out = {"type": type(det).__name__, "geometry_type": type(geo).__name__,
           "characteristics_type": type(ch).__name__,
           "geometry": {f: _get(geo, f) for f in GEO_FIELDS},
           "environment": {"temperature": _get(env, "temperature"), "wavelength": _get(env, "wavelength")}}
    if type(det).__name__ == "APD":
        out["characteristics"] = {f: _get(ch, f) for f in APD_FIELDS + APD_DERIVED}
    else:
        out["characteristics"] = {f: _get(ch, f) for f in CHAR_FIELDS}
    return out


def extract(det):
    out = extract_properties(det)
    out["containers"] = extract_containers(det)
    return out


# ====================================================================== comparator (no pyxel inside)
class Diff:
    def __init__(self):
        self.items = []      # (where, what, detail)
        self.notes = []      # tolerated normalisations (where, text)
        self.fields = 0
        self.containers = 0

    def add(self, where, what, detail=""):
        self.items.append((where, what, str(detail)[:300]))


def values_equal(a, b):
    a, b = np.asarray(a), np.asarray(b)
    if a.shape != b.shape:
        return False
    if a.dtype.kind in "iub" and b.dtype.kind in "iub":
        return bool(np.array_equal(a.astype(object), b.astype(object))) if a.dtype != b.dtype \
            else bool(np.array_equal(a, b))
    if a.dtype.kind in "iubf" and b.dtype.kind in "iubf":
        common = np.result_type(a.dtype, b.dtype)
        return bool(np.array_equal(a.astype(common), b.astype(common), equal_nan=True))
    return bool(np.array_equal(a, b))


def widening(old, new):
    """dtype change that keeps kind (or unsigned->signed) and loses nothing."""
    old, new = np.dtype(old), np.dtype(new)
    if old.kind == new.kind and old.kind in "iuf" and new.itemsize > old.itemsize:
        return True
    return old.kind == "u" and new.kind == "i" and new.itemsize > old.itemsize


def cmp_array(d, where, a, b, strict_dtype):
    if a.shape != b.shape:
        d.add(where, "shape", f"{a.shape} -> {b.shape}")
        return
    if a.dtype != b.dtype:
        if not strict_dtype and (widening(a.dtype, b.dtype) or (a.dtype.kind in "US" and b.dtype.kind in "US")):
            d.notes.append((where, f"{a.dtype}->{b.dtype}"))
        else:
            d.add(where, "dtype", f"{a.dtype} -> {b.dtype}")
            return
    if not values_equal(a, b):
        bad = int(np.sum(~np.isclose(a.astype("float64"), b.astype("float64"), rtol=0, atol=0, equal_nan=True))) \
            if a.dtype.kind in "iubf" and b.dtype.kind in "iubf" else -1
        d.add(where, "values", f"{bad} of {a.size} elements differ; first original={a.reshape(-1)[:4].tolist()} "
                               f"reloaded={b.reshape(-1)[:4].tolist()}")


def cmp_bucket(d, where, a, b, strict_dtype=True):
    d.containers += 1
    if (a is None) != (b is None):
        d.add(where, "emptiness", f"original {'empty' if a is None else 'initialised'} -> "
                                  f"{'empty' if b is None else 'initialised'}")
        return
    if a is not None:
        cmp_array(d, where, a, b, strict_dtype)


def cmp_var(d, where, a, b):
    if a["dims"] != b["dims"]:
        d.add(where, "dims", f"{a['dims']} -> {b['dims']}")
        return
    cmp_array(d, where, a["values"], b["values"], strict_dtype=False)
    if a["attrs"] != b["attrs"]:
        d.add(where, "attrs", f"{a['attrs']} -> {b['attrs']}")


def cmp_named_vars(d, where, a, b, what):
    if set(a) != set(b):
        d.add(where, what, f"only original: {sorted(set(a) - set(b))} only reloaded: {sorted(set(b) - set(a))}")
        return
    for k in a:
        cmp_var(d, where, a[k], b[k])


def cmp_tree(d, where, a, b):
    d.containers += 1
    if set(a) != set(b):
        d.add(where, "nodes", f"only original: {sorted(set(a) - set(b))} only reloaded: {sorted(set(b) - set(a))}")
        return
    for path in a:
        na, nb = a[path], b[path]
        cmp_named_vars(d, where, na["vars"], nb["vars"], "variables")
        cmp_named_vars(d, where, na["coords"], nb["coords"], "coordinates")
        if na["attrs"] != nb["attrs"]:
            d.add(where, "attrs", f"{path}: {na['attrs']} -> {nb['attrs']}")


def cmp_photon(d, a, b):
    d.containers += 1
    if a["state"] != b["state"]:
        d.add("photon", "state", f"{a['state']} -> {b['state']}")
        return
    if a["state"] == "2d":
        cmp_array(d, "photon", a["array"], b["array"], strict_dtype=True)
    elif a["state"] == "3d":
        cmp_var(d, "photon", a["array"], b["array"])
        cmp_named_vars(d, "photon", a["array"]["coords"], b["array"]["coords"], "coordinates")


def cmp_charge(d, a, b):
    d.containers += 2
    cmp_array(d, "charge.array", a["array"], b["array"], strict_dtype=True)
    if a["columns"] != b["columns"]:
        d.add("charge.frame", "columns", f"{a['columns']} -> {b['columns']}")
        return
    if a["rows"] != b["rows"]:
        d.add("charge.frame", "rows", f"{a['rows']} -> {b['rows']}")
        return
    for col in a["columns"]:
        va, vb = a["values"][col], b["values"][col]
        numeric = va.dtype.kind in "iubf" and vb.dtype.kind in "iubf"
        if a["rows"] and not (values_equal(va, vb) if numeric else np.array_equal(va, vb)):
            d.add("charge.frame", "values", f"column {col}: {va.tolist()[:4]} -> {vb.tolist()[:4]}")
        elif a["rows"] and va.dtype != vb.dtype:
            d.notes.append(("charge.frame", f"column {col} {va.dtype}->{vb.dtype}"))
    if a["rows"] and not np.array_equal(a["index"], b["index"]):
        d.notes.append(("charge.frame", "row index renumbered"))


def cmp_containers(d, a, b):
    cmp_photon(d, a["photon"], b["photon"])
    cmp_charge(d, a["charge"], b["charge"])
    for name in ("pixel", "signal", "image", "phase"):
        if name in a or name in b:
            if (name in a) != (name in b):
                d.add(name, "missing", "container exists on one side only")
                continue
            cmp_bucket(d, name, a[name], b[name])
    cmp_tree(d, "scene", a["scene"], b["scene"])
    cmp_tree(d, "data", a["data"], b["data"])


def close(a, b, rel):
    if isinstance(a, (int, float)) and isinstance(b, (int, float)) and not isinstance(a, bool):
        return a == b or abs(a - b) <= rel * max(abs(a), abs(b))
    return a == b


def cmp_properties(d, a, b):
    for key in ("type", "geometry_type", "characteristics_type"):
        d.fields += 1
        if a[key] != b[key]:
            d.add(key, "value", f"{a[key]} -> {b[key]}")
    for part in ("geometry", "environment", "characteristics"):
        for name in a[part]:
            d.fields += 1
            va, vb = a[part][name], b[part].get(name, "<missing>")
            ok = close(va, vb, 1e-12) if name in APD_DERIVED else va == vb
            if not ok:
                d.add(f"{part}.{name}", "value", f"{va!r} -> {vb!r}")


def diff_detectors(a, b):
    d = Diff()
    cmp_properties(d, a, b)
    cmp_containers(d, a["containers"], b["containers"])
    return d


# ====================================================================== models used by generated pipelines
FULL_EVENTS: list = []


def full_probe(detector, tag: str = "") -> None:
    """Deep probe: records the state of every container (never touches the detector)."""
    probes.keep(detector)
    FULL_EVENTS.append({"tag": tag, "model": detector.current_running_model_name,
                        "step": int(detector.pipeline_count), "det": id(detector),
                        "state": extract_containers(detector)})


def fill(detector, cs: dict) -> None:
    """Writer model: initialises the containers named by the container spec."""
    apply_containers(detector, copy.deepcopy(dict(cs)))


def bump_op(arr):
    arr = np.asarray(arr)
    if arr.dtype.kind == "u":
        return (arr // 2 + 3).astype(arr.dtype)
    return (arr * 0.5 + 1.0).astype(arr.dtype)


def bump(detector, bucket: str) -> None:
    """A 'later model': transforms one bucket in place of what it finds there."""
    obj = getattr(detector, bucket)
    obj.array = bump_op(obj.array)


# ====================================================================== execution
class Ctx:
    def __init__(self, rec):
        import pyxel.models.util as util
        from pyxel.detectors import Detector
        self.mon = CallMonitor()
        self.mon.watch("load_detector", util.load_detector)
        self.mon.watch("save_detector", util.save_detector)
        self.mon.watch("Detector.load", Detector.load.__func__)
        self.mon.watch("Detector.save", Detector.save)
        for opt in ("to_asdf", "to_hdf5", "to_dict"):
            if hasattr(Detector, opt):
                self.mon.watch(f"Detector.{opt}", getattr(Detector, opt))
        for opt in ("from_asdf", "from_hdf5", "from_dict"):
            if hasattr(Detector, opt):
                self.mon.watch(f"Detector.{opt}", getattr(Detector, opt).__func__)
        self.mon.start()
        self.formats = ["asdf"]
        try:
            import asdf  # noqa: F401
        except ImportError:
            self.formats = []
            rec.observe("skipped", "asdf: asdf not installed")
        try:
            import h5py  # noqa: F401
            self.formats += ["h5", "hdf5"]
        except ImportError:
            rec.observe("skipped", "hdf5: h5py not installed")
        self.tmp = rec.tmp

    def take(self, rec):
        counts = dict(self.mon.counts)
        self.mon.reset()
        for label, n in counts.items():
            rec.count("m2_" + label.replace(".", "_").lower() + "_calls", n)
        return counts


def report(rec, d, mech_prefix, case, index, detail_prefix=""):
    seen = set()
    for where, what, detail in d.items:
        key = (where, what)
        if key in seen:
            continue
        seen.add(key)
        rec.violation(f"{mech_prefix}:{where}:{what}", f"{detail_prefix}{where} {what}: {detail}", case, index)
    for where, text in d.notes:
        rec.count("normalisations_tolerated")
        rec.observe("normalisations", f"{where}: {text}" if "column" not in text else f"{where}: column dtype")
    rec.count("property_fields_compared", d.fields)
    rec.count("containers_compared", d.containers)


def save_with(det, how, path):
    if how == "save":
        det.save(path)
    elif how == "to_asdf":
        det.to_asdf(path)
    elif how == "to_hdf5":
        det.to_hdf5(path)
    else:
        raise AssertionError(how)


def load_with(det, how, path, fmt):
    from pyxel.detectors import Detector
    cls = type(det) if how.startswith("cls") else Detector
    if how.endswith("load"):
        return cls.load(path)
    return cls.from_asdf(path) if fmt == "asdf" else cls.from_hdf5(path)


def lib_equal(a, b):
    try:
        return bool(a == b), bool(b == a)
    except Exception as exc:  # noqa: BLE001
        return f"raised {type(exc).__name__}: {exc}"[:200], None


def roundtrip_case(rec, ctx, i, spec):
    rng = rec.rng(i)
    gi = spec["shard"] * spec["n_rt"] + i
    kind = KINDS[gi % 4]
    names = containers_of(kind)
    # odd multiplier: a bijection on the 2**n subsets that flips the high bits early (full enumeration in thorough)
    mask = ((gi // 4 + 37 * spec["seed"]) * (157 if len(names) == 8 else 77)) % (1 << len(names))
    chosen = [n for bit, n in enumerate(names) if (mask >> bit) & 1]
    rows, cols = rng.randint(1, 6), rng.randint(1, 6)
    if rows == cols and rng.random() < 0.8:
        cols = rows % 6 + 1
    dspec = rand_detector_spec(rng, kind, rows, cols, need_pixel_size=rng.random() < 0.6)
    has_ps = "pixel_vert_size" in dspec["geometry"] and "pixel_horz_size" in dspec["geometry"]
    cs = rand_containers(rng, kind, chosen, has_ps)
    setters = rand_setters(rng, dspec) if rng.random() < 0.25 else []
    if not ctx.formats:
        return
    fmt = rng.choice(ctx.formats)
    how_save = rng.choice(["save", "save", "to_asdf" if fmt == "asdf" else "to_hdf5"])
    how_load = rng.choice(["Detector.load", "Detector.load", "Detector.from_file", "cls.load", "cls.from_file"])
    as_path = rng.random() < 0.5
    case = {"part": "roundtrip", "detector": dspec, "containers": cs, "setters": setters, "format": fmt,
            "save": how_save, "load": how_load, "pathlib": as_path, "mask": mask}
    sig = ("rt", kind, mask, variants_sig(cs), fmt, how_save, how_load, bool(setters))
    nontrivial = bool(chosen) or len(dspec["geometry"]) > 2 or bool(dspec["environment"])
    mech = f"C18:roundtrip:{fmt}:{kind}"

    original = make_detector(dspec)
    apply_setters(original, setters)
    apply_containers(original, cs)
    before = extract(original)
    fname = os.path.join(ctx.tmp, f"rt_{i}.{fmt}")
    path = pathlib.Path(fname) if as_path else fname
    try:
        try:
            save_with(original, how_save, path)
        except Exception as exc:  # noqa: BLE001
            rec.violation(f"{mech}:save:exception", f"{type(exc).__name__}: {exc} :: {traceback.format_exc()[-700:]}",
                          case, i)
            rec.case(sig, nontrivial)
            return
        try:
            loaded = load_with(original, how_load, path, fmt)
        except Exception as exc:  # noqa: BLE001
            rec.violation(f"{mech}:load:exception", f"{type(exc).__name__}: {exc} :: {traceback.format_exc()[-700:]}",
                          case, i)
            rec.case(sig, nontrivial)
            return
    finally:
        ctx.take(rec)
        try:
            os.remove(fname)
        except OSError:
            pass
    rec.count("roundtrips")
    after = extract(loaded)
    d = diff_detectors(before, after)
    report(rec, d, mech, case, i)
    # the original must still be what was saved (saving is not allowed to consume it); sampled, because reading a
    # clustered charge re-compiles a numba kernel every time
    d2 = Diff()
    if rng.random() < 0.4:
        d2 = diff_detectors(before, extract(original))
        rec.count("originals_rechecked_after_save")
        if d2.items:
            report(rec, d2, mech + ":original-changed-by-save", case, i)
    # secondary witness: the library's own ==
    eq = lib_equal(original, loaded)
    rec.count("lib_eq_evaluated")
    rec.observe("lib_eq", str(eq))
    if not d.items and not d2.items and eq != (True, True):
        # secondary witness only: never a violation by itself, but 'held' cannot be claimed either (see finalize)
        rec.count("lib_eq_sees_difference_comparator_does_not")
        rec.observe("lib_eq_disagreements", f"{kind} mask={mask} shard={spec['shard']} index={i}: {eq}")
    elif d.items and eq == (True, True):
        rec.count("lib_eq_blind_to_difference")
    rec.observe("kinds", kind)
    rec.observe("kind_mask", f"{kind}:{mask}")
    rec.observe("formats", fmt)
    rec.observe("entry_points", f"{how_save}/{how_load}")
    for name, c in cs.items():
        if c is not None:
            variant = c.get("mode") or (f"{c['nd']}d" if "nd" in c else c.get("dtype", ""))
            rec.observe("initialised", f"{kind}:{name}:{variant}")
    observe_axis_orders(rec, before["containers"], "axis_orders")
    for grp in (cs.get("data") or {}).get("groups", []):
        role = "root" if grp["path"] == "/" else ("shared-by-subgroups" if grp.get("children") else "plain")
        for what in grp["what"].split("+"):
            rec.observe("groups_without_variable", f"{what}:{role}")
        if role == "root":
            rec.observe("groups_without_variable", "any:root")
        rec.count("groups_without_variable_round_tripped")
    if setters:
        rec.count("roundtrips_with_setters")
    rec.case(sig, nontrivial, sample=case)


def observe_axis_orders(rec, state, setname):
    """Which orders of the 'wavelength' labels (and which cube layouts) the saved containers really had."""
    if state["photon"]["state"] == "3d":
        cube = state["photon"]["array"]
        wl = cube["coords"]["wavelength"]["values"]
        rec.observe(setname, f"photon3d:{axis_order_class(wl)}")
        rec.observe(setname, f"photon3d:labels:{wl.dtype.kind}")
        for dim in ("y", "x"):
            if dim in cube["coords"]:
                rec.observe(setname, f"photon3d:{dim}-labelled")
        if cube["attrs"]:
            rec.observe(setname, "photon3d:attrs")
    for path, node in state["scene"].items():
        if "wavelength" in node["coords"]:
            rec.observe(setname, f"scene:{axis_order_class(node['coords']['wavelength']['values'])}")


# ---------------------------------------------------------------------- pipelines with the load model
def expected_bucket(state, name):
    """What vf.probes.bucket_state / the result tree must show for bucket *name* of a container state."""
    if name == "photon":
        p = state["photon"]
        if p["state"] == "empty":
            return None
        return p["array"] if p["state"] == "2d" else p["array"]["values"]
    if name == "charge":
        return state["charge"]["array"]
    return state[name]


def check_trace_snapshot(rec, ev, state, mech, case, index):
    snap = ev.get("buckets")
    if snap is None:
        rec.violation(f"{mech}:trace:no-snapshot", f"probe {ev['model']} recorded no snapshot", case, index)
        return
    rec.count("trace_snapshots_checked")
    d = Diff()
    for name in probes.BUCKETS:
        exp = expected_bucket(state, name)
        got = snap[name]
        cmp_bucket(d, name, exp, got, strict_dtype=not (name == "photon" and state["photon"]["state"] == "3d"))
        if name != "charge":
            if snap["public_empty"][name] is not (exp is None):
                d.add(name, "public-emptiness", f"public API says empty={snap['public_empty'][name]}, "
                                                f"file says empty={exp is None}")
    for name in ("scene", "data"):      # DataTree.is_empty looks at the root node only
        root = state[name]["/"]
        root_empty = not (root["vars"] or root["coords"] or root["attrs"])
        if root["coords"] and not (root["vars"] or root["attrs"]):
            # whether a root holding nothing but coordinates counts as 'empty' is xarray's business
            rec.count("root_emptiness_ambiguous")
            continue
        if snap[name + "_empty"] is not root_empty:
            d.add(name, "root-emptiness", f"probe saw {name}_empty={snap[name + '_empty']}, file's root empty={root_empty}")
    report(rec, d, f"{mech}:trace-after-load", case, index, detail_prefix=f"probe '{ev['model']}' step {ev['step']}: ")


def check_result_tree(rec, tree, state, n_steps, mech, case, index):
    rec.count("result_trees_checked")
    d = Diff()
    try:
        root = tree["/bucket"] if "bucket" in tree.children else tree
        ds = root.to_dataset()
        for name in probes.BUCKETS:
            d.containers += 1
            exp = expected_bucket(state, name)
            if name not in ds:
                d.add(name, "missing-in-result", "bucket absent from the result")
                continue
            var = ds[name]
            if var.sizes.get("time") != n_steps:
                d.add(name, "result-time-axis", f"sizes {dict(var.sizes)} for {n_steps} readouts")
                continue
            var = var.transpose("time", ...)
            if exp is None:
                if "y" in var.dims or not bool(np.all(np.isnan(np.asarray(var.values, dtype="float64")))):
                    d.add(name, "result-emptiness", f"file's bucket is empty, result has dims {var.dims}")
                continue
            want_dims = ("time", "wavelength", "y", "x") if exp.ndim == 3 else ("time", "y", "x")
            if tuple(var.dims) != want_dims:
                d.add(name, "result-dims", f"{var.dims} expected {want_dims}")
                continue
            for t in range(n_steps):
                got = np.asarray(var.values[t])
                want = exp
                if n_steps > 1 and exp.dtype.kind in "iu":
                    # the multi-readout result is assembled through a float64 merge (not this property's subject)
                    got, want = got.astype("float64"), exp.astype("float64")
                if got.shape != want.shape or not values_equal(want, got):
                    d.add(name, "result-values", f"readout {t}: result {got.reshape(-1)[:4].tolist()} file "
                                                 f"{exp.reshape(-1)[:4].tolist()}")
                    break
            if name == "image" and var.dtype != exp.dtype:
                d.add(name, "result-dtype", f"{exp.dtype} -> {var.dtype}")
        for name in ("scene", "data"):
            if name not in tree.children:
                d.add(name, "missing-in-result", "node absent from the result")
                continue
            cmp_tree(d, name, state[name], plain_tree(tree[f"/{name}"]))
    except Exception as exc:  # noqa: BLE001
        d.add("result", "unreadable", f"{type(exc).__name__}: {exc} :: {traceback.format_exc()[-500:]}")
    report(rec, d, f"{mech}:result", case, index)


def layout_sequence(rng, before, load, after, g_load):
    """Assign canonical group indices: items before the load get groups <= g_load, after >= g_load."""
    gb = sorted(rng.randint(0, g_load) for _ in before)
    ga = sorted(rng.randint(g_load, 9) for _ in after)
    seq = list(zip(gb, before)) + [(g_load, load)] + list(zip(ga, after))
    pspec: dict = {}
    for g, model in seq:
        pspec.setdefault(build.GROUPS[g], []).append(model)
    order = list(pspec)
    rng.shuffle(order)      # listing order is deliberately not canonical
    return {g: pspec[g] for g in order}


def M(name, func, **arguments):
    return {"name": name, "func": func, "arguments": arguments, "enabled": True}


def bumped_state(state, bucket):
    out = dict(state)
    if bucket == "photon":
        out["photon"] = {"state": "2d", "array": bump_op(state["photon"]["array"])}
    else:
        out[bucket] = bump_op(state[bucket])
    return out


def states_differ(a, b):
    d = Diff()
    cmp_containers(d, a, b)
    return bool(d.items)


def run_exposure(detector, pspec, times, non_destructive, inherited):
    import pyxel
    from pyxel.exposure import Exposure, Readout
    return pyxel.run_mode(mode=Exposure(readout=Readout(times=times, non_destructive=non_destructive)),
                          detector=detector, pipeline=build.make_pipeline(pspec), with_inherited_coords=inherited)


def check_after_load(rec, ctx, tree, detector, n_steps, expect_post, expect_final, post_names, final_names,
                     mech, case, index):
    """Probes named post_names must see expect_post, probes named final_names + detector + result expect_final."""
    fulls = list(FULL_EVENTS)
    for names, expect in ((post_names, expect_post), (final_names, expect_final)):
        for nm in names:
            evs = [e for e in fulls if e["model"] == nm]
            if len(evs) != n_steps:
                rec.violation(f"{mech}:probe-count", f"deep probe {nm} ran {len(evs)}x for {n_steps} readouts",
                              case, index)
            for e in evs:
                rec.count("post_load_states_checked")
                d = Diff()
                cmp_containers(d, expect, e["state"])
                report(rec, d, f"{mech}:probe-after-load", case, index,
                       detail_prefix=f"deep probe '{nm}' step {e['step']}: ")
            traces = [e for e in probes.events() if e["model"] == nm.replace("full", "trace")]
            if len(traces) != n_steps:
                rec.violation(f"{mech}:probe-count", f"trace probe {nm.replace('full', 'trace')} ran {len(traces)}x "
                                                     f"for {n_steps} readouts", case, index)
            for ev in traces:
                check_trace_snapshot(rec, ev, expect, mech, case, index)
    d = Diff()
    cmp_containers(d, expect_final, extract_containers(detector))
    report(rec, d, f"{mech}:detector-after-run", case, index)
    check_result_tree(rec, tree, expect_final, n_steps, mech, case, index)


def pipeline_case(rec, ctx, i, spec):
    rng = rec.rng(i)
    j = i - spec["n_rt"]
    kind = KINDS[(j + spec["shard"]) % 4]
    g_load = (j + 3 * spec["shard"] + spec["seed"]) % 10
    n_steps = 1 if rng.random() < 0.6 else rng.randint(2, 3)
    rows, cols = rng.randint(1, 5), rng.randint(1, 5)
    file_dspec = rand_detector_spec(rng, kind, rows, cols)
    run_dspec = rand_detector_spec(rng, kind, rows, cols, need_pixel_size=True)
    # the loaded containers stay bound to the geometry they were created with: same geometry on both sides
    file_dspec["geometry"] = copy.deepcopy(run_dspec["geometry"])
    names = containers_of(kind)
    has_ps = "pixel_vert_size" in file_dspec["geometry"] and "pixel_horz_size" in file_dspec["geometry"]
    file_cs = rand_containers(rng, kind, [n for n in names if rng.random() < 0.6], has_ps, force_image=n_steps > 1)
    if n_steps > 1 and file_cs["image"]["dtype"] == "uint64":
        # the multi-readout result is merged through float64 and cast back: 64-bit codes above 2**53 do not
        # survive that (observed on the unchanged tree; result assembly, not this property's subject)
        file_cs["image"]["dtype"] = rng.choice(UINTS[:3])
    pre_cs = rand_containers(rng, kind, [n for n in names if rng.random() < 0.5], True) if rng.random() < 0.75 else None
    fmt = rng.choice(ctx.formats)
    fname = os.path.join(ctx.tmp, f"pipe_{i}.{fmt}")
    times = sorted(float(t) for t in rng.sample(range(1, 30), n_steps))
    non_destructive = rng.random() < 0.4
    inherited = rng.random() < 0.6

    file_det = make_detector(file_dspec)
    apply_containers(file_det, file_cs)
    file_state = extract_containers(file_det)
    file_det.save(fname)
    ctx.take(rec)

    if len(file_state["scene"]) > 1:
        # a result holding a scene needs the hierarchical layout (pyxel warns about it; with a 3-D photon
        # the flat layout cannot be built at all) -- not this property's subject
        inherited = True
    bumpable = [b for b in ("pixel", "signal", "image") if file_state[b] is not None]
    if file_state["photon"]["state"] == "2d":
        bumpable.append("photon")
    bucket = rng.choice(bumpable) if bumpable and rng.random() < 0.4 else None

    before = [M("pre_trace", "vf.probes.trace", snap=True), M("pre_full", "vf.checks.c18.full_probe", tag="pre")]
    rng.shuffle(before)
    if pre_cs is not None:
        before.insert(0, M("pre_fill", "vf.checks.c18.fill", cs=pre_cs))
    load = M("the_load", "pyxel.models.load_detector", filename=fname if rng.random() < 0.7 else pathlib.Path(fname))
    after = [M("post_trace", "vf.probes.trace", snap=True), M("post_full", "vf.checks.c18.full_probe", tag="post")]
    if rng.random() < 0.5:
        after.reverse()
    final_names = []
    if bucket:
        after.append(M("bump", "vf.checks.c18.bump", bucket=bucket))
        after += [M("final_trace", "vf.probes.trace", snap=True), M("final_full", "vf.checks.c18.full_probe", tag="final")]
        final_names = ["final_full"]
    elif rng.random() < 0.5:
        after += [M("late_trace", "vf.probes.trace", snap=True), M("late_full", "vf.checks.c18.full_probe", tag="late")]
        final_names = ["late_full"]
    # names of trace probes are derived from the deep probes' names by full -> trace
    pspec = layout_sequence(rng, before, load, after, g_load)
    pos = [m["name"] for m in pspec[build.GROUPS[g_load]]].index("the_load")
    position = "only" if len(pspec[build.GROUPS[g_load]]) == 1 else \
        ("first" if pos == 0 else ("last" if pos == len(pspec[build.GROUPS[g_load]]) - 1 else "middle"))

    case = {"part": "pipeline", "file_detector": file_dspec, "file_containers": file_cs, "run_detector": run_dspec,
            "pre_containers": pre_cs, "pipeline": jsonable(pspec), "times": times, "non_destructive": non_destructive,
            "inherited": inherited, "bump": bucket, "format": fmt}
    sig = ("pipe", kind, build.GROUPS[g_load], position, n_steps, variants_sig(file_cs),
           variants_sig(pre_cs) if pre_cs else None, bucket, non_destructive)
    mech = f"C18:load_model:{kind}"
    expect_post = file_state
    expect_final = bumped_state(file_state, bucket) if bucket else file_state

    detector = make_detector(run_dspec)
    probes.reset()
    FULL_EVENTS.clear()
    try:
        tree = run_exposure(detector, pspec, times, non_destructive, inherited)
    except Exception as exc:  # noqa: BLE001
        rec.violation(f"{mech}:run:exception", f"{type(exc).__name__}: {exc} :: {traceback.format_exc()[-900:]}",
                      case, i)
        rec.case(sig, True)
        ctx.take(rec)
        return
    finally:
        try:
            os.remove(fname)
        except OSError:
            pass
    counts = ctx.take(rec)
    rec.count("pipeline_runs")
    if counts.get("load_detector", 0) != n_steps:
        rec.violation(f"{mech}:load-model-call-count",
                      f"sys.monitoring saw {counts.get('load_detector', 0)} load_detector calls for {n_steps} readouts",
                      case, i)
    pre = [e for e in FULL_EVENTS if e["model"] == "pre_full"]
    nontrivial = any(states_differ(e["state"], file_state) for e in pre)
    check_after_load(rec, ctx, tree, detector, n_steps, expect_post, expect_final, ["post_full"], final_names,
                     mech, case, i)
    observe_axis_orders(rec, file_state, "axis_orders_loaded_in_pipeline")
    rec.observe("load_groups", build.GROUPS[g_load])
    rec.observe("load_positions", position)
    rec.observe("pipeline_steps", n_steps)
    rec.observe("pipeline_kinds", kind)
    if bucket:
        rec.count("pipelines_with_later_model")
    rec.case(sig, nontrivial, sample=case)


def jsonable(pspec):
    out = copy.deepcopy(pspec)
    for models in out.values():
        for m in models:
            for k, v in m["arguments"].items():
                if isinstance(v, pathlib.Path):
                    m["arguments"][k] = str(v)
    return out


def saveload_case(rec, ctx, i, spec):
    """save_detector inside run 1; Detector.load and load_detector (run 2) must reproduce the saved state."""
    from pyxel.detectors import Detector
    rng = rec.rng(i)
    j = i - spec["n_rt"] - spec["n_pipe"]
    kind = KINDS[(j + spec["shard"]) % 4]
    g_save = (j + spec["shard"] + spec["seed"]) % 10
    g_load = rng.randint(0, 9)
    rows, cols = rng.randint(1, 5), rng.randint(1, 5)
    names = containers_of(kind)
    dspec1 = rand_detector_spec(rng, kind, rows, cols, need_pixel_size=True)
    dspec2 = rand_detector_spec(rng, kind, rows, cols, need_pixel_size=True)
    cs_a = rand_containers(rng, kind, [n for n in names if rng.random() < 0.65], True)
    cs_b = rand_containers(rng, kind, [n for n in ("pixel", "signal", "image", "charge") if rng.random() < 0.7], True,
                           no_clusters=True)
    cs_c = rand_containers(rng, kind, [n for n in names if rng.random() < 0.5], True) if rng.random() < 0.6 else None
    fmt = rng.choice(ctx.formats)
    fname = os.path.join(ctx.tmp, f"sl_{i}.{fmt}")
    mech = f"C18:save_model:{kind}"

    before = [M("fill_a", "vf.checks.c18.fill", cs=cs_a), M("at_save_full", "vf.checks.c18.full_probe", tag="at_save")]
    save = M("the_save", "pyxel.models.save_detector", filename=fname)
    after = [M("fill_b", "vf.checks.c18.fill", cs=cs_b), M("after_trace", "vf.probes.trace", snap=True)]
    pspec1 = layout_sequence(rng, before, save, after, g_save)
    before2 = ([M("fill_c", "vf.checks.c18.fill", cs=cs_c)] if cs_c else []) + \
        [M("pre_full", "vf.checks.c18.full_probe", tag="pre")]
    after2 = [M("post_trace", "vf.probes.trace", snap=True), M("post_full", "vf.checks.c18.full_probe", tag="post")]
    pspec2 = layout_sequence(rng, before2, M("the_load", "pyxel.models.load_detector", filename=fname), after2, g_load)
    case = {"part": "saveload", "detector1": dspec1, "detector2": dspec2, "cs_a": cs_a, "cs_b": cs_b, "cs_c": cs_c,
            "pipeline1": pspec1, "pipeline2": pspec2, "format": fmt}
    sig = ("saveload", kind, build.GROUPS[g_save], build.GROUPS[g_load], variants_sig(cs_a), variants_sig(cs_b))

    det1 = make_detector(dspec1)
    probes.reset()
    FULL_EVENTS.clear()
    try:
        try:
            run_exposure(det1, pspec1, [1.0], False, True)
        except Exception as exc:  # noqa: BLE001
            rec.violation(f"{mech}:run1:exception", f"{type(exc).__name__}: {exc} :: {traceback.format_exc()[-900:]}",
                          case, i)
            rec.case(sig, True)
            return
        counts = ctx.take(rec)
        at_save = [e for e in FULL_EVENTS if e["model"] == "at_save_full"]
        if counts.get("save_detector", 0) != 1 or len(at_save) != 1 or not os.path.exists(fname):
            rec.violation(f"{mech}:no-file", f"save_detector calls={counts.get('save_detector', 0)}, "
                                             f"file exists={os.path.exists(fname)}", case, i)
            rec.case(sig, True)
            return
        saved = dict(extract_properties(det1))
        saved["containers"] = at_save[0]["state"]
        # (a) direct load of the file written by the model
        try:
            loaded = Detector.load(fname)
        except Exception as exc:  # noqa: BLE001
            rec.violation(f"{mech}:load:exception", f"{type(exc).__name__}: {exc} :: {traceback.format_exc()[-700:]}",
                          case, i)
            rec.case(sig, True)
            return
        d = diff_detectors(saved, extract(loaded))
        report(rec, d, f"{mech}:file-vs-state-at-save", case, i)
        # (b) second run loading it
        det2 = make_detector(dspec2)
        probes.reset()
        FULL_EVENTS.clear()
        try:
            tree = run_exposure(det2, pspec2, [2.0], False, True)
        except Exception as exc:  # noqa: BLE001
            rec.violation(f"{mech}:run2:exception", f"{type(exc).__name__}: {exc} :: {traceback.format_exc()[-900:]}",
                          case, i)
            rec.case(sig, True)
            return
        counts = ctx.take(rec)
        if counts.get("load_detector", 0) != 1:
            rec.violation(f"{mech}:load-model-call-count", f"{counts.get('load_detector', 0)} calls", case, i)
        check_after_load(rec, ctx, tree, det2, 1, saved["containers"], saved["containers"], ["post_full"], [],
                         mech, case, i)
        rec.count("saveload_cases")
        rec.observe("save_groups", build.GROUPS[g_save])
        rec.case(sig, True, sample=case)
    finally:
        ctx.take(rec)
        try:
            os.remove(fname)
        except OSError:
            pass


def run_shard(spec, rec):
    ctx = Ctx(rec)
    if not ctx.formats:
        return
    n_rt, n_pipe = spec["n_rt"], spec["n_pipe"]
    for i in range(spec["n"]):
        if not rec.wanted(i):
            continue
        if i < n_rt:
            roundtrip_case(rec, ctx, i, spec)
        elif i < n_rt + n_pipe:
            pipeline_case(rec, ctx, i, spec)
        else:
            saveload_case(rec, ctx, i, spec)
    ctx.mon.stop()


def _subset_coverage(sets):
    per = {k: set() for k in KINDS}
    for item in sets.get("kind_mask", []):
        kind, mask = item.split(":")
        per[kind].add(int(mask))
    return {k: (len(v), 1 << len(containers_of(k))) for k, v in per.items()}


def finalize(counters, sets, tier):
    out = []
    if counters.get("lib_eq_sees_difference_comparator_does_not", 0):
        out.append("the library's == reported a difference after a round trip in which the structural comparator "
                   f"found none: {sets.get('lib_eq_disagreements', [])[:3]}")
    cov = _subset_coverage(sets)
    for kind, (seen, total) in cov.items():
        need = total if tier == "thorough" else 40
        if seen < need:
            out.append(f"{kind}: only {seen}/{total} container subsets were round-tripped (need {need})")
    if len(sets.get("load_groups", [])) < 10:
        out.append(f"load model placed in only {len(sets.get('load_groups', []))}/10 groups")
    if not any(int(s) > 1 for s in sets.get("pipeline_steps", [])):
        out.append("no multi-readout pipeline with the load model was run")
    if len(sets.get("pipeline_kinds", [])) < 4:
        out.append("load model not exercised on all four detector types")
    want = {f"{k}:{n}" for k in KINDS for n in containers_of(k)}
    have = {":".join(s.split(":")[:2]) for s in sets.get("initialised", [])}
    if want - have:
        out.append(f"containers never initialised in a round trip: {sorted(want - have)}")
    bare = set(sets.get("groups_without_variable", []))
    need_bare = {"coords:plain", "coords:shared-by-subgroups", "attrs:plain", "any:root"}
    if need_bare - bare:
        out.append(f"processed-data groups without data variable never round-tripped: {sorted(need_bare - bare)}")
    variants = {f"{k}:{v}" for k in KINDS for v in ("photon:2d", "photon:3d", "charge:array", "charge:clusters")}
    if variants - set(sets.get("initialised", [])):
        out.append(f"container variants never round-tripped: {sorted(variants - set(sets.get('initialised', [])))}")
    orders = set(sets.get("axis_orders", []))
    need_orders = {f"{c}:{o}" for c in ("photon3d", "scene") for o in AXIS_ORDERS}
    if need_orders - orders:
        out.append(f"orders of the 'wavelength' labels never round-tripped: {sorted(need_orders - orders)}")
    return out


def coverage_extra(counters, sets, tier):
    cov = _subset_coverage(sets)
    return {"container_subsets_round_tripped": {k: f"{a}/{b}" for k, (a, b) in cov.items()},
            "exhaustive": all(a == b for a, b in cov.values()),
            "exhaustive_over": "subsets of initialised containers per detector type (contents are sampled)",
            "skipped": sorted(sets.get("skipped", [])),
            "load_groups_covered": len(sets.get("load_groups", [])),
            "wavelength_label_orders_round_tripped": sorted(sets.get("axis_orders", []))}


REGISTER = True
LEVEL_TEXT = ("Exploration by runtime monitoring: hundreds (quick) to thousands (thorough) of real save/load round "
              "trips of CCD/CMOS/MKID/APD detectors with random valid properties (constructor- and setter-made) and "
              "every subset of initialised containers (all subsets per type enumerated in thorough), compared "
              "field by field by the harness's own structural comparator; plus generated pipelines run by the real "
              "run_mode with load_detector in each of the ten groups (first/middle/last/only position, 1-3 readouts) "
              "and save_detector->load_detector chains, observed by probe models, a sys.monitoring call monitor and "
              "the result tree. Held = on the executions observed.")
LEVEL_NOTE = ("Trusted: numpy/xarray/pandas value semantics used by the comparator, the public accessors of the "
              "containers (array, array_3d, frame, scene.data, data), asdf itself. HDF5 is not exercised without h5py.")
